"""EXISTING (borderline) 5 (C10): a binding whose value is gin.REQUIRED itself.

`f.x = %gin.REQUIRED` is legal config ("must be overridden later");
find_missing_overrides_hook only complains at gin.finalize().  If the config is
not finalized (finalize is optional), gin_wrapper treats this as an ordinary
binding: `x in new_kwargs`, so the "required" check passes and the value - the
REQUIRED marker - is handed to the function, both for f(gin.REQUIRED) and for a
signature-level default.  Same with gin.bind_parameter('f.x', gin.REQUIRED).

C10: "if no binding applies, the call fails before the function body runs ...
The REQUIRED marker itself is never passed to the wrapped function in place of
such a parameter".  Cause: gin_wrapper (gin/config.py) tests only
`arg_name not in new_kwargs`, never `new_kwargs[arg_name] is REQUIRED`.
"""
import gin

seen = []


@gin.configurable
def f(x, y=gin.REQUIRED):
  seen.append((x, y))
  return x, y


gin.parse_config("""
  f.x = %gin.REQUIRED
  f.y = %gin.REQUIRED
""")

try:
  got = f(gin.REQUIRED)
except (RuntimeError, ValueError):
  got = None
assert not any(x is gin.REQUIRED or y is gin.REQUIRED for x, y in seen), (
    'C10 violated: f ran with the gin.REQUIRED marker as argument value(s): '
    'x is REQUIRED: %s, y is REQUIRED: %s'
    % (seen[0][0] is gin.REQUIRED, seen[0][1] is gin.REQUIRED))
assert got is None
print('PASS')
