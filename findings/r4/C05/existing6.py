"""Existing behaviour (unchanged library) - BORDERLINE, possibly "by design":
a scope-like macro name that was NEVER bound silently evaluates to the value of
a *different* macro (its scope prefix), or to a global `macro.value` default.

Property (C05): '%name' evaluates to the value most recently bound to THAT
macro ... for every scope-like macro name; a macro that is referenced but never
bound is an error (finalize() does reject these very configs, which shows the
library itself considers them unbound).

Cause: '%a/b' is the reference '@a/b/gin.macro()', evaluated inside
config_scope(['a', 'b']); gin/config.py _get_bindings() then merges the
bindings of ('', 'gin.macro'), ('a', 'gin.macro') and ('a/b', 'gin.macro')
(scope inheritance), so the binding `a = ...` of the unrelated macro `a`
supplies `value`.  validate_reference() on the other hand demands the exact
key ('a/b', 'gin.macro').
"""
import gin


@gin.configurable
def consumer(x=None):
  return x


def evaluates_or_error(config_str):
  gin.clear_config()
  gin.parse_config(config_str)
  try:
    return ('value', consumer())
  except Exception as e:  # pylint: disable=broad-except
    return ('error', type(e).__name__)
  finally:
    gin.clear_config()


def finalize_rejects(config_str):
  gin.clear_config()
  gin.parse_config(config_str)
  try:
    gin.finalize()
  except ValueError:
    return True
  finally:
    gin.clear_config()
  return False


CASE1 = 'train = 100\nconsumer.x = %train/steps'  # train/steps never bound.
CASE2 = 'macro.value = 7\nconsumer.x = %anything'  # anything never bound.

for case in (CASE1, CASE2):
  assert finalize_rejects(case)  # The library agrees the macro is unbound ...
  outcome = evaluates_or_error(case)
  assert outcome[0] == 'error', (  # ... yet using it "works".
      'C05 violated (borderline): config {!r} references a macro that was '
      'never bound, but it evaluated to {!r} (the value of another macro) '
      'instead of failing'.format(case, outcome[1]))
print('PASS')
