"""Existing behaviour (unchanged library) - BORDERLINE: whether '%NAME' means a
constant is decided once, when the line is parsed, so constants are not
late-bound the way macros are.

Property (C05, title "Macros and constants are late-bound named values"): a
'%name' that matches a Python-defined constant yields that very object.

If the constant is defined after the config was parsed but before the value is
used (e.g. the module calling gin.constant() is imported later), '%NAME' stays a
reference to the (unbound) macro NAME and the call fails, although at the time
of use '%NAME' does match a Python-defined constant.  The symmetric case: an
abbreviation that was unambiguous at parse time silently keeps its meaning when
a second matching constant appears later.

Cause: gin/config.py, ParserDelegate.macro() consults _CONSTANTS at parse time
and bakes the outcome into the reference ('NAME/gin.macro' vs
'full.NAME/gin.constant').
"""
import gin


@gin.configurable
def consumer(x=None):
  return x


gin.clear_config(clear_constants=True)
gin.parse_config('consumer.x = %LATE_CONSTANT')
sentinel = object()
gin.constant('LATE_CONSTANT', sentinel)
try:
  got = consumer()
except Exception as e:  # pylint: disable=broad-except
  raise AssertionError(
      'C05 violated (borderline): %LATE_CONSTANT matches the Python-defined '
      'constant LATE_CONSTANT when it is used, but evaluating it failed with '
      '{}: {}'.format(type(e).__name__, str(e).splitlines()[0]))
assert got is sentinel
print('PASS')
