"""Existing defect (unchanged library): a macro that is used as a dictionary
KEY is evaluated at call time but is invisible to gin.finalize().

Property (C05): "Finalizing rejects a macro that is referenced but never bound
or referenced without being evaluated."

Cause: gin/config.py, _iterate_flattened_values():

    if isinstance(value, collections.abc.Mapping):
      value = collections.abc.ValuesView(value)

only the *values* of a mapping are walked, so iterate_references() (and hence
validate_macros_hook) never sees references that sit in key position, although
the parser accepts `{%name: ...}` (ConfigurableReference is hashable) and
copy.deepcopy() - which performs the evaluation - does copy/evaluate keys.
"""
import gin


@gin.configurable
def consumer(table=None):
  return table


# Keys really are macro uses: they are evaluated when the configurable is called.
gin.clear_config()
gin.parse_config("""
  consumer.table = {%key: 'v', (%key, 2): 'w'}
  key = 'k'
""")
gin.finalize()
assert consumer() == {'k': 'v', ('k', 2): 'w'}, consumer()


def finalize_rejects(config_str):
  gin.clear_config()
  gin.parse_config(config_str)
  try:
    gin.finalize()
  except ValueError:
    return True
  finally:
    gin.clear_config()
  return False


# Sanity: in value position the problems are detected.
assert finalize_rejects("consumer.table = {'a': %never_bound}")
assert finalize_rejects("m = 1\nconsumer.table = {'a': @m/macro}")

assert finalize_rejects("consumer.table = {%never_bound: 'a'}"), (
    'C05 violated: finalize() accepted a config whose dict key references the '
    'never-bound macro %never_bound')
assert finalize_rejects("m = 1\nconsumer.table = {@m/macro: 'a'}"), (
    'C05 violated: finalize() accepted an unevaluated macro reference '
    '(@m/macro) in dict-key position')
print('PASS')
