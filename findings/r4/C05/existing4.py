"""Existing defect (unchanged library): gin.constants_from_enum fails with a
spurious "duplicate constant" error on an Enum that has an alias member, so none
of the later members (nor the alias) becomes a constant.

Property (C05): a '%name' matching a Python-defined constant yields that very
object; only an ambiguous abbreviation, an invalid name or a *duplicate
definition* is an error.  Here every name (Color.RED, Color.CRIMSON,
Color.BLUE) is valid and defined exactly once.

Cause: gin/config.py, constants_from_enum():

    for value in cls.__members__.values():
      constant('{}.{}.{}'.format(module, cls.__name__, value.name), value)

`__members__` maps the alias name to the canonical member, whose `.name` is the
canonical name, so 'mod.Color.RED' is defined twice (-> ValueError "already
exist") instead of defining 'mod.Color.CRIMSON'.  The loop should use
`for name, value in cls.__members__.items()` and the key `name`.
"""
import enum
import gin

gin.clear_config(clear_constants=True)


@gin.configurable
def paint(color=None):
  return color


try:

  @gin.constants_from_enum(module='palette')
  class Color(enum.Enum):
    RED = 1
    CRIMSON = 1  # Alias of RED (perfectly legal in an Enum).
    BLUE = 2

except ValueError as e:
  raise AssertionError(
      'C05 violated: defining constants from an Enum with an alias member '
      'raised a spurious duplicate-definition error: {}'.format(e))

gin.parse_config('paint.color = %Color.CRIMSON')
assert paint() is Color.RED
gin.parse_config('paint.color = %palette.Color.BLUE')
assert paint() is Color.BLUE
print('PASS')
