"""Existing defect (unchanged library): gin.finalize() called while a config
scope is active does not validate macros at all.

Property (C05): "Finalizing rejects a macro that is referenced but never bound
or referenced without being evaluated."

Cause: gin/config.py, validate_macros_hook():

    for ref in iterate_references(config, to=get_configurable(macro)):

get_configurable() applies the *currently active* scope to what it returns
(_as_scope_and_selector() falls back to current_scope(), then
_decorate_with_scope() wraps the configurable).  Inside `with
gin.config_scope('x')` (or inside any configurable that is itself running under
a scoped reference such as `@train/main()`), `to` is therefore a fresh scoping
wrapper, and iterate_references()' test `value.configurable.wrapper == to` is
False for every reference: no macro reference is ever validated.
"""
import gin


@gin.configurable
def consumer(x=None):
  return x


def finalize_rejects(config_str, scope):
  gin.clear_config()
  gin.parse_config(config_str)
  try:
    if scope:
      with gin.config_scope(scope):
        gin.finalize()
    else:
      gin.finalize()
  except ValueError:
    return True
  finally:
    gin.clear_config()
  return False


UNBOUND = 'consumer.x = %never_bound'
UNEVALUATED = 'm = 1\nconsumer.x = @m/macro'

# Sanity: outside of any scope both are rejected.
assert finalize_rejects(UNBOUND, None)
assert finalize_rejects(UNEVALUATED, None)

assert finalize_rejects(UNBOUND, 'train'), (
    'C05 violated: finalize() inside config_scope("train") accepted a config '
    'that references the never-bound macro %never_bound')
assert finalize_rejects(UNEVALUATED, 'train'), (
    'C05 violated: finalize() inside config_scope("train") accepted the '
    'unevaluated macro reference @m/macro')
print('PASS')
