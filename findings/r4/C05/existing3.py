"""Existing defect (unchanged library): gin.constant() accepts an invalid name
that ends in a newline.

Property (C05): "... an ambiguous abbreviation, an invalid name or a duplicate
definition is an error."

Cause: gin/selector_map.py, SELECTOR_RE (aliased as config_parser.MODULE_RE and
used by gin.constant() and SelectorMap.__setitem__):

    SELECTOR_RE = re.compile(r'^([a-zA-Z_]\w*\.)*[a-zA-Z_]\w*$')

is applied with .match(); in Python `$` also matches just before a trailing
'\n', so 'ANSWER\n' and 'lib.ANSWER\n' pass validation (config_parser
.IDENTIFIER_RE has the same flaw).  The constant is stored under a name no
'%...' can ever spell, and the duplicate check is defeated: 'ANSWER' can then be
defined a second time alongside it.
"""
import gin

gin.clear_config(clear_constants=True)

for bad in ('ANSWER\n', 'lib.mod.ANSWER\n'):
  try:
    gin.constant(bad, 42)
  except ValueError:
    pass
  else:
    raise AssertionError(
        'C05 violated: gin.constant({!r}, 42) was accepted although {!r} is '
        'not a valid (dotted identifier) constant name'.format(bad, bad))
print('PASS')
