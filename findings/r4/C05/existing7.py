"""Existing behaviour (unchanged library) - LOW SEVERITY, reachable only through
the Python API (the parser always creates a fresh reference object per '%name'):
when the same ConfigurableReference OBJECT occurs several times inside one
bound value, the macro is evaluated once and the result is shared.

Property (C05): "a macro bound to an evaluated reference re-evaluates it at
every use".

Cause: evaluation is piggy-backed on copy.deepcopy() (gin/config.py,
ConfigurableReference.__deepcopy__, called from gin_wrapper's
`copy.deepcopy(new_kwargs)`); deepcopy memoises results by id(object), so the
second occurrence of the same reference object returns the memoised result of
the first without calling __deepcopy__ again.
"""
import gin

_COUNT = [0]


@gin.configurable
def fresh():
  _COUNT[0] += 1
  return _COUNT[0]


@gin.configurable
def consumer(pair=None, single=None):
  return pair, single


gin.clear_config()
gin.parse_config("""
  m = @fresh()
  consumer.single = %m
""")
ref = gin.query_parameter('consumer.single')  # The parsed '%m' reference.
assert isinstance(ref, gin.config.ConfigurableReference) and ref.evaluate
gin.bind_parameter('consumer.pair', (ref, ref))  # Two uses of %m.

pair, single = consumer()
assert len({pair[0], pair[1], single}) == 3, (
    'C05 violated: %m (= @fresh()) is used three times but was re-evaluated '
    'only {} time(s): pair={!r} single={!r}'.format(
        len({pair[0], pair[1], single}), pair, single))
print('PASS')
