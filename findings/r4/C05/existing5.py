"""Existing defect (unchanged library) - ADJACENT to C05 (parser level): a
minus sign in front of a macro (or of an evaluated reference) is silently
dropped, so `-%name` evaluates to +value instead of either -value or an error.

C05 says '%name' evaluates to the value bound to the macro; the text `-%lr` is
not a bare '%name' and Gin has no arithmetic, so the only acceptable outcomes
are a SyntaxError (as for `-[1]` or `--1`) or the negated value.  Silently
yielding the un-negated value is wrong under either reading.

Cause: gin/config_parser.py, ConfigParser._maybe_parse_basic_type():

    if self._current_token.string == '-':
      token_value += self._current_token.string
      self._advance()
    ...
    if not continue_parsing:
      return False, None

the '-' token is consumed before it is known that a number follows; on
failure the parser is not rewound, parse_value() moves on to
_maybe_parse_configurable_reference/_maybe_parse_macro, which happily parse
the '%name' / '@fn()' that comes next.
"""
import gin


@gin.configurable
def step(lr=None):
  return lr


gin.clear_config()
try:
  gin.parse_config("""
    rate = 3
    step.lr = -%rate
  """)
except SyntaxError:
  print('PASS')  # Rejecting the input is fine.
else:
  got = step()
  assert got == -3, (
      "'step.lr = -%rate' with rate = 3 was accepted and evaluates to {!r}: "
      "the minus sign was silently dropped".format(got))
  print('PASS')
