"""C14, pre-existing defect 2: 'time/x.gin' silently reads './x.gin'.

Property C14: "... package-relative names resolve through the Python path, and
a name nobody can read raises an IOError naming the locations searched and
applies nothing from it."

The Python-path reader registered by `import gin` (gin/resource_reader.py)
computes the file to open as

    os.path.join(os.path.dirname(spec.origin), filename)

where `spec` is the import spec of the directory part of the name.  For modules
that are compiled into the interpreter `spec.origin` is not a path but the
marker string 'built-in' (sys, time, gc, errno, ...) or 'frozen' (os, io, abc,
site, stat, codecs, ... on CPython >= 3.11).  `os.path.dirname('built-in')` is
'', so the reader claims that 'time/x.gin' exists whenever a file './x.gin'
exists in the *current directory*, and then opens and applies that unrelated
file.  No file called 'time/x.gin' (or 'os/x.gin') exists in any search
location nor in any package on the Python path, so the only correct outcome is
the IOError; instead the bindings of another file are applied and the returned
tree claims 'time/x.gin' was parsed.

Cause: gin/resource_reader.py, `_parse_config_path` trusts `spec.origin` to be a
file system path.
"""
import importlib.util
import os
import tempfile

import gin


@gin.configurable
def c14_ex2_fn(value=None):
  return value


root = tempfile.mkdtemp(prefix='c14ex2_')
os.chdir(root)
with open('x.gin', 'w') as f:   # An unrelated file in the current directory.
  f.write("c14_ex2_fn.value = 'from ./x.gin, which nobody asked for'\n")

for package_dir in ('time', 'sys', 'os'):
  origin = importlib.util.find_spec(package_dir).origin
  name = package_dir + '/x.gin'
  assert not os.path.exists(name)
  gin.clear_config()
  try:
    result = gin.parse_config("c14_ex2_fn.value = 'before'\ninclude '%s'\n" % name)
  except IOError as e:
    assert name in str(e), e
    assert c14_ex2_fn() == 'before', c14_ex2_fn()
    continue
  raise AssertionError(
      'C14 violated: %r exists in no search location and in no package (the '
      'spec origin of %r is %r), so an IOError is due and nothing may be '
      'applied; instead the include succeeded (%r) and applied another file: '
      'c14_ex2_fn.value == %r' % (name, package_dir, origin, result,
                                  c14_ex2_fn()))

print('PASS')
