"""C14, pre-existing defect 1: a plain directory on sys.path breaks the search.

Property C14: "A relative file name is resolved by trying each search location
in the order registered (current directory first) and within a location each
registered reader in order ... and a name nobody can read raises an IOError
naming the locations searched".

`import gin` registers the Python-path reader (gin/resource_reader.py) as second
reader.  Its existence check `system_path_file_exists` turns the directory part
of the name into a package name and calls `importlib.util.find_spec`.  For a
directory WITHOUT `__init__.py` that sits in a sys.path entry (very common: the
script's directory is sys.path[0], so './configs/' is such a directory) Python
returns a *namespace package* spec whose `origin` is None, and
`_parse_config_path` does `os.path.dirname(None)` -> TypeError.  Only
ModuleNotFoundError/ValueError/ImportError are caught, so the TypeError escapes
from `parse_config_file`:

  * 'configs/a.gin' that exists only in a LATER search location is never found
    (the search dies at the first location instead of moving on), and
  * 'configs/typo.gin' that exists nowhere raises TypeError("expected str, bytes
    or os.PathLike object, not NoneType") instead of the IOError naming the
    searched locations.

Cause: gin/resource_reader.py, `_parse_config_path` (`file_sys_path =
spec.origin` / `os.path.dirname(file_sys_path)`) together with the too narrow
`except` in `system_path_file_exists`.
"""
import os
import sys
import tempfile

import gin


@gin.configurable
def c14_ex1_fn(value=None):
  return value


root = tempfile.mkdtemp(prefix='c14ex1_')
cwd = os.path.join(root, 'project')
later = os.path.join(root, 'shared')
os.makedirs(os.path.join(cwd, 'c14ex1_configs'))       # plain dir, no __init__.py
os.makedirs(os.path.join(later, 'c14ex1_configs'))
with open(os.path.join(later, 'c14ex1_configs', 'a.gin'), 'w') as f:
  f.write("c14_ex1_fn.value = 'from the later location'\n")
os.chdir(cwd)
sys.path.insert(0, cwd)   # What `python project/train.py` does on its own.
gin.add_config_file_search_path(later)

# 1. The file lives only in the second search location: it must be found there.
try:
  result = gin.parse_config_file('c14ex1_configs/a.gin')
except IOError:
  raise
except Exception as e:  # pylint: disable=broad-except
  raise AssertionError(
      "C14 violated: 'c14ex1_configs/a.gin' exists in the second search "
      'location, but the search aborted at the first location with %s: %s'
      % (type(e).__name__, e))
assert result.filename == 'c14ex1_configs/a.gin', result
assert c14_ex1_fn() == 'from the later location', c14_ex1_fn()

# 2. A name nobody can read: IOError naming the locations searched.
gin.clear_config()
try:
  gin.parse_config("c14_ex1_fn.value = 'before'\n"
                   "include 'c14ex1_configs/typo.gin'\n")
except IOError as e:
  assert 'c14ex1_configs/typo.gin' in str(e) and later in str(e), e
except Exception as e:  # pylint: disable=broad-except
  raise AssertionError(
      'C14 violated: an unreadable name must raise an IOError naming the '
      'searched locations, got %s: %s' % (type(e).__name__, e))
else:
  raise AssertionError('no error for a missing file')
assert c14_ex1_fn() == 'before'

print('PASS')
