"""EXISTING DEFECT 6 (unchanged tree; lower confidence -- depends on what a
"file reader" is obliged to return): files read through a reader registered
with gin.config.register_file_reader are reported as 'bindings string'.

C16: a semantic error names the file and the line on which the offending
statement begins, once for each level of the include chain, and
config_str(show_provenance=True) attributes each binding to the file and line
of the statement that last set it.

The only place the file name comes from is `getattr(string_or_filelike, 'name',
None)` in `ConfigParser.__init__` (gin/config_parser.py).  `parse_config_file`
(gin/config.py) knows the name of the file it opened but does not pass it on,
so if the registered reader returns a file-like object without a `.name`
(io.StringIO, a zip member, a wrapped network stream, ...) every location in
that file says 'bindings string', the include chain reads "bindings string
line 2 / bindings string line 2", and provenance of bindings from different
sources is indistinguishable.
"""
import io

import gin


@gin.configurable
def pool(size=0, stride=0):
  return size, stride


STORE = {
    'mem://inner.gin': '# inner\n\npool.size = 1\npool.nope = 2\n',
}


def main():
  gin.config.register_file_reader(lambda path: io.StringIO(STORE[path]),
                                  lambda path: path in STORE)
  gin.clear_config()
  try:
    gin.parse_config("pool.stride = 5\ninclude 'mem://inner.gin'\n")
  except ValueError as e:
    msg = str(e)
  else:
    raise AssertionError('expected ValueError')
  assert gin.query_parameter('pool.size') == 1

  problems = []
  if 'mem://inner.gin", line 4' not in msg:
    problems.append(
        'the offending statement is line 4 of mem://inner.gin, but the error '
        'says:\n' + msg)
  prov = gin.config_str(show_provenance=True)
  if '# Set in mem://inner.gin:3:\npool.size = 1' not in prov:
    problems.append(
        'pool.size was set by mem://inner.gin line 3, but provenance says:\n' +
        prov)
  assert not problems, '\n'.join(problems)
  gin.clear_config()
  print('PASS')


if __name__ == '__main__':
  main()
