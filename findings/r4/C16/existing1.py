"""EXISTING DEFECT 1 (unchanged tree): the imports preceding a fault are lost.

C16: if parsing fails at some statement, exactly the statements preceding it
have taken effect, so that the process is in the state of a fresh process with
that prefix applied.

`import` statements are statements.  Their lasting effect (besides importing
the module) is that they are recorded in gin's import set, from which
`config_str()` / `operative_config_str()` emit the `import ...` lines (and from
which they decide whether the dynamic-registration syntax is to be used).
`parse_config` only does `_IMPORTS.update(parse_context.imports)` after the
statement loop has run to completion (gin/config.py, end of `parse_config`,
"Update recorded imports"), not in a `finally`, so when a later statement
fails, the imports that precede it are dropped although the bindings that
precede it are kept.

We compare, in one process, "parse prefix + faulty statement" against "parse
the prefix alone": config_str() must be the same.
"""
import sys
import types

import gin


@gin.configurable
def f(x=0, y=0):
  return x, y


def _install_module():
  m = types.ModuleType('existing1_mod')

  def fn(a=0):
    return a

  fn.__module__ = 'existing1_mod'
  fn.__qualname__ = 'fn'
  m.fn = fn
  sys.modules['existing1_mod'] = m


def state_after(text, must_fail):
  gin.clear_config()
  try:
    gin.parse_config(text)
  except ValueError as e:
    assert must_fail, e
  else:
    assert not must_fail
  out = gin.config_str()
  gin.clear_config()
  return out


def main():
  _install_module()

  # 1. Plain (registry based) file.
  prefix = 'import math\nimport os.path as osp\nf.x = 1\n'
  fresh = state_after(prefix, must_fail=False)
  failed = state_after(prefix + 'nope.y = 2\nf.y = 3\n', must_fail=True)
  assert 'import math' in fresh and 'f.x = 1' in fresh
  assert failed == fresh, (
      'After a parse failing on line 4, config_str() differs from the one '
      'obtained by parsing lines 1-3 alone: the import statements preceding '
      'the fault were not recorded.\n--- prefix alone ---\n%s\n--- failed '
      'parse ---\n%s' % (fresh, failed))

  # 2. Dynamic registration: the emitted config is not even in the same syntax.
  prefix = ('from __gin__ import dynamic_registration\n'
            'import existing1_mod\n'
            'existing1_mod.fn.a = 1\n')
  fresh = state_after(prefix, must_fail=False)
  failed = state_after(prefix + 'existing1_mod.fn.zzz = 2\n', must_fail=True)
  assert failed == fresh, (
      'dynamic registration: config_str() after the failed parse differs from '
      'the one after the prefix alone.\n--- prefix alone ---\n%s\n--- failed '
      'parse ---\n%s' % (fresh, failed))

  print('PASS')


if __name__ == '__main__':
  main()
