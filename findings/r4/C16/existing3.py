"""EXISTING DEFECT 3 (unchanged tree, by the letter of C16): a semantic fault
inside a multi-line value is reported at the line of the offending *token*, and
the line on which the offending *statement* begins is not named at all.

C16: a semantic error keeps its exception type and names the file (or
'bindings string') and the line on which the offending statement begins.

Unknown references / ambiguous constants are detected while the value is being
parsed: `ConfigParser._maybe_parse_configurable_reference` and
`_maybe_parse_macro` (gin/config_parser.py) wrap the delegate call in
`utils.try_with_location(location)` with the location of the '@' / '%' token.
The exception then leaves `parser.__next__` in `parse_config`, i.e. outside
every `try_with_location(statement.location)`, so the statement's own line is
never added.  For a value spanning several lines the reported line is thus not
the one on which the statement begins; provenance / other semantic errors
(unknown parameter etc.) of the very same statement DO use the first line.
"""
import gin


@gin.configurable
def pool(size=0, layers=None):
  return size, layers


def main():
  gin.clear_config()
  gin.constant('existing3_a.K', 1)
  gin.constant('existing3_b.K', 2)

  # Control: unknown parameter on a multi-line statement -> first line (2).
  try:
    gin.parse_config('pool.size = 1\npool.nope = [\n  1,\n  2,\n]\n')
  except ValueError as e:
    assert 'bindings string line 2' in str(e), str(e)

  problems = []
  for what, text in [
      ('unknown reference',
       'pool.size = 1\npool.layers = [\n  1,\n  @nonexistent_fn,\n]\n'),
      ('ambiguous constant',
       'pool.size = 1\npool.layers = [\n  1,\n  %K,\n]\n'),
  ]:
    gin.clear_config()
    try:
      gin.parse_config(text)
    except ValueError as e:
      msg = str(e)
    else:
      raise AssertionError('expected ValueError')
    assert gin.query_parameter('pool.size') == 1
    if 'bindings string line 2' not in msg:
      problems.append(
          '%s: the offending statement begins on line 2 but the error only '
          'says:\n%s' % (what, msg))
  assert not problems, '\n'.join(problems)
  gin.clear_config()
  print('PASS')


if __name__ == '__main__':
  main()
