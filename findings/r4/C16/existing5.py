"""EXISTING DEFECT 5 (unchanged tree): semantic errors whose TYPE is
SyntaxError get no gin location / no include chain.

C16: a semantic error keeps its original exception type and names the file (or
'bindings string') and the line on which the offending statement begins, once
for each level of the include chain.  Fault kind: bad import.

`utils.try_with_location` (gin/utils.py) re-raises every SyntaxError untouched
("SyntaxErrors already include location information").  That is true only of
the errors raised by gin's own parser for the file being parsed.  It is false
for
  (a) `import some_module` where the Python module itself contains a syntax
      error: the SyntaxError raised by `__import__` carries the location in
      the .py file; neither the gin file nor the line of the import statement
      is named anywhere;
  (b) the SyntaxErrors raised by `ParseContext.process_import` (semantic checks
      on `from __gin__ import ...`: unknown feature, dynamic registration after
      other imports, aliasing) when the statement sits in an included file: the
      innermost file/line is there but the include chain is not.
"""
import os
import sys
import tempfile

import gin


@gin.configurable
def pool(size=0):
  return size


def main():
  tmp = tempfile.mkdtemp()
  sys.path.insert(0, tmp)
  with open(os.path.join(tmp, 'existing5_broken.py'), 'w') as f:
    f.write('x = 1\ny = 2\n\ndef f(:\n  pass\n')
  inner = os.path.join(tmp, 'inner.gin')
  outer = os.path.join(tmp, 'outer.gin')
  problems = []

  # (a) depth 0.
  gin.clear_config()
  try:
    gin.parse_config('pool.size = 1\n\nimport existing5_broken\n')
  except SyntaxError as e:
    assert gin.query_parameter('pool.size') == 1
    text = '%s | filename=%r lineno=%r' % (e, e.filename, e.lineno)
    if not ('bindings string' in str(e) and 'line 3' in str(e)):
      problems.append(
          "(a) 'import existing5_broken' on line 3 of a bindings string: the "
          'error does not name the bindings string / line 3: ' + text)
  else:
    raise AssertionError('expected SyntaxError')

  # (a) depth 1.
  with open(inner, 'w') as f:
    f.write('# inner\nimport existing5_broken\n')
  with open(outer, 'w') as f:
    f.write("# outer\n\n\ninclude '%s'\n" % inner)
  gin.clear_config()
  try:
    gin.parse_config_file(outer)
  except SyntaxError as e:
    if 'inner.gin' not in str(e) or 'outer.gin' not in str(e):
      problems.append(
          '(a) broken module imported from inner.gin (included by outer.gin): '
          'neither gin file is named: %s' % e)
  else:
    raise AssertionError('expected SyntaxError')

  # (b) semantic check of process_import inside an included file.
  with open(inner, 'w') as f:
    f.write('import math\nfrom __gin__ import dynamic_registration\n')
  gin.clear_config()
  try:
    gin.parse_config_file(outer)
  except SyntaxError as e:
    assert 'inner.gin' in str(e) and 'line 2' in str(e), str(e)
    if 'outer.gin' not in str(e):
      problems.append(
          '(b) dynamic_registration-after-import error in inner.gin: the '
          'include statement in outer.gin (line 4) is not named: %s' % e)
  else:
    raise AssertionError('expected SyntaxError')

  assert not problems, '\n'.join(problems)
  gin.clear_config()
  print('PASS')


if __name__ == '__main__':
  main()
