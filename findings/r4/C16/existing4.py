"""EXISTING DEFECT 4 (unchanged tree): under dynamic registration the FAILING
statement itself leaves a lasting effect (it registers configurables), so later
parsing does not behave as in a fresh process with the prefix applied.

C16: exactly the statements preceding the fault have taken effect (the faulty
one has not) ... so later parsing behaves as in a fresh process with that
prefix applied.

With `from __gin__ import dynamic_registration`, merely *resolving* a selector
registers the function: `ParseContext.get_configurable` -> `_register` ->
`_make_configurable` (gin/config.py) runs from `ParsedBindingKey.parse` before
the parameter name is validated, and from `ConfigurableReference.__init__`
while the value is still being parsed.  If the statement then fails (unknown
parameter; a later element of the value is an unknown reference) the
registration in the global registry stays.  A later, registry based parse can
see the difference: `fn.a = 3` is an "unknown configurable" error in a fresh
process that applied the same prefix, but succeeds after the failed parse.
"""
import sys
import types

import gin


def _install_module():
  m = types.ModuleType('existing4_mod')
  for name in ('alpha', 'beta', 'gamma'):
    def fn(a=0):
      return a
    fn.__name__ = fn.__qualname__ = name
    fn.__module__ = 'existing4_mod'
    setattr(m, name, fn)
  sys.modules['existing4_mod'] = m


def parses(text):
  try:
    gin.parse_config(text)
  except ValueError:
    return False
  return True


HEADER = 'from __gin__ import dynamic_registration\nimport existing4_mod\n'


def main():
  _install_module()
  gin.clear_config()

  # The prefix alone (two import statements) registers nothing:
  gin.parse_config(HEADER)
  for name in ('alpha', 'beta', 'gamma'):
    assert not parses('%s.a = 3' % name), name

  problems = []

  # Fault kind: unknown parameter.
  try:
    gin.parse_config(HEADER + 'existing4_mod.alpha.nonexistent = 1\n')
  except ValueError as e:
    assert 'line 3' in str(e)
  else:
    raise AssertionError('expected failure')
  if parses('alpha.a = 3'):
    problems.append(
        "'alpha.a = 3' is rejected after the prefix alone but accepted after "
        "the failed statement 'existing4_mod.alpha.nonexistent = 1'")

  # Fault kind: unknown reference (second element of the value).
  try:
    gin.parse_config(
        HEADER +
        'existing4_mod.beta.a = [@existing4_mod.gamma, @existing4_mod.nope]\n')
  except AttributeError as e:
    assert 'line 3' in str(e)
  else:
    raise AssertionError('expected failure')
  if parses('gamma.a = 3'):
    problems.append(
        "'gamma.a = 3' is rejected after the prefix alone but accepted after "
        "the failed statement that mentioned @existing4_mod.gamma")

  assert not problems, (
      'the failing statement left registrations behind:\n  ' +
      '\n  '.join(problems))
  gin.clear_config()
  print('PASS')


if __name__ == '__main__':
  main()
