"""EXISTING DEFECT 2 (unchanged tree): a syntactically bad block member (or a
tokenizer error right after a block) discards the block members preceding it.

C16: fault kind "bad block member" -- exactly the statements preceding the
fault have taken effect.

`ConfigParser._parse_binding_block` (gin/config_parser.py) parses the block
header and ALL members of an indented block before `parse_statement` returns
the `BlockDeclaration` and queues the members (`_statements_queue.extend`).  A
syntax error in member k (or a tokenizer error while looking for the DEDENT
that ends the block) therefore propagates before the header and members 1..k-1
were ever handed to `parse_config`: they precede the fault, yet do not take
effect.  (A *semantic* fault in member k behaves correctly: members 1..k-1 are
applied -- which also shows that members are individually applied statements.)
"""
import tokenize

import gin


@gin.configurable
def pool(size=0, stride=0, pad=0):
  return size, stride, pad


def bound(key):
  try:
    return gin.query_parameter(key)
  except ValueError:
    return None


def run(text, exc):
  gin.clear_config()
  try:
    gin.parse_config(text)
  except exc as e:
    err = e
  else:
    raise AssertionError('expected failure')
  return err, (bound('pool.size'), bound('pool.stride'), bound('pool.pad'))


def main():
  # Reference behaviour: semantic fault in the 3rd member -> first two applied.
  _, state = run('pool:\n  size = 1\n  stride = 2\n  padd = 3\n', ValueError)
  assert state == (1, 2, None), state

  failures = []

  # (a) bad value in the 3rd member.
  _, state = run('pool:\n  size = 1\n  stride = 2\n  pad = $oops\n',
                 SyntaxError)
  if state != (1, 2, None):
    failures.append('bad value in member 3: (size, stride, pad) = %r, '
                    'expected (1, 2, None)' % (state,))

  # (b) a member spelled with a selector instead of a bare parameter name.
  _, state = run('pool:\n  size = 1\n  stride = 2\n  pool.pad = 3\n',
                 SyntaxError)
  if state != (1, 2, None):
    failures.append('bad member name in member 3: (size, stride, pad) = %r, '
                    'expected (1, 2, None)' % (state,))

  # (c) the block is complete; the NEXT line dedents to a level never opened.
  _, state = run('pool:\n    size = 1\n    stride = 2\n  pool.pad = 3\n',
                 (SyntaxError, tokenize.TokenError))
  if state != (1, 2, None):
    failures.append('inconsistent dedent after a complete block: (size, '
                    'stride, pad) = %r, expected (1, 2, None)' % (state,))

  assert not failures, (
      'Block members preceding a syntactic fault did not take effect:\n  ' +
      '\n  '.join(failures))
  gin.clear_config()
  print('PASS')


if __name__ == '__main__':
  main()
