"""EXISTING DEFECT (unchanged tree): a positional-only parameter is accepted as
a binding although the configurable's signature cannot accept it the way Gin
supplies it (by keyword).

`_might_have_parameter` (gin/config.py) tests `arg_name in arg_spec.args`, and
`inspect.getfullargspec(...).args` also lists positional-only parameters.  Gin
injects bindings exclusively as keyword arguments (`fn(*new_args, **new_kwargs)`
in `gin_wrapper`), so the accepted binding makes every later call of the
configurable fail with a TypeError instead of being rejected at bind time.
"""
import gin


@gin.configurable
def scale(factor=2, /, offset=0):
  return factor, offset


gin.clear_config()
gin.bind_parameter('scale.offset', 1)
assert scale() == (2, 1)

try:
  gin.bind_parameter('scale.factor', 10)
except ValueError:
  accepted = False
else:
  accepted = True

if accepted:
  try:
    result = scale()
  except TypeError as e:
    result = 'TypeError: %s' % str(e).splitlines()[0]
  raise AssertionError(
      "C11 violated: binding 'scale.factor' (a positional-only parameter, "
      'which scale() cannot receive by keyword) was accepted; calling scale() '
      'now gives: %s' % (result,))
print('PASS')
