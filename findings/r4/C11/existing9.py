"""EXISTING DEFECT (unchanged tree; weaker -- arguably a specification gap): an
EMPTY allowlist does not restrict anything.

`ParsedBindingKey.parse` guards the check with the truthiness of the list
(`if configurable_.allowlist and arg_name not in configurable_.allowlist` in
gin/config.py; `_make_configurable` likewise uses `if allowlist and ...`), so
`allowlist=[]` / `allowlist=()` -- "no parameter is configurable" -- behaves
exactly like "no allowlist": every parameter is bindable and injected.
"""
import gin


@gin.configurable(allowlist=[])
def sealed(x=0, y=0):
  return x, y


gin.clear_config()
try:
  gin.bind_parameter('sealed.x', 1)
except ValueError:
  pass
else:
  raise AssertionError(
      "C11 violated: 'sealed.x' is not inside the (empty) allowlist of "
      '`sealed` but the binding was accepted; sealed() == %r' % (sealed(),))
print('PASS')
