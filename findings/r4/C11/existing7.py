"""EXISTING DEFECT (unchanged tree): a binding made for a registered method
before its class is registered survives as a binding that names NO registered
configurable (and `config_str()` then crashes).

While only the method is registered, its selector is `<module>.<method>` and
`bind_parameter('method.arg', ...)` is (rightly) accepted.  When the class is
registered afterwards, `_find_registered_methods` (gin/config.py) pops the old
selector from `_REGISTRY` and re-registers the method as
`<module>.<Class>.<method>` -- but the entry in `_CONFIG` /
`_CONFIG_PROVENANCE` keyed by the old selector is left behind.  The
configuration now contains a binding whose configurable does not exist:
it can be neither queried nor re-bound, and `gin.config_str()` raises KeyError.

C11: every binding in the configuration names a registered configurable.
"""
import gin


class Late:

  def __init__(self, a=0):
    self.a = a

  @gin.register
  def method(self, arg=0):
    return arg


gin.clear_config()
gin.bind_parameter('method.arg', 5)  # Legal: only the method is registered.
gin.register(Late)  # Now the class is registered: method -> Late.method.

# 'method.arg' is no longer a valid key ...
try:
  gin.bind_parameter('method.arg', 6)
except ValueError:
  pass
else:
  raise AssertionError('method addressable without class name')

# ... so the configuration must not contain such a binding any more (it should
# have been moved to Late.method or dropped).
try:
  text = gin.config_str()
except KeyError as e:
  raise AssertionError(
      'C11 violated: the configuration still holds a binding for selector %s, '
      'which names no registered configurable (config_str() raised KeyError)'
      % e)
assert 'Late.method.arg = 5' in text or 'method.arg' not in text, text
print('PASS')
