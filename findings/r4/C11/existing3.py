"""EXISTING DEFECT (unchanged tree): the instance / class slot of a constructor
or method (`self`, `cls`) is accepted as a configurable parameter.

`_might_have_parameter` (gin/config.py) checks the name against
`inspect.getfullargspec(<__init__ | __new__ | method>).args`, which includes
the bound first argument.  So `Cls.self`, `Cls.method.self` and (for classes
constructed through `__new__`) `Cls.cls` are accepted on every binding path and
show up in `config_str()`, although no caller can ever have them supplied by
Gin (the wrapper silently drops the binding because the slot is always passed
positionally).  They are not parameters "that the configurable's signature can
accept".
"""
import gin


@gin.configurable
class Model:

  def __init__(self, width=1):
    self.width = width


@gin.register
class Holder:

  def __init__(self, a=0):
    self.a = a

  @gin.register
  def method(self, arg=0):
    return arg


@gin.configurable
class ViaNew:

  def __new__(cls, value=0):
    instance = super().__new__(cls)
    instance.value = value
    return instance


def accepted(fn):
  try:
    fn()
  except (ValueError, KeyError):
    return False
  return True


gin.clear_config()
problems = []
if accepted(lambda: gin.bind_parameter('Model.self', 'bogus')):
  problems.append('Model.self (string key)')
if accepted(lambda: gin.parse_config('sc/Model.self = "bogus"')):
  problems.append('sc/Model.self (config text)')
if accepted(lambda: gin.bind_parameter(('', 'Holder.method', 'self'), 'bogus')):
  problems.append('Holder.method.self (tuple key)')
if accepted(lambda: gin.bind_parameter('ViaNew.cls', 'bogus')):
  problems.append('ViaNew.cls')
assert not problems, (
    'C11 violated: bindings for the bound first argument were accepted: %s\n%s'
    % (problems, gin.config_str()))
print('PASS')
