"""EXISTING DEFECT (unchanged tree): the allowlist / denylist of a class is lost
when dynamic registration re-registers the class because one of its methods is
configured.

`ParseContext._register` (gin/config.py, the `_make_configurable(...)` call and
the recursive `self._register(attr_names[:-1], attr_values[:-1])` for the parent
class of a method) re-registers the parent class with NO allowlist / denylist
and overwrites `_INVERSE_REGISTRY[cls]`.  From then on `get_configurable` (the
dynamic-registration branch uses `_inverse_lookup(attr_values[-1])`) hands
`ParsedBindingKey.parse` a `Configurable` whose lists are `None`, so a parameter
that the author of the class declared non-configurable is accepted -- and
injected.  Note that even a *rejected* binding (`m.Guarded.helper.bogus = 1`)
has this side effect, because registration happens before the parameter check.

C11: "A binding is accepted only if it names ... a parameter ... inside its
allowlist / outside its denylist ... for every way of making a binding".
"""
import gin


@gin.register(denylist=['secret'])
class Guarded:

  def __init__(self, a=0, secret='default'):
    self.a = a
    self.secret = secret

  def helper(self, x=0):  # A plain (not yet registered) method.
    return x


@gin.register(allowlist=['a'])
class Narrow:

  def __init__(self, a=0, other='default'):
    self.a = a
    self.other = other

  def helper(self, x=0):
    return x


@gin.configurable
def build(obj=None):
  return obj


HEADER = """
from __gin__ import dynamic_registration
import __main__ as m
"""


def rejected(text):
  before = gin.config_str()
  try:
    gin.parse_config(HEADER + text)
  except (ValueError, KeyError):
    assert gin.config_str() == before, 'rejected binding changed the config'
    return True
  return False


gin.clear_config()
# Sanity: the lists are honoured to begin with, also under dynamic registration.
assert rejected('m.Guarded.secret = "x"\n')
assert rejected('m.Narrow.other = "x"\n')

# Configure a method of each class (perfectly legal under dynamic registration).
gin.parse_config(HEADER + 'm.Guarded.helper.x = 1\nm.Narrow.helper.x = 1\n')

ok_deny = rejected('m.Guarded.secret = "INJECTED"\n')
ok_allow = rejected('m.Narrow.other = "INJECTED"\n')
if not (ok_deny and ok_allow):
  gin.parse_config(HEADER + 'm.build.obj = @m.Guarded()\n')
  injected = build().secret
  raise AssertionError(
      'C11 violated: after a method of the class was configured through '
      'dynamic registration, the denylisted parameter Guarded.secret was '
      'accepted: %r, the not-allowlisted parameter Narrow.other was accepted: '
      '%r; Guarded().secret is now %r.\n%s' %
      (not ok_deny, not ok_allow, injected, gin.config_str()))
print('PASS')
