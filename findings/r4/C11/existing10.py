"""EXISTING DEFECT (unchanged tree; weaker): keys that name no parameter at all
(or a non-identifier) are accepted for any configurable taking **kwargs.

`config_parser.parse_binding_key('kw')` yields selector 'kw' and the EMPTY
parameter name; `_might_have_parameter` returns True for every name as soon as
the function has a `**kwargs` parameter, without checking that the name is a
parameter name at all.  So `bind_parameter('kw', 1)` -- which reads like a
macro definition -- silently binds a parameter called '' (and a tuple key binds
e.g. 'not an identifier!'), which `config_str()` then prints as a line that
`parse_config` cannot read back.
"""
import gin


@gin.configurable
def kw(**kwargs):
  return kwargs


def accepted(fn):
  try:
    fn()
  except (ValueError, KeyError, SyntaxError):
    return False
  return True


gin.clear_config()
problems = []
if accepted(lambda: gin.bind_parameter('kw', 1)):
  problems.append("bind_parameter('kw', 1) bound the empty parameter name: "
                  'kw() == %r' % (kw(),))
gin.clear_config()
if accepted(lambda: gin.bind_parameter(('', 'kw', 'not an identifier!'), 1)):
  problems.append("parameter name 'not an identifier!' accepted")
text = gin.config_str()
gin.clear_config()
if problems and not accepted(lambda: gin.parse_config(text)):
  problems.append('config_str() output no longer parses: %r' % text)
assert not problems, 'C11 violated: ' + '; '.join(problems)
print('PASS')
