"""EXISTING DEFECT (unchanged tree): a class that defines no constructor accepts
a binding for ANY parameter name.

For such a class `_find_class_construction_fn` (gin/config.py) returns
`object.__init__`, whose introspected signature is `(self, /, *args, **kwargs)`;
`_might_have_parameter` sees `varkw` and returns True for every name.  But the
class cannot accept any argument at all (`object.__init__()` / `Cls()` "takes no
arguments"), so the accepted binding is for a parameter the configurable cannot
take and every later construction fails with a TypeError.
"""
import gin


@gin.configurable
class Marker:
  pass


@gin.register
class PlainRegistered:
  pass


@gin.configurable
def build(obj=None):
  return obj


def accepted(fn):
  try:
    fn()
  except (ValueError, KeyError):
    return False
  return True


gin.clear_config()
Marker()  # Fine without bindings.
problems = []
if accepted(lambda: gin.bind_parameter('Marker.no_such_parameter', 1)):
  try:
    Marker()
    outcome = 'constructed'
  except TypeError as e:
    outcome = 'TypeError: ' + str(e).splitlines()[0]
  problems.append('Marker.no_such_parameter accepted; Marker() -> ' + outcome)
if accepted(lambda: gin.parse_config(
    'PlainRegistered.whatever = 1\nbuild.obj = @PlainRegistered()')):
  try:
    build()
    outcome = 'constructed'
  except TypeError as e:
    outcome = 'TypeError: ' + str(e).splitlines()[0]
  problems.append('PlainRegistered.whatever accepted; construction -> ' +
                  outcome)
assert not problems, 'C11 violated: ' + '; '.join(problems)
print('PASS')
