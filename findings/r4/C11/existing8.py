"""EXISTING DEFECT (unchanged tree; weaker -- needs a hand-built key): a
`gin.config.ParsedBindingKey` instance is a documented form of binding key
("... or another instance of `ParsedBindingKey`"), but `ParsedBindingKey.parse`
returns such an instance without any validation
(`if isinstance(binding_key, ParsedBindingKey): return cls(*binding_key)` in
gin/config.py).  `ParsedBindingKey` is a public NamedTuple whose constructor
validates nothing, so `bind_parameter` / `query_parameter` accept keys for
denylisted or non-existent parameters and even for configurables that do not
exist; the former are injected, the latter make `config_str()` raise.
"""
import gin
from gin import config


@gin.configurable(denylist=['secret'])
def guarded(x=0, secret='default'):
  return x, secret


def accepted(fn):
  try:
    fn()
  except (ValueError, KeyError):
    return False
  return True


gin.clear_config()
problems = []
key = config.ParsedBindingKey('', 'guarded', '__main__.guarded', 'secret')
if accepted(lambda: gin.bind_parameter(key, 'INJECTED')):
  problems.append('denylisted guarded.secret accepted; guarded() == %r' %
                  (guarded(),))
gin.clear_config()
key = config.ParsedBindingKey('', 'nothing', 'no.such.configurable', 'p')
if accepted(lambda: gin.bind_parameter(key, 1)):
  problems.append('binding for unregistered configurable no.such.configurable '
                  'accepted')
gin.clear_config()
assert not problems, 'C11 violated: ' + '; '.join(problems)
print('PASS')
