"""EXISTING DEFECT (unchanged tree): a method registered on a registered class
can be addressed WITHOUT its class name (and cannot be addressed through it)
unless the class happened to be registered with `gin.register` /
`gin.external_configurable` AFTER the method.

The rename of a registered method to `<class selector>.<method>` and the
`is_method` flag that `ParsedBindingKey.parse` checks ("Method ... referenced
without class name") are only produced by `_find_registered_methods`, which is
only called from the `avoid_class_mutation` branch of `_decorate_fn_or_cls`
(gin/config.py).  Hence
  (a) for a class made configurable with `@gin.configurable`, and
  (b) for a method registered after its class was registered,
the method stays registered as `<module>.<method>`, `is_method` stays False and
`method.arg` is accepted through every binding path.

C11: "A method registered on a registered class is addressable only through
its class name."
"""
import gin


@gin.configurable
class Trainer:

  def __init__(self, steps=1):
    self.steps = steps

  @gin.register
  def evaluate(self, batches=1):
    return batches


@gin.register
class Sampler:

  def __init__(self, seed=0):
    self.seed = seed

  def sample(self, temperature=0.0):
    return temperature


gin.register(Sampler.sample)  # Method registered after its class.


def accepted(fn):
  try:
    fn()
  except (ValueError, KeyError):
    return False
  return True


gin.clear_config()
problems = []
if accepted(lambda: gin.bind_parameter('evaluate.batches', 5)):
  problems.append("'evaluate.batches' accepted without class name 'Trainer' "
                  '(class registered with @gin.configurable)')
if accepted(lambda: gin.parse_config('scope/evaluate.batches = 5')):
  problems.append("'scope/evaluate.batches' accepted from config text")
if not accepted(lambda: gin.bind_parameter('Trainer.evaluate.batches', 5)):
  problems.append("'Trainer.evaluate.batches' (the class-qualified name) is "
                  'rejected')
if accepted(lambda: gin.bind_parameter('sample.temperature', 1.0)):
  problems.append("'sample.temperature' accepted without class name 'Sampler' "
                  '(method registered after its class)')
assert not problems, 'C11 violated: ' + '; '.join(problems)
print('PASS')
