"""EXISTING DEFECT (unchanged tree): after a configurable is re-defined (legal in
interactive mode) a binding made for the old definition keeps being injected
into the new one, even if the parameter is now denylisted or no longer exists.

`_make_configurable` (gin/config.py) simply overwrites `_REGISTRY[selector]`;
bindings already stored in `_CONFIG` under that selector are neither re-checked
nor dropped, and `gin_wrapper` injects everything `_get_bindings` returns
without consulting the allowlist / denylist.  `bind_parameter` correctly
rejects the parameter for the new definition, yet the parameter is injected.

C11: "... so a non-configurable parameter is never injected."
"""
import gin


@gin.configurable
def train(lr=0.1, seed=0):
  return ('v1', lr, seed)


gin.clear_config()
gin.bind_parameter('train.seed', 42)
assert train() == ('v1', 0.1, 42)

with gin.config.interactive_mode():

  @gin.configurable(denylist=['seed'])
  def train(lr=0.1, seed=0):  # pylint: disable=function-redefined
    return ('v2', lr, seed)

# The new definition does not allow `seed` to be bound ...
try:
  gin.bind_parameter('train.seed', 43)
except ValueError:
  pass
else:
  raise AssertionError('denylisted parameter accepted by bind_parameter')

# ... so Gin must not inject it either.
result = train()
assert result == ('v2', 0.1, 0), (
    "C11 violated: 'seed' is denylisted for the current definition of `train` "
    'but the stale binding is still injected: train() == %r; config:\n%s' %
    (result, gin.config_str()))
print('PASS')
