# Pre-existing defect 1 (property C02, "near-miss text is rejected and never
# yields some other value").
#
# A minus sign in front of a configurable reference or a macro is silently
# DROPPED: `-@fn()`, `-@fn`, `-%MACRO`, `[-@fn()]`, `{'k': - %MACRO}` are not
# Python literals and not valid Gin values either (they read as arithmetic on a
# reference), yet they are accepted and stored as the un-negated reference/macro.
#
# Cause: gin/config_parser.py, ConfigParser._maybe_parse_basic_type (lines
# ~518-527): the leading '-' is consumed with self._advance() BEFORE checking
# that a NAME/NUMBER/STRING token follows; when it does not, the method returns
# (False, None) without raising or un-reading the '-', and parse_value() then
# falls through to _maybe_parse_configurable_reference / _maybe_parse_macro,
# which start at the token after the sign.
import tokenize

import gin


@gin.configurable
def seven():
  return 7


@gin.configurable
def holder(x=None):
  return x


NEAR_MISSES = ['-@seven()', '- @seven', '-%SOME_MACRO', '[1, -@seven()]',
               "{'k': -%SOME_MACRO}", '(-\n @seven())']
accepted = []
for text in NEAR_MISSES:
  gin.clear_config()
  try:
    gin.parse_config('SOME_MACRO = 3\nholder.x = ' + text + '\n')
  except (SyntaxError, tokenize.TokenError):
    continue
  accepted.append((text, gin.query_parameter('holder.x'), holder()))
gin.clear_config()
try:
  v = gin.config.parse_value('-@seven()')
  accepted.append(('parse_value(-@seven())', v, None))
except (SyntaxError, tokenize.TokenError):
  pass

assert not accepted, (
    'C02 violated: text that is not a literal (a minus sign applied to a '
    'reference/macro) was accepted with the sign silently dropped: %r'
    % (accepted,))
print('PASS')
