# Pre-existing defect 3 (property C02, weaker: "text that is not such a literal
# is rejected with a syntax (or tokenizer) error").
#
# A dict display whose key is unhashable -- `{[1]: 2}`, `{{}: 1}`,
# `{(1, [2]): 3}` -- is not something Python evaluates to a value (Python raises
# TypeError), so the text has to be rejected; Gin does reject it, but with a bare
# TypeError("unhashable type: 'list'") that escapes from the parser with no file
# / line information instead of the SyntaxError every other malformed value
# produces (callers that catch SyntaxError/TokenError around parse_config do not
# see it).
#
# Cause: gin/config_parser.py, ConfigParser._maybe_parse_container (line ~512):
# `return True, type_fn(values)` calls dict([...]) on the parsed (key, value)
# pairs outside any try / _raise_syntax_error.
import tokenize

import gin


@gin.configurable
def holder(x=None):
  return x


wrong = []
for text in ['{[1]: 2}', '{{}: 1}', '{(1, [2]): 3}', "[{'a': {[]: None}}]"]:
  gin.clear_config()
  try:
    gin.parse_config('holder.x = ' + text + '\n')
    wrong.append((text, 'accepted', gin.query_parameter('holder.x')))
  except (SyntaxError, tokenize.TokenError):
    pass
  except Exception as e:  # pylint: disable=broad-except
    wrong.append((text, type(e).__name__, str(e)))
gin.clear_config()
assert not wrong, (
    'C02 violated (error kind): malformed dict literals were not rejected with '
    'a syntax/tokenizer error: %r' % (wrong,))
print('PASS')
