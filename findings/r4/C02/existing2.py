# Pre-existing defect 2 (property C02, "trailing junk / arithmetic is rejected
# and never yields some other value").
#
# The public single-value entry point gin.config.parse_value() stops after the
# first complete value and never checks that the rest of the string is empty, so
# arithmetic, method calls, subscripts, conditional expressions, bare tuples and
# any other trailing junk are accepted and evaluate to the FIRST operand:
#   parse_value('1 + 2') == 1, parse_value('[1] * 3') == [1],
#   parse_value("'a'.upper()") == 'a', parse_value('1 if False else 2') == 1 ...
# (parse_config rejects all of these with "Expected newline.")
#
# Cause: gin/config.py, parse_value() (line ~2649) returns
# ConfigParser(value, ParserDelegate()).parse_value() directly;
# ConfigParser.parse_value (gin/config_parser.py ~275) has no end-of-input check
# (that check lives only in parse_statement / _parse_binding_block).
import tokenize

import gin

JUNK = ['1 + 2', '1 2', '[1] * 3', '[1, 2][0]', "'a'.upper()", "'a' * 3",
        '1 if False else 2', '1, 2', 'True or False', 'None is None',
        '(1)(2)', '{} junk', '1\n2', "'a' 1", '-1 - 1', '1 = 2', '[1]]']
accepted = []
for text in JUNK:
  try:
    value = gin.config.parse_value(text)
  except (SyntaxError, tokenize.TokenError):
    continue
  accepted.append((text, value))

# Sanity: genuine literals still parse.
assert gin.config.parse_value('[1, (2,), {3: None}]') == [1, (2,), {3: None}]

assert not accepted, (
    'C02 violated: gin.config.parse_value accepted non-literal text and '
    'returned the first operand instead of raising a syntax error: %r'
    % (accepted,))
print('PASS')
