"""Pre-existing violation bordering on C04: for a `@gin.configurable` class whose
`__new__(cls, *args, **kwargs)` is defined below the `__init__` naming the
parameters, a bound '@dep()' is evaluated on every construction but its result
is never delivered to the consumer's `__init__`.

`_decorate_fn_or_cls` (gin/config.py ~l.654, class-mutation branch) wraps only
`_find_class_construction_fn(cls)` == `Sub.__new__`; Gin's keyword arguments are
injected into `__new__` (which swallows them), while `type.__call__` then calls
`__init__` with the caller's original (empty) arguments.  The same class
registered through `gin.register` / `external_configurable` receives the value.
"""
import gin

CALLS = []


@gin.configurable
def dep():
  CALLS.append('dep')
  return 'from-gin'


class Base:

  def __init__(self, a=None):
    self.a = a


@gin.configurable
class Sub(Base):

  def __new__(cls, *args, **kwargs):
    return super().__new__(cls)


gin.parse_config('Sub.a = @dep()')
obj = Sub()
assert CALLS == ['dep'], CALLS
assert obj.a == 'from-gin', (
    "'@dep()' was evaluated (%r) but the consumer received a=%r" % (CALLS, obj.a))
print('PASS')
