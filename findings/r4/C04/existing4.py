"""Pre-existing C04 violation: a bound '@dep()' IS called although the caller
supplies that parameter positionally -- for a class whose `__new__(cls, *args,
**kwargs)` is defined below the `__init__` that names the parameters.

`_find_class_construction_fn` (gin/config.py ~l.435) returns the first
`__init__` *or* `__new__` found along the MRO, here `Sub.__new__(cls, *args,
**kwargs)`.  `_get_supplied_positional_parameter_names` (~l.1195) therefore sees
no named positional parameter, the binding `Sub.a` is not dropped from
`new_kwargs`, the reference is evaluated (dep() is called), and the call then
fails with "got multiple values for argument 'a'".  (`bind_parameter` accepted
`Sub.a` because of `**kwargs`.)  The keyword form `Sub(a=1)` works.

(Registered with `external_configurable`/`register`, i.e. through the metaclass
`__call__` wrapper.  With `@gin.configurable` the same class is broken in a
different way: only `__new__` is wrapped, so Gin's values never reach
`__init__` at all.)
"""
import gin

CALLS = []


@gin.configurable
def dep():
  CALLS.append('dep')
  return 'from-gin'


class Base:

  def __init__(self, a=None):
    self.a = a


class _Sub(Base):

  def __new__(cls, *args, **kwargs):   # e.g. instance counting / caching hook
    return super().__new__(cls)


Sub = gin.external_configurable(_Sub, name='Sub')

gin.parse_config('Sub.a = @dep()')

assert Sub().a == 'from-gin' and CALLS == ['dep']
del CALLS[:]
assert Sub(a=1).a == 1 and CALLS == [], CALLS     # keyword override: fine

try:
  obj = Sub(1)                                     # positional override
except TypeError as e:
  raise AssertionError(
      'Sub(1): the caller supplied `a` positionally, yet Gin evaluated the '
      'binding (dep called %d time(s)) and the call failed: %s' %
      (len(CALLS), str(e).splitlines()[0]))
assert obj.a == 1 and CALLS == [], (obj.a, CALLS)
print('PASS')
