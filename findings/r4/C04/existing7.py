"""Pre-existing C04 violation (Python-API route): the same `ConfigurableReference`
*object* occurring several times in a consumer's bindings is evaluated only once
per consumer call, and all occurrences receive the same result object.

The Gin wrapper evaluates references with one `copy.deepcopy(new_kwargs)`
(gin/config.py ~l.1607); `copy.deepcopy` memoises by `id()`, so
`ConfigurableReference.__deepcopy__` (~l.792, "memo: unused") runs once per
distinct reference object.  The parser creates one object per textual
occurrence, so configs written as text are fine; but values composed in Python
(`gin.bind_parameter`) from a reference obtained via `gin.query_parameter`, or
from one `gin.config.ConfigurableReference(...)`, alias it.
"""
import gin

CALLS = []


@gin.configurable
def make():
  CALLS.append('make')
  return []


@gin.configurable
def consumer(template=None, layers=None, extra=None):
  return template, layers, extra


gin.parse_config('consumer.template = @make()')
ref = gin.query_parameter('consumer.template')       # the '@make()' reference
gin.bind_parameter('consumer.layers', {'enc': [ref, ref], 'dec': (ref,)})

template, layers, _ = consumer()
assert gin.config_str().count('@make()') == 4, gin.config_str()
assert len(CALLS) == 4, (
    "the config binds '@make()' four times, but one consumer call called make "
    '%d time(s)' % len(CALLS))
layers['enc'][0].append('touched')
assert layers['enc'][1] == [] and layers['dec'][0] == [] and template == [], (
    'all occurrences received the same object: %r %r' % (layers, template))
print('PASS')
