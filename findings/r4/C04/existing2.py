"""Pre-existing C04 violation: a reference used as a *dict key* keeps pointing at a
stale registration after its class is re-registered (dynamic registration).

Under `from __gin__ import dynamic_registration`, the first `@mod.K.meth`
reference registers the method and re-registers its class `K`;
`ParseContext._register` (gin/config.py ~l.324-329) then re-initialises the
references to `K` already present in the config, found with
`iterate_references(_CONFIG, ...)`.  `_iterate_flattened_values` (~l.2763)
replaces every mapping by its *values* view, so references sitting in dict keys
are never visited.  Result: the same reference `@mod.K()` delivers an instance
whose configured method `meth` gets its Gin bindings when it is a dict value /
list item, but NOT when it is a dict key -- what is delivered depends on where
in the container nesting the reference sits.  In addition the binding silently
vanishes from `gin.config_str()`, because the stale reference no longer
compares equal to its own re-parsed text (`_is_literally_representable`).
"""
import sys
import types

import gin

mod = types.ModuleType('c04_dynmod_a')
exec('''
class K:
  def __init__(self, a=0):
    self.a = a
  def meth(self, b=0):
    return b

def consumer(as_key=None, as_value=None, method=None):
  return as_key, as_value, method
''', mod.__dict__)
sys.modules['c04_dynmod_a'] = mod

gin.parse_config("""
  from __gin__ import dynamic_registration
  import c04_dynmod_a as m

  m.consumer.as_key = {@m.K(): 'key'}
  m.consumer.as_value = {'value': @m.K()}
  m.consumer.method = @m.K.meth
  m.K.a = 3
  m.K.meth.b = 7
""")

consumer = gin.get_configurable(mod.consumer)
as_key, as_value, _ = consumer()
from_value = as_value['value']
(from_key,) = list(as_key)
assert (from_value.a, from_value.meth()) == (3, 7), (from_value.a, from_value.meth())
assert (from_key.a, from_key.meth()) == (3, 7), (
    'the instance delivered for @m.K() in dict-key position ignores the binding '
    'm.K.meth.b = 7 (stale registration): a=%r meth()=%r' %
    (from_key.a, from_key.meth()))
assert 'as_key' in gin.config_str(), (
    'config_str() silently dropped the binding m.consumer.as_key:\n' +
    gin.config_str())
print('PASS')
