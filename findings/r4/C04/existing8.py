"""Pre-existing C04 violation (interactive mode): after a configurable is
re-defined, references parsed earlier keep delivering the *old* function, and
the binding silently disappears from `gin.config_str()`.

`ConfigurableReference.initialize` (gin/config.py ~l.726) resolves the selector
once, at parse time, and keeps the `Configurable` record.  Re-registration in
interactive mode (`_make_configurable`, ~l.1729/1776) replaces the registry entry
but -- unlike the dynamic-registration path in `ParseContext._register` -- does
not re-initialise existing references.  So '@foo()' no longer delivers the
result of calling the configurable named `foo`; and since the stale reference
is not equal to its own re-parsed text, `_is_literally_representable` makes
`config_str()` drop the whole binding.
"""
import gin


@gin.configurable
def consumer(x=None):
  return x


@gin.configurable
def foo():
  return 'old foo'


gin.parse_config('consumer.x = [@foo(), @foo]')
assert consumer()[0] == 'old foo'

gin.enter_interactive_mode()


@gin.configurable          # the notebook cell defining foo is run again
def foo():                 # pylint: disable=function-redefined
  return 'new foo'


gin.exit_interactive_mode()

assert gin.get_configurable('foo')() == 'new foo'
x = consumer()
assert x[0] == 'new foo' and x[1]() == 'new foo', (
    "'@foo()' / '@foo' still deliver the replaced function: %r, %r" %
    (x[0], x[1]()))
assert 'consumer.x' in gin.config_str(), (
    'config_str() silently dropped the binding consumer.x:\n' + gin.config_str())
print('PASS')
