"""Pre-existing C04 violation: a bound '@dep()' IS called although the caller
supplies that parameter positionally -- for a configurable callable *object*.

`_get_cached_arg_spec` (gin/config.py ~l.1182; its fallback comment says "`fn`
might be a callable object") uses `inspect.getfullargspec`, which for a callable
instance reports `['self', 'a', 'b']`, while `args` of the Gin wrapper does not
contain the instance.  `_get_supplied_positional_parameter_names` (~l.1195) is
therefore shifted by one: for `obj(1)` it believes `self` was supplied, leaves
`a` in `new_kwargs`, evaluates the reference (dep() called) and the call fails
with "got multiple values for argument 'a'".
"""
import gin

CALLS = []


@gin.configurable
def dep():
  CALLS.append('dep')
  return 'from-gin'


class Scaler:

  def __call__(self, a=None, b=None):
    return a, b


scaler = gin.external_configurable(Scaler(), name='scaler')
gin.parse_config('scaler.a = @dep()')

assert scaler() == ('from-gin', None) and CALLS == ['dep']
del CALLS[:]
assert scaler(a=1) == (1, None) and CALLS == [], CALLS   # keyword: fine

try:
  result = scaler(1)                                     # positional override
except TypeError as e:
  raise AssertionError(
      'scaler(1): the caller supplied `a` positionally, yet Gin evaluated the '
      'binding (dep called %d time(s)) and the call failed: %s' %
      (len(CALLS), str(e).splitlines()[0]))
assert result == (1, None) and CALLS == [], (result, CALLS)
print('PASS')
