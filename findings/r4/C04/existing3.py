"""Pre-existing C04 violation: a reference in the *same binding value* as the
reference that triggers its class's re-registration stays stale.

Under dynamic registration, parsing `[@m.K(), @m.K.meth]` first builds the
reference `@m.K()` (registering `K`), then `@m.K.meth`, which registers the
method and re-registers `K` (`ParseContext._register`, gin/config.py ~l.317-332).
Only references already stored in `_CONFIG` are re-initialised
(`iterate_references(_CONFIG, to=original.wrapper)`, ~l.328); the value being
parsed is not in `_CONFIG` yet, so its `@m.K()` keeps the first registration.
The delivered instance's `meth` therefore ignores `m.K.meth.b`, whereas the very
same reference written in its own (earlier) binding, or written after
`@m.K.meth` in the list, delivers an instance that honours it.  The binding is
also silently omitted from `gin.config_str()` (the stale reference is not equal
to its re-parsed text).
"""
import sys
import types

import gin

mod = types.ModuleType('c04_dynmod_b')
exec('''
class K:
  def __init__(self, a=0):
    self.a = a
  def meth(self, b=0):
    return b

def consumer(items=None, alone=None):
  return items, alone
''', mod.__dict__)
sys.modules['c04_dynmod_b'] = mod

gin.parse_config("""
  from __gin__ import dynamic_registration
  import c04_dynmod_b as m

  m.consumer.alone = @m.K()
  m.consumer.items = [@m.K(), @m.K.meth]
  m.K.a = 3
  m.K.meth.b = 7
""")

consumer = gin.get_configurable(mod.consumer)
items, alone = consumer()
assert (alone.a, alone.meth()) == (3, 7), (alone.a, alone.meth())
assert (items[0].a, items[0].meth()) == (3, 7), (
    'the instance delivered for @m.K() written next to @m.K.meth ignores '
    'm.K.meth.b = 7 (stale registration): a=%r meth()=%r' %
    (items[0].a, items[0].meth()))
assert 'items' in gin.config_str(), (
    'config_str() silently dropped the binding m.consumer.items:\n' +
    gin.config_str())
print('PASS')
