"""Pre-existing C04 violation: a bound '@dep()' IS called although the caller
supplies that parameter positionally -- for a configurable function that is
wrapped by an ordinary `functools.wraps` decorator.

`bind_parameter` validates names through `_might_have_parameter` (gin/config.py
~l.1167), which follows `__wrapped__` and so accepts `g.a`.  The Gin wrapper
however derives the positional names from `inspect.getfullargspec`
(`_get_cached_arg_spec`, ~l.1187), which does NOT follow `__wrapped__`: for the
`(*args, **kwargs)` wrapper no positional name is known, `a` stays in
`new_kwargs`, the reference is evaluated (dep() called) and the call fails with
"got multiple values for argument 'a'".
"""
import functools

import gin

CALLS = []


@gin.configurable
def dep():
  CALLS.append('dep')
  return 'from-gin'


def logged(fn):
  @functools.wraps(fn)
  def wrapper(*args, **kwargs):
    return fn(*args, **kwargs)
  return wrapper


@gin.configurable
@logged
def g(a=None, b=None):
  return a, b


gin.parse_config('g.a = @dep()')

assert g() == ('from-gin', None) and CALLS == ['dep']
del CALLS[:]
assert g(a=1) == (1, None) and CALLS == [], CALLS   # keyword override: fine

try:
  result = g(1)                                     # positional override
except TypeError as e:
  raise AssertionError(
      'g(1): the caller supplied `a` positionally, yet Gin evaluated the '
      'binding (dep called %d time(s)) and the call failed: %s' %
      (len(CALLS), str(e).splitlines()[0]))
assert result == (1, None) and CALLS == [], (result, CALLS)
print('PASS')
