"""Pre-existing C04 violation: what a consumer does to a value delivered through a
constant reference (%CONST) changes what later calls and queries see.

`%NAME` for a `gin.constant` is the reference `@NAME/gin.constant()`.  Its
evaluation (`_retrieve_constant`, gin/config.py ~l.2809) returns the very object
stored in `_CONSTANTS`; `ConfigurableReference.__deepcopy__` (~l.811) hands that
result to the consumer as is (the consumer's `copy.deepcopy(new_kwargs)` does
not descend into the *result* of a reference).  A macro with the same value
(`m = [1, 2]` ... `%m`) is safe only because `macro`'s own Gin wrapper
deep-copies its bound `value` -- `gin.constant` has no such step.
"""
import gin


@gin.configurable
def consumer(values=None, nested=None):
  values.append('touched')          # the consumer mutates what it received
  return values, nested


gin.constant('LIMITS', [1, 2])
gin.parse_config("""
  consumer.values = %LIMITS
  consumer.nested = {'k': (%LIMITS,)}
""")

first, nested1 = consumer()
assert first == [1, 2, 'touched'], first
assert nested1 == {'k': ([1, 2],)}, (
    'another occurrence of the reference in the same call shares the mutated '
    'object: %r' % (nested1,))
second, _ = consumer()
assert second == [1, 2, 'touched'], (
    "a later call sees the earlier consumer's mutation: %r" % (second,))
assert gin.query_parameter('LIMITS') == [1, 2], (
    "a later query sees the consumer's mutation: %r" %
    (gin.query_parameter('LIMITS'),))
print('PASS')
