"""Pre-existing C04 violation: a scoped reference to a *generator function* does
not run the function body under the reference's scope.

`_decorate_with_scope.scoping_wrapper` (gin/config.py ~l.701) is
`with config_scope(scopes): return fn(*args, **kwargs)`.  For a generator
function (likewise a coroutine function) the call only creates the generator;
the body runs when the consumer iterates it, after the `with` block has been
left -- under whatever scope happens to be active then.  So configurables that
the body calls do not see the `train/...` bindings that `@train/batches()`
promises, although the generator's own parameters (resolved at call time) do.
"""
import gin


@gin.configurable
def augment(strength=0):
  return strength


@gin.configurable
def batches(n=1):
  for _ in range(n):
    yield (gin.current_scope_str(), augment())


@gin.configurable
def fit(data=None):
  return list(data)


gin.parse_config("""
  fit.data = @train/batches()
  train/batches.n = 2
  train/augment.strength = 9
""")

seen = fit()
assert len(seen) == 2, seen          # batches' own scoped binding is applied
assert seen == [('train', 9)] * 2, (
    "the body of @train/batches() ran under scope %r and augment() got "
    'strength=%r instead of the train/ binding 9' % (seen[0][0], seen[0][1]))
print('PASS')
