"""C09, pre-existing defect 2 (unchanged library): only plain string scopes,
but deep nesting -- a RecursionError raised while ENTERING the innermost scope
makes every enclosing `config_scope` restore the wrong scope (off by one), and
finally removes the root entry of the thread's scope stack.

Property C09: the previously active scope is restored exactly on every exit
path (including an exception in the body), to any nesting depth.

Cause (gin/config.py, `config_scope`, same root cause as existing1.py): the
`try: ... finally: _SCOPE_MANAGER.exit_scope()` also covers the statements that
run BEFORE `_SCOPE_MANAGER.enter_scope(new_scope)`.  For a string entry these
include the deepest Python call chain of the whole `with` statement:

    config_scope (generator) -> current_scope() -> _ScopeManager.current_scope
                             -> _ScopeManager._maybe_init

so when the interpreter's recursion limit is reached inside nested scopes it is
reached exactly there.  Nothing has been pushed yet, but the `finally` pops:
the innermost *successfully entered* scope disappears, and while the
RecursionError unwinds every level pops its parent's entry instead of its own.
A handler at nesting level j therefore sees the scope of level j-1, and after
complete unwinding the stack is empty: `gin.current_scope()` raises IndexError
from then on (in that thread).
"""
import sys
import threading

import gin


@gin.configurable
def c09_existing2_fn(value='default'):
  return value


gin.parse_config("""
  c09_existing2_fn.value = 'root'
  outer/c09_existing2_fn.value = 'outer'
""")


def nest(n):
  with gin.config_scope('s'):
    nest(n + 1)


def observe():
  try:
    return gin.current_scope(), c09_existing2_fn()
  except IndexError as e:
    return 'IndexError: %s' % e, None


def scenario(limit, results):
  """Runs in a fresh thread (fresh scope stack, shallow Python stack)."""
  sys.setrecursionlimit(limit)
  with gin.config_scope('outer'):
    try:
      nest(0)
    except RecursionError:
      pass
    results['inside outer'] = observe()
  results['after outer'] = observe()


old_limit = sys.getrecursionlimit()
problems = []
try:
  # Several limits, so that the outcome does not depend on how the recursion
  # limit happens to align with the frames of one nesting level.
  for limit in (200, 201, 202, 203, 350):
    results = {}
    t = threading.Thread(target=scenario, args=(limit, results))
    t.start()
    t.join()
    if results.get('inside outer') != (['outer'], 'outer'):
      problems.append(
          'limit %d: after RecursionError in nested scopes, inside "outer": '
          '(scope, binding)=%r, expected (["outer"], "outer")' %
          (limit, results.get('inside outer')))
    if results.get('after outer') != ([], 'root'):
      problems.append(
          'limit %d: after leaving "outer": (scope, binding)=%r, expected '
          '([], "root")' % (limit, results.get('after outer')))
finally:
  sys.setrecursionlimit(old_limit)

assert not problems, 'C09 violated on the unchanged library:\n  ' + '\n  '.join(
    problems)
print('PASS')
