"""C09, pre-existing defect 1 (unchanged library): an invalid `name_or_scope`
whose inspection raises pops the ENCLOSING scope.

Property C09: on leaving the block by any path, including an invalid scope
name, the previously active scope is restored exactly.

Cause (gin/config.py, `config_scope`): the `try:` opens at the very top of the
generator, but `_SCOPE_MANAGER.enter_scope(new_scope)` only happens after the
value has been classified:

    try:
      valid_value = True
      if isinstance(name_or_scope, list): ...
      elif name_or_scope and isinstance(name_or_scope, str): ...   # bool() may raise
      else:
        valid_value = name_or_scope in (None, '')                  # == may raise
        new_scope = []
      _SCOPE_MANAGER.enter_scope(new_scope)
      ...
    finally:
      _SCOPE_MANAGER.exit_scope()       # pops even though nothing was pushed

Any exception raised before `enter_scope` (truth value of a numpy array with
more than one element -- a natural mistake when scope names come from an
array instead of a list --, or any object whose `__bool__`/`__eq__` raises)
reaches the `finally`, which pops the scope of the enclosing block.  At depth
0 it pops the root entry, after which `gin.current_scope()` (and hence every
configurable call in that thread) raises IndexError for ever.
"""
import gin


@gin.configurable
def c09_existing1_fn(value='default'):
  return value


gin.parse_config("""
  c09_existing1_fn.value = 'root'
  outer/c09_existing1_fn.value = 'outer'
""")


class NoTruthValue:
  """An (invalid) scope value whose truth value is undefined."""

  def __bool__(self):
    raise TypeError('truth value of NoTruthValue is undefined')


class NoEquality:
  """A falsy (invalid) scope value that refuses to be compared."""

  def __bool__(self):
    return False

  def __eq__(self, other):
    raise TypeError('NoEquality cannot be compared')

  __hash__ = None


bad_values = [NoTruthValue(), NoEquality()]
try:
  import numpy as np  # Optional: the realistic trigger.
  bad_values.append(np.array(['train', 'eval']))
except ImportError:
  pass

problems = []
for bad in bad_values:
  label = type(bad).__name__
  with gin.config_scope('outer'):
    try:
      with gin.config_scope(bad):
        raise AssertionError('%s accepted as a scope' % label)
    except AssertionError:
      raise
    except Exception:  # pylint: disable=broad-except
      pass  # Some error is expected for an invalid scope value.
    try:
      scope, value = gin.current_scope(), c09_existing1_fn()
    except IndexError as e:
      scope, value = 'IndexError: %s' % e, None
    if (scope, value) != (['outer'], 'outer'):
      problems.append('after failed entry with %s inside "outer": scope=%r, '
                      'binding=%r (expected ["outer"], "outer")' %
                      (label, scope, value))
  try:
    scope = gin.current_scope()
  except IndexError as e:
    scope = 'IndexError: %s' % e
  if scope != []:
    problems.append('after leaving "outer" (%s case): scope=%r, expected []' %
                    (label, scope))
  # Bring this thread's scope stack back to a usable state through the public
  # API only, so that the cases stay independent: a fresh thread would be
  # cleaner, so run nothing else here if it is broken.
  if problems:
    break

assert not problems, 'C09 violated on the unchanged library:\n  ' + '\n  '.join(
    problems)
print('PASS')
