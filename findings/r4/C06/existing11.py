"""C06 / existing defect 11: a value nested more than 200 brackets deep makes
config_str() raise tokenize.TokenError instead of being omitted.

Such a value has no form the Gin parser can read (the tokenizer refuses more
than 200 nested parentheses), so C06 wants it omitted.  gin/config.py
`_format_value` re-parses repr(value) but only catches SyntaxError; the
tokenizer's `tokenize.TokenError('too many nested parentheses')` (not a
SyntaxError subclass) escapes through config_str().  Depth 200 is still fine.
"""
import gin


@gin.configurable
def holder(p=None, q=None):
  return p


def nested(depth):
  v = 1
  for _ in range(depth):
    v = [v]
  return v


for depth in (10, 200, 201):
  gin.clear_config()
  gin.bind_parameter('holder.q', 1)
  gin.bind_parameter('holder.p', nested(depth))
  try:
    text = gin.config_str()
  except Exception as e:  # pylint: disable=broad-except
    raise AssertionError(
        'depth %d: config_str() raised %s: %s' % (depth, type(e).__name__, e))
  gin.clear_config()
  gin.parse_config(text)
  assert gin.query_parameter('holder.q') == 1
  assert gin.config_str() == text
print('PASS')
