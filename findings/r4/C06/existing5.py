"""C06 / existing defect 5: a registered method that received bindings before
its class was registered makes config_str() raise KeyError.

`@gin.register` on a method registers it as a plain function
('__main__.step'); bindings on it are accepted.  Registering the class
afterwards (gin.register(cls) / external_configurable / dynamic registration)
runs gin/config.py `_find_registered_methods`, which renames the method to
'<class selector>.step' and does `_REGISTRY.pop(old_selector)` -- but the
entries of _CONFIG keyed by the old selector stay behind.  `_config_str` then
does `_REGISTRY[selector]` for every key of the config -> KeyError (and the
binding is silently dead for calls as well).
"""
import gin


class Trainer:

  def __init__(self, lr=0.1):
    self.lr = lr

  @gin.register
  def step(self, size=1):
    return size


gin.clear_config()
gin.bind_parameter('step.size', 4)          # method known, class not yet
text_before = gin.config_str()
assert 'step.size = 4' in text_before

RegisteredTrainer = gin.register(Trainer)    # class registered afterwards

try:
  text = gin.config_str()
except KeyError as e:
  raise AssertionError(
      'config_str() raised KeyError(%s) after the class was registered' % e)
gin.clear_config()
gin.parse_config(text)
assert gin.config_str() == text
assert gin.query_parameter('Trainer.step.size') == 4
print('PASS')
