"""C06 / existing defect 10: values that are instances of *subclasses* of the
literal types are emitted as plain literals, so the round trip changes their
type ("an equal value of the same type" fails); nothing is omitted.

Cause: gin/config.py `_format_value` accepts `repr(value)` whenever
`parse_value(repr(value)) == value`; str/int/list/dict subclasses and
collections.UserDict/UserList inherit the plain repr and compare equal to the
plain value, so the type is never checked.
"""
import collections

import gin


class Path(str):
  """A str subclass (plain repr)."""


class Layers(list):
  pass


@gin.configurable
def holder(p=None, q=None, r=None):
  return p, q, r


gin.clear_config()
values = {
    'p': Path('/tmp/x'),
    'q': Layers([1, 2]),
    'r': collections.UserDict(a=1),
}
for k, v in values.items():
  gin.bind_parameter('holder.' + k, v)
text = gin.config_str()
gin.clear_config()
gin.parse_config(text)
for k, v in values.items():
  try:
    got = gin.query_parameter('holder.' + k)
  except ValueError:
    continue  # Omitted: acceptable ("values without literal form are omitted").
  assert type(got) is type(v), (
      'holder.%s: bound a %s, config_str()/parse_config gave back a %s\n%s'
      % (k, type(v).__name__, type(got).__name__, text))
print('PASS')
