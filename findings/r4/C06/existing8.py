"""C06 / existing defect 8 (dynamic registration): when the same module was
imported under different aliases by different parsed files, the alias used in
config_str() (import line AND every selector) is chosen by set iteration order,
i.e. it varies with PYTHONHASHSEED from run to run.

Cause: gin/config.py keeps `_IMPORTS` as a `set` of ImportStatement tuples;
`ImportManager.__init__` sorts them by (module, not is_from) only and keeps the
first statement per module (`add_import` returns early for a known module), so
among statements for one module the winner is whichever the set yields first.
The text is therefore not a function of the configuration.
"""
import os
import subprocess
import sys
import tempfile

CHILD = r'''
import sys
sys.path.insert(0, sys.argv[1])
import gin
D = "from __gin__ import dynamic_registration\n"
gin.parse_config(D + "import c06_e8_mod as aa\naa.f.a = 1\n")
gin.parse_config(D + "import c06_e8_mod as bb\nbb.f.b = 2\n")
gin.parse_config(D + "import c06_e8_mod as cc\ncc.g.a = 3\n")
gin.parse_config(D + "import c06_e8_mod as dd\ndd.g.b = 4\n")
sys.stdout.write(gin.config_str())
'''

tmp = tempfile.mkdtemp()
with open(os.path.join(tmp, 'c06_e8_mod.py'), 'w') as f:
  f.write('def f(a=None, b=None):\n  return a, b\n\n'
          'def g(a=None, b=None):\n  return a, b\n')

outs = set()
for seed in range(1, 13):
  env = dict(os.environ, PYTHONHASHSEED=str(seed))
  outs.add(subprocess.run(
      [sys.executable, '-c', CHILD, tmp], check=True, env=env,
      stdout=subprocess.PIPE, universal_newlines=True).stdout)
assert len(outs) == 1, (
    'identical program, %d different config strings, e.g.:\n%s'
    % (len(outs), '\n-- vs --\n'.join(sorted(outs)[:2])))
print('PASS')
