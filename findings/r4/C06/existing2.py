"""C06 / existing defect 2: an unscoped binding of the macro configurable
(`macro.value = 3` / `gin.macro.value = 3`, accepted by parse_config and
bind_parameter and honoured by `@macro()`) is emitted as the line ` = 3`, which
does not parse.

Cause: gin/config.py `_config_str`, macros section: the macro *name* is taken
to be the scope of the ('scope', 'gin.macro') key
(`for (name, _), config in sorted(macros.items() ...)`,
`format_binding(name, config['value'], ...)`); for the empty scope the name is
'' and the statement has no left-hand side.
"""
import gin


@gin.configurable
def holder(p=None, q=None):
  return p, q


gin.clear_config()
gin.parse_config("""
macro.value = 3
holder.p = @macro()
holder.q = 1
""")
assert holder() == (3, 1)  # The binding is live and meaningful.
text = gin.config_str()
gin.clear_config()
try:
  gin.parse_config(text)
except SyntaxError as e:
  raise AssertionError(
      'config_str() output does not parse (%r):\n%s' % (e, text))
assert gin.config_str() == text
print('PASS')
