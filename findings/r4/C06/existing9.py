"""C06 / existing defect 9: config_str() is not a fixed point when some
(scope, configurable) has only bindings without a literal form.

The non-literal value is (correctly) omitted, but gin/config.py `_config_str`
still emits the group header followed by `# None.`:

    # Parameters for holder:
    # ====...
    # None.

Parsing that text creates no entry for `holder`, so serialising again yields a
different (shorter) text -- "serialising again yields the identical text" fails
although every literally representable binding was restored.
"""
import gin


@gin.configurable
def holder(p=None):
  return p


@gin.configurable
def other(x=0):
  return x


gin.clear_config()
gin.bind_parameter('other.x', 1)
gin.bind_parameter('holder.p', object())   # no literal form -> omitted
text = gin.config_str()
gin.clear_config()
gin.parse_config(text)                     # parses fine
assert gin.query_parameter('other.x') == 1
again = gin.config_str()
assert again == text, (
    'second serialisation differs:\n%s\n-- vs --\n%s' % (text, again))
print('PASS')
