"""C06 / existing defect 4: config_str() raises (instead of returning parseable
text) once a reference's *spelling* has become ambiguous through a later
registration.

`holder.p = @foo` is parsed while only `pkg_a.foo` exists.  Later another
module registers `pkg_b.foo` (modules are routinely imported after the config
was parsed).  The binding still works (the reference holds its Configurable),
but gin/config.py `ConfigurableReference.__repr__` prints the selector *as it
was given* (`self.selector`, not a minimal unambiguous selector as is done for
binding keys), so `_format_value` re-parses '@foo', `SelectorMap.get_match`
raises KeyError("Ambiguous selector 'foo' ...") and -- `_format_value` only
catches SyntaxError -- config_str() itself dies.
"""
import gin


@gin.configurable(module='pkg_a')
def foo(x=1):
  return ('a', x)


@gin.configurable
def holder(p=None, q=0):
  return p


gin.clear_config()
gin.parse_config("""
holder.p = @foo
holder.q = 2
""")


@gin.configurable('foo', module='pkg_b')
def foo_b(x=1):
  return ('b', x)


assert holder()() == ('a', 1)  # The configuration itself is fine.
try:
  text = gin.config_str()
except Exception as e:  # pylint: disable=broad-except
  raise AssertionError('config_str() raised %r' % (e,))
gin.clear_config()
gin.parse_config(text)
assert holder()() == ('a', 1)
assert gin.config_str() == text
print('PASS')
