"""C06 / existing defect 3: scope names containing periods.

`gin.config_scope('exp.v1')` is explicitly valid (scopes are validated against
MODULE_RE), and the parser accepts such scopes in references and macros
(`@exp.v1/fn()`, `%exp.v1` -- `_parse_selector(allow_periods_in_scope=True)`).
Bindings for such a scope can be made with bind_parameter, and they work.  But
config_str() writes them as *statements* `exp.v1/fn.x = 1`, and statement keys
are parsed with allow_periods_in_scope=False
(gin/config_parser.py `parse_statement` -> `_parse_selector()`), so the emitted
text raises "Malformatted scope or selector".  For a macro named `exp.v1` the
emitted line `exp.v1 = 7` is even mis-read as parameter `v1` of configurable
`exp`.  Cause on the emitting side: gin/config.py `_config_str` never checks
that the key it prints is a parseable binding key.
"""
import gin


@gin.configurable
def fn(x=0, y=0):
  return x, y


gin.clear_config()
gin.bind_parameter('fn.y', 5)
gin.bind_parameter('exp.v1/fn.x', 1)
with gin.config_scope('exp.v1'):
  assert fn() == (1, 5)  # A perfectly functional scoped binding.
ref = gin.config.parse_value('@exp.v1/fn()')  # ... that files can refer to.
assert ref.scopes == ['exp.v1']

text = gin.config_str()
gin.clear_config()
try:
  gin.parse_config(text)
except Exception as e:  # pylint: disable=broad-except
  raise AssertionError(
      'config_str() output does not parse (%r):\n%s' % (e, text))
assert gin.query_parameter('exp.v1/fn.x') == 1
assert gin.config_str() == text

# Same for a macro whose name has a period (referable as %exp.v1).
gin.clear_config()
gin.bind_parameter('exp.v1/gin.macro.value', 7)
gin.bind_parameter('fn.x', gin.config.parse_value('%exp.v1'))
assert fn()[0] == 7
text = gin.config_str()
gin.clear_config()
try:
  gin.parse_config(text)
except Exception as e:  # pylint: disable=broad-except
  raise AssertionError(
      'config_str() output does not parse (%r):\n%s' % (e, text))
assert fn()[0] == 7
print('PASS')
