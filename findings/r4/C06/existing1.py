"""C06 / existing defect 1: the text is not canonical (and not a fixed point) for
dict values whose keys are not mutually orderable, e.g. tuple keys of mixed
content such as {(1, 'a'): ..., (1, 2): ...}.

Cause: gin/config.py `_config_str.format_binding` prints values with
`pprint.pformat`, which sorts dict items with pprint._safe_key; when comparing
two keys raises TypeError ((1, 'a') < (1, 2) compares 'a' < 2) it falls back to
ordering by (str(type), id(obj)) -- i.e. by the *memory address* of the key
objects.  Two configurations with exactly the same bindings (equal values of
equal types) therefore serialise differently, and parse(config_str()) need not
re-serialise to the same text.
"""
import gin


@gin.configurable
def table(lookup=None, n=0):
  return lookup, n


def fresh(kind):
  # Build the key at run time so that every call returns a new tuple object.
  return tuple([1, 'a']) if kind == 'str' else tuple([1, 2])


# Collect key objects with both address orders (deterministic: we just pick).
pool = [(fresh('str'), fresh('int')) for _ in range(64)]
lo = next(p for p in pool if id(p[0]) < id(p[1]))
hi = next((p for p in pool if id(p[0]) > id(p[1])), None)
if hi is None:  # Allocate in the opposite order.
  pool2 = [(fresh('int'), fresh('str')) for _ in range(64)]
  hi = next((b, a) for a, b in pool2 if id(b) > id(a))

texts = []
for ka, kb in (lo, hi):
  gin.clear_config()
  gin.bind_parameter('table.n', 3)
  gin.bind_parameter('table.lookup', {ka: 'x', kb: 'y'})
  texts.append(gin.config_str())

# Same set of bindings (equal dicts, same key/value types) ...
assert {lo[0]: 'x', lo[1]: 'y'} == {hi[0]: 'x', hi[1]: 'y'}
# ... must give the same text.
assert texts[0] == texts[1], (
    'config_str() depends on the memory addresses of dict keys:\n%s\n-- vs --\n%s'
    % (texts[0], texts[1]))

# Fixed point: parse + serialise again gives the identical text.
for t in texts:
  gin.clear_config()
  gin.parse_config(t)
  assert gin.config_str() == t
print('PASS')
