"""C06 / existing defect 6 (dynamic registration): a decorator-registered
configurable that is not reachable as `module.<__qualname__>` is written with
its raw __qualname__, e.g. `__main__.make_model.<locals>.model.depth = 3`,
which does not parse.

Mixing decorator-registered configurables with a config file that enables
dynamic registration is supported: gin/config.py
`ImportManager.require_configurable` synthesises an import from
`wrapped.__module__` and `ImportManager.minimal_selector` spells the
configurable as f'{module_selector}.{wrapped.__qualname__}'.  For functions or
classes defined inside another function (factories, test methods, notebooks
cells wrapped in functions) the qualname contains '<locals>', and nothing
checks that the resulting selector is parseable / resolvable.
"""
import os
import sys
import tempfile

import gin

tmp = tempfile.mkdtemp()
with open(os.path.join(tmp, 'c06_e6_mod.py'), 'w') as f:
  f.write('def fn(a=None):\n  return a\n')
sys.path.insert(0, tmp)


def make_model():
  @gin.configurable
  def model(depth=1):
    return depth
  return model


model = make_model()

gin.clear_config()
gin.bind_parameter('model.depth', 3)
gin.parse_config("""
from __gin__ import dynamic_registration
import c06_e6_mod
c06_e6_mod.fn.a = 5
""")
assert model() == 3
text = gin.config_str()
gin.clear_config()
try:
  gin.parse_config(text)
except Exception as e:  # pylint: disable=broad-except
  raise AssertionError(
      'config_str() output does not parse (%r):\n%s' % (e, text))
assert model() == 3
assert gin.config_str() == text
print('PASS')
