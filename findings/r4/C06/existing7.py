"""C06 / existing defect 7 (dynamic registration): the text depends on the
ORDER in which bindings were made when one configurable is reachable through
two imports (`from pkg import mod` -> `mod.f`, `import pkg` -> `pkg.mod.f`).

Cause: gin/config.py `ParseContext._register` stores `import_source` (the import
statement and attribute path used by the *first* binding/reference that touched
the configurable) in the registry entry, and `ImportManager.minimal_selector`
spells the configurable through that import for ever after -- also across
clear_config().  So the same set of bindings gives `mod.f.a = 1 / mod.f.b = 2`
or `pkg.mod.f.a = 1 / pkg.mod.f.b = 2` depending on which line came first.
Each order is run in a fresh interpreter (the registry is process-global).
"""
import os
import subprocess
import sys
import tempfile

CHILD = r'''
import sys
sys.path.insert(0, sys.argv[1])
import gin
lines = ["mod.f.a = 1", "c06_e7_pkg.mod.f.b = 2"]
if sys.argv[2] == "reversed":
  lines.reverse()
gin.parse_config("from __gin__ import dynamic_registration\n"
                 "from c06_e7_pkg import mod\nimport c06_e7_pkg\n"
                 + "\n".join(lines))
text = gin.config_str()
gin.clear_config()
gin.parse_config(text)
assert gin.config_str() == text
sys.stdout.write(text)
'''

tmp = tempfile.mkdtemp()
pkg = os.path.join(tmp, 'c06_e7_pkg')
os.mkdir(pkg)
with open(os.path.join(pkg, '__init__.py'), 'w') as f:
  f.write('from c06_e7_pkg import mod\n')
with open(os.path.join(pkg, 'mod.py'), 'w') as f:
  f.write('def f(a=None, b=None):\n  return a, b\n')

outs = []
for order in ('given', 'reversed'):
  outs.append(subprocess.run(
      [sys.executable, '-c', CHILD, tmp, order], check=True,
      stdout=subprocess.PIPE, universal_newlines=True).stdout)
assert outs[0] == outs[1], (
    'same bindings, different order of binding -> different config_str():\n'
    '%s\n-- vs --\n%s' % (outs[0], outs[1]))
print('PASS')
