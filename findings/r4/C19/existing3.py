"""C19, pre-existing defect 3: a reference to a class that sits in the value
currently being parsed is not kept working when a method of that class is
registered later in the same value.

C19: "... for every order of first use ... configuring a method of an already
referenced class keeps existing references working".

In `use.c = [@mod.C(), @mod.C.meth]` the reference `@mod.C()` is created first
(registering C); `@mod.C.meth` then registers the method, which re-registers
the class with a new wrapper that carries the configurable method.
ParseContext._register (gin/config.py:324-329) re-points existing references to
the new registration, but only those it finds in _CONFIG
(`iterate_references(_CONFIG, to=original.wrapper)`): the reference created a
moment ago lives in the not-yet-bound value and keeps the old wrapper. Objects
built through it ignore every binding of `mod.C.meth`, while objects built
through any later reference honour them.
"""
import importlib
import os
import sys
import tempfile
import textwrap

import gin


def make_tree(tree):
  root = tempfile.mkdtemp(prefix='c19e3_')
  for path, src in tree.items():
    full = os.path.join(root, path)
    os.makedirs(os.path.dirname(full), exist_ok=True)
    with open(full, 'w') as f:
      f.write(textwrap.dedent(src))
  sys.path.insert(0, root)
  importlib.invalidate_caches()


make_tree({
    'c19e3_pkg/__init__.py': '',
    'c19e3_pkg/mod.py': """
        class C:
          def __init__(self, x=0):
            self.x = x
          def meth(self, y=0):
            return (self.x, y)

        def use(c=None, d=None):
          return c, d
    """,
})
import c19e3_pkg.mod as mod  # pylint: disable=g-import-not-at-top

gin.clear_config()
gin.parse_config("""
    from __gin__ import dynamic_registration
    from c19e3_pkg import mod

    mod.use.c = [@mod.C(), @mod.C.meth]   # class first, method second
    mod.C.x = 3
    mod.C.meth.y = 5
    mod.use.d = @mod.C()
""")
(first, _), later = gin.get_configurable(mod.use)()
assert later.x == 3 and later.meth() == (3, 5), (later.x, later.meth())
assert first.x == 3, first.x
assert first.meth() == (3, 5), (
    'the reference @mod.C() that existed before the method was registered '
    'builds objects that ignore mod.C.meth.y = 5: meth() returned %r, while a '
    'later reference to the same class gives %r' %
    (first.meth(), later.meth()))
print('PASS')
