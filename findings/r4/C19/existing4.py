"""C19, pre-existing defect 4: a configured method that is shared through
inheritance makes the other class of the hierarchy unusable.

C19: a dotted name is resolved by "following attributes to a Python object, and
it is that exact object (function, class, nested class or method) that is
registered and configured ... for every package tree of modules, classes,
nested classes and methods ... every order of first use".

Order 2 below is very ordinary: a method of a base class is configured
(`mod2.Base.meth.y = 2`), then a subclass is referenced (`@mod2.Sub()`).
Registering Sub scans the methods visible on Sub (including inherited ones) in
_find_registered_methods (gin/config.py:483-500), finds Base.meth registered
with module '...mod2.Base' (that module string was built from the spelling used
at first use, ParseContext._register, gin/config.py:311-323) and raises
  ValueError: Method meth in class <class Sub> (...mod2.Sub) was registered
  with a custom module (...mod2.Base), but the class is also being registered.
Order 1 is the mirror image: the inherited method is first reached as
`mod.Sub.meth` (which resolves to the very function object Base.meth), then
`@mod.Base()` raises the same error.
"""
import importlib
import os
import sys
import tempfile
import textwrap

import gin


def make_tree(tree):
  root = tempfile.mkdtemp(prefix='c19e4_')
  for path, src in tree.items():
    full = os.path.join(root, path)
    os.makedirs(os.path.dirname(full), exist_ok=True)
    with open(full, 'w') as f:
      f.write(textwrap.dedent(src))
  sys.path.insert(0, root)
  importlib.invalidate_caches()


MOD_SRC = """
    class Base:
      def __init__(self, x=0):
        self.x = x
      def meth(self, y=0):
        return (type(self).__name__, self.x, y)

    class Sub(Base):
      pass

    def use(c=None, d=None):
      return c, d
"""
make_tree({
    'c19e4_pkg/__init__.py': '',
    'c19e4_pkg/mod.py': MOD_SRC,
    'c19e4_pkg/mod2.py': MOD_SRC,
})
import c19e4_pkg.mod as mod  # pylint: disable=g-import-not-at-top
import c19e4_pkg.mod2 as mod2  # pylint: disable=g-import-not-at-top

failures = []

# --- Order 1: inherited method through the subclass first, then the base. ---
gin.clear_config()
try:
  gin.parse_config("""
      from __gin__ import dynamic_registration
      from c19e4_pkg import mod

      mod.Sub.meth.y = 1
      mod.use.c = @mod.Sub()
      mod.use.d = @mod.Base()
  """)
  sub, base = gin.get_configurable(mod.use)()
  assert sub.meth() == ('Sub', 0, 1), sub.meth()
  assert base.x == 0
except Exception as e:  # pylint: disable=broad-except
  failures.append(
      'order 1: after configuring the inherited method through mod.Sub, the '
      'class that defines it can no longer be referenced: %s: %s' %
      (type(e).__name__, str(e).splitlines()[0]))

# --- Order 2 (ordinary): the base class's own method is configured, then a
# --- subclass is referenced.
gin.clear_config()
try:
  gin.parse_config("""
      from __gin__ import dynamic_registration
      from c19e4_pkg import mod2

      mod2.Base.meth.y = 2
      mod2.use.d = @mod2.Base()
      mod2.use.c = @mod2.Sub()
  """)
  sub, base = gin.get_configurable(mod2.use)()
  assert base.meth() == ('Base', 0, 2), base.meth()
  assert sub.x == 0
except Exception as e:  # pylint: disable=broad-except
  failures.append(
      'order 2: after configuring mod2.Base.meth, a subclass of Base can no '
      'longer be referenced: %s: %s' %
      (type(e).__name__, str(e).splitlines()[0]))

assert not failures, '\n  '.join(['C19 violated:'] + failures)
print('PASS')
