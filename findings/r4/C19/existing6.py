"""C19, pre-existing defect 6 (borderline, re-entrancy): while a file with
dynamic registration is being parsed, selectors passed to the *Python API* are
resolved through that file's import table too.

C19 scopes import-based resolution to dotted names *in a file that enables
dynamic registration*. A selector given to gin.bind_parameter() /
gin.query_parameter() from Python code is not such a name: it addresses the
registry. But ParsedBindingKey.parse (gin/config.py:945) and friends always ask
`_parse_context()` (gin/config.py:350-351), i.e. whichever file is currently
being parsed. So if the module named by one of the file's own import statements
runs `gin.bind_parameter('opt.lr', 0.1)` in its body (module-level default
bindings are a common idiom), the import statement of the dynamic-registration
file fails with
  NameError: 'opt' was not provided by an import statement.
and nothing the file's own imports provide can be configured. The identical
import works from plain Python and from a file without dynamic registration.
"""
import importlib
import os
import sys
import tempfile
import textwrap

import gin


def make_tree(tree):
  root = tempfile.mkdtemp(prefix='c19e6_')
  for path, src in tree.items():
    full = os.path.join(root, path)
    os.makedirs(os.path.dirname(full), exist_ok=True)
    with open(full, 'w') as f:
      f.write(textwrap.dedent(src))
  sys.path.insert(0, root)
  importlib.invalidate_caches()


make_tree({
    'c19e6_pkg/__init__.py': '',
    'c19e6_pkg/mod.py': """
        import gin

        @gin.configurable
        def c19e6_opt(lr=0.0):
          return lr

        gin.bind_parameter('c19e6_opt.lr', 0.1)   # module-level default.

        def f(x=0):
          return x
    """,
})

gin.clear_config()
try:
  gin.parse_config("""
      from __gin__ import dynamic_registration
      from c19e6_pkg import mod
      mod.f.x = 1
  """)
except NameError as e:
  raise AssertionError(
      "the file's own import statement failed because a Python-API selector "
      "used by the imported module was looked up among the file's imports: %s"
      % str(e).splitlines()[0])
import c19e6_pkg.mod as mod  # pylint: disable=g-import-not-at-top
assert gin.get_bindings(mod.f) == {'x': 1}
assert gin.query_parameter('c19e6_opt.lr') == 0.1
print('PASS')
