"""C19, pre-existing defect 5: configuring a *static* method of an already
referenced class breaks the objects built through the existing references.

C19: "... it is that exact object (function, class, nested class or method)
that is registered and configured; ... configuring a method of an already
referenced class keeps existing references working".

`mod.C.sm` (a @staticmethod) resolves, by attribute access on the class, to the
plain function, which ParseContext._register treats as a method of C
(gin/config.py:331: isfunction + parent is a class) and therefore re-registers
C. _find_registered_methods (gin/config.py:472-515) then hands the bare Gin
wrapper *function* to _decorate_fn_or_cls, which installs it in the dynamic
subclass's namespace without re-wrapping it in staticmethod()
(gin/config.py:601-648). For instances created through `@mod.C()` the static
method has silently become an instance method: `obj.sm()` receives `obj` as its
first positional argument (so z == obj, and the binding z = 7 is overridden),
and `obj.sm(1)` raises TypeError. Before `mod.C.sm.z = 7` was parsed the very
same reference built objects whose `sm()` worked.
"""
import importlib
import os
import sys
import tempfile
import textwrap

import gin


def make_tree(tree):
  root = tempfile.mkdtemp(prefix='c19e5_')
  for path, src in tree.items():
    full = os.path.join(root, path)
    os.makedirs(os.path.dirname(full), exist_ok=True)
    with open(full, 'w') as f:
      f.write(textwrap.dedent(src))
  sys.path.insert(0, root)
  importlib.invalidate_caches()


make_tree({
    'c19e5_pkg/__init__.py': '',
    'c19e5_pkg/mod.py': """
        class C:
          def __init__(self, x=0):
            self.x = x

          @staticmethod
          def sm(z=0):
            return ('sm', z)

        def use(c=None):
          return c
    """,
})
import c19e5_pkg.mod as mod  # pylint: disable=g-import-not-at-top

gin.clear_config()
gin.parse_config("""
    from __gin__ import dynamic_registration
    from c19e5_pkg import mod
    mod.C.x = 1
    mod.use.c = @mod.C()
""")
obj = gin.get_configurable(mod.use)()
assert (obj.x, obj.sm()) == (1, ('sm', 0))   # the reference works.

gin.parse_config("""
    from __gin__ import dynamic_registration
    from c19e5_pkg import mod
    mod.C.sm.z = 7
""")
obj = gin.get_configurable(mod.use)()
assert obj.x == 1
result = obj.sm()
assert result == ('sm', 7), (
    'after configuring the static method mod.C.sm, objects built through the '
    'existing reference @mod.C() have a broken sm(): it returned %r (the '
    'instance was passed as z) instead of (\'sm\', 7)' % (result,))
print('PASS')
