"""C19, pre-existing defect 2: configuring a method through a *different import
spelling* of an already configured/referenced class loses the class's bindings
(or raises).

C19: "different import spellings of one object address the same configurable,
and configuring a method of an already referenced class keeps existing
references working".

File 1 spells the module `from pkg import mod` and configures + references the
class `mod.C`. File 2 spells the same module `import pkg.mod as m` and
configures the method `m.C.meth`. Registering the method re-registers its class
(ParseContext._register, gin/config.py:331-332), and the re-registration builds
the selector from the *current* file's spelling (gin/config.py:311-323:
'c19e2_pkg.m.C' instead of 'c19e2_pkg.mod.C'). The new wrapper, to which all
existing references are re-pointed (gin/config.py:328-329), looks its bindings
up under the new selector, while the bindings made so far live in _CONFIG under
the old one: `C.x = 1` silently stops applying.

Variant 2: a second method of the class configured through the other spelling
raises "Method meth ... was registered with a custom module" from
_find_registered_methods (gin/config.py:495-500), for the same reason.
"""
import importlib
import os
import sys
import tempfile
import textwrap

import gin


def make_tree(tree):
  root = tempfile.mkdtemp(prefix='c19e2_')
  for path, src in tree.items():
    full = os.path.join(root, path)
    os.makedirs(os.path.dirname(full), exist_ok=True)
    with open(full, 'w') as f:
      f.write(textwrap.dedent(src))
  sys.path.insert(0, root)
  importlib.invalidate_caches()


CLASS_SRC = """
    class C:
      def __init__(self, x=0):
        self.x = x
      def meth(self, y=0):
        return (self.x, y)
      def other(self, z=0):
        return z

    def use(c=None):
      return c
"""
make_tree({
    'c19e2_pkg/__init__.py': '',
    'c19e2_pkg/mod.py': CLASS_SRC,
    'c19e2_pkg/mod2.py': CLASS_SRC,
})
import c19e2_pkg.mod as mod  # pylint: disable=g-import-not-at-top
import c19e2_pkg.mod2 as mod2  # pylint: disable=g-import-not-at-top

failures = []

# --- Variant 1: class bindings lost. ---------------------------------------
gin.clear_config()
gin.parse_config("""
    from __gin__ import dynamic_registration
    from c19e2_pkg import mod
    mod.C.x = 1
    mod.use.c = @mod.C()
""")
obj = gin.get_configurable(mod.use)()
assert (obj.x, obj.meth()) == (1, (1, 0))

gin.parse_config("""
    from __gin__ import dynamic_registration
    import c19e2_pkg.mod as m
    m.C.meth.y = 5
""")
obj = gin.get_configurable(mod.use)()
if (obj.x, obj.meth()) != (1, (1, 5)):
  failures.append(
      'variant 1: after `m.C.meth.y = 5` (other spelling of the same class) '
      'the existing reference @mod.C() builds x=%r, meth()=%r; expected x=1, '
      'meth()=(1, 5): the binding mod.C.x = 1 no longer applies' %
      (obj.x, obj.meth()))

# --- Variant 2: second method through the other spelling raises. -----------
gin.clear_config()
gin.parse_config("""
    from __gin__ import dynamic_registration
    from c19e2_pkg import mod2
    mod2.C.meth.y = 5
    mod2.use.c = @mod2.C()
""")
try:
  gin.parse_config("""
      from __gin__ import dynamic_registration
      import c19e2_pkg.mod2 as n
      n.C.other.z = 9
  """)
  obj = gin.get_configurable(mod2.use)()
  assert (obj.meth(), obj.other()) == ((0, 5), 9), (obj.meth(), obj.other())
except Exception as e:  # pylint: disable=broad-except
  failures.append('variant 2: configuring a second method through the other '
                  'spelling: %s: %s' % (type(e).__name__,
                                        str(e).splitlines()[0]))

assert not failures, '\n  '.join(['C19 violated:'] + failures)
print('PASS')
