"""C19, pre-existing defect 1: colliding aliases across files make the second
object unconfigurable.

Two files bind the SAME alias to two DIFFERENT modules of one package (C19
quantifies over "every combination of import forms and aliases (including
colliding bound names across files)"). Each file must resolve `m.f` through its
OWN import and register/configure exactly that object.

On the unchanged library the second file fails with
  ValueError: A different configurable matching 'c19e1_pkg.m.f' already exists.
because the registry selector of a dynamically registered object is built from
the *alias* (ImportStatement.partial_path(), gin/config_parser.py:109-113,
replaces the last module component by the alias; ParseContext._register,
gin/config.py:311-323, uses it as the configurable's module), so two different
objects reached through the same alias get the same selector.

The same root cause also bites with `from pkg import a as b` in one file and a
real module `pkg.b` in another (checked second).
"""
import importlib
import os
import sys
import tempfile
import textwrap

import gin


def make_tree(tree):
  root = tempfile.mkdtemp(prefix='c19e1_')
  for path, src in tree.items():
    full = os.path.join(root, path)
    os.makedirs(os.path.dirname(full), exist_ok=True)
    with open(full, 'w') as f:
      f.write(textwrap.dedent(src))
  sys.path.insert(0, root)
  importlib.invalidate_caches()


make_tree({
    'c19e1_pkg/__init__.py': '',
    'c19e1_pkg/a.py': "def f(x=0):\n  return ('a', x)\n",
    'c19e1_pkg/b.py': "def f(x=0):\n  return ('b', x)\n",
    'c19e1_pkg/c.py': "def f(x=0):\n  return ('c', x)\n",
    'c19e1_pkg/d.py': "def f(x=0):\n  return ('d', x)\n",
})
import c19e1_pkg.a as mod_a  # pylint: disable=g-import-not-at-top
import c19e1_pkg.b as mod_b  # pylint: disable=g-import-not-at-top
import c19e1_pkg.c as mod_c  # pylint: disable=g-import-not-at-top
import c19e1_pkg.d as mod_d  # pylint: disable=g-import-not-at-top

failures = []

# --- Variant 1: the same alias for two sibling modules, in two files. -------
gin.clear_config()
gin.parse_config("""
    from __gin__ import dynamic_registration
    import c19e1_pkg.a as m
    m.f.x = 1
""")
try:
  gin.parse_config("""
      from __gin__ import dynamic_registration
      import c19e1_pkg.b as m
      m.f.x = 2
  """)
  assert gin.get_bindings(mod_a.f) == {'x': 1}
  assert gin.get_bindings(mod_b.f) == {'x': 2}
except Exception as e:  # pylint: disable=broad-except
  failures.append('variant 1 (import pkg.a as m / import pkg.b as m): %s: %s' %
                  (type(e).__name__, str(e).splitlines()[0]))

# --- Variant 2: an alias equal to the name of a real sibling module. --------
gin.clear_config()
gin.parse_config("""
    from __gin__ import dynamic_registration
    from c19e1_pkg import c as d
    d.f.x = 3
""")
try:
  gin.parse_config("""
      from __gin__ import dynamic_registration
      from c19e1_pkg import d
      d.f.x = 4
  """)
  assert gin.get_bindings(mod_c.f) == {'x': 3}
  assert gin.get_bindings(mod_d.f) == {'x': 4}
except Exception as e:  # pylint: disable=broad-except
  failures.append('variant 2 (from pkg import c as d / from pkg import d): '
                  '%s: %s' % (type(e).__name__, str(e).splitlines()[0]))

assert not failures, (
    'each file must resolve the name through its own import and configure that '
    'exact object, but:\n  ' + '\n  '.join(failures))
print('PASS')
