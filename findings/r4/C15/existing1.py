"""C15 pre-existing violation: an unknown-reference placeholder used as a DICT KEY
is not reported by gin.finalize().

Property: "References to unknown configurables inside applied bindings are kept as
placeholders that raise a 'no configurable matching' error when the value is used
AND AT FINALIZE".

Gin's value syntax allows references as dict keys (`{@fn: 1}`; the parser's
_parse_dict_item calls parse_value for the key).  With skip_unknown=True the key
becomes a _UnknownConfigurableReference placeholder.  Using the value raises as
required (copy.deepcopy copies keys), but finalize() does not: the finalize hook
find_unknown_references_hook walks the value with
gin.config._iterate_flattened_values, which for a Mapping iterates only the
VALUES (`value = collections.abc.ValuesView(value)`, gin/config.py ~line 2763), so
the placeholder key is never seen and the config is locked with a dangling
reference in it.
"""
import gin


@gin.configurable
def known_e1(x=None):
  return x


def finalize_error(text):
  gin.clear_config()
  gin.parse_config(text, skip_unknown=True)
  try:
    gin.finalize()
  except ValueError as e:
    return str(e)
  finally:
    gin.clear_config()
  return None


# Control: as a dict VALUE (or list element) the placeholder is reported.
err = finalize_error('known_e1.x = {1: @nope_e1}')
assert err and "No configurable matching reference '@nope_e1'" in err, err
err = finalize_error('known_e1.x = [@nope_e1()]')
assert err and "No configurable matching reference '@nope_e1()'" in err, err

# The same placeholder as a dict key is 'used' correctly ...
gin.parse_config('known_e1.x = {@nope_e1: 1}', skip_unknown=True)
try:
  known_e1()
  raise AssertionError('using the value did not raise')
except ValueError as e:
  assert "No configurable matching reference '@nope_e1'" in str(e), e
gin.clear_config()

# ... but must also be reported at finalize.
err = finalize_error('known_e1.x = {@nope_e1: 1}')
assert err is not None and "No configurable matching reference '@nope_e1'" in err, (
    'C15 violated: finalize() accepted a config whose binding known_e1.x holds an '
    'unknown-reference placeholder (as a dict key); got error=%r' % (err,))
print('PASS')
