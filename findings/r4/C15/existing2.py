"""C15 pre-existing violation: under dynamic registration, whether a name is
'known' depends on the global registry, i.e. on what was parsed/registered
before, not only on the file's own imports.

Property quantifier: "... with static or dynamic registration (where 'known'
means resolvable through the file's imports, independent of what was parsed
before)".

gin.config._should_skip (gin/config.py ~line 861) first asks
`_REGISTRY.matching_selectors(selector)`; only when that is empty does it ask the
parse context.  In a file that enables dynamic registration, names are resolved
exclusively through the file's imports (ParseContext.get_configurable ->
_resolve_selector), so a name that happens to be in the global registry (because
it was registered statically with @gin.configurable, or dynamically by a file
parsed EARLIER) but is not provided by this file's imports is
  * not skipped (the registry says "known"), and then
  * not resolvable (NameError: 'x' was not provided by an import statement).
So with skip_unknown=True the same text is either parsed fine (binding dropped)
or aborts with NameError, depending on history.
"""
import gin
from gin import config

FILE2 = """
from __gin__ import dynamic_registration
import gin.testdata.import_test_configurables as itc
function.arg = 5
itc.identity.param = @function
itc.identity.param = 1
"""

FILE1 = """
from __gin__ import dynamic_registration
from gin.testdata import dynamic_registration as dr
dr.function.arg = 2
"""


def outcome(text, skip_unknown):
  gin.clear_config()
  try:
    gin.parse_config(text, skip_unknown=skip_unknown)
    result = ('ok', {k: dict(v) for k, v in config._CONFIG.items()})
  except Exception as e:  # pylint: disable=broad-except
    result = ('error', type(e).__name__, str(e).split('\n')[0])
  gin.clear_config()
  return result


for form in (True, ['function'], ('function',), {'function'}):
  # Fresh process state: `function` is resolvable neither through FILE2's imports
  # nor anywhere else -> its binding and the binding's reference are dropped /
  # replaced, the known binding is applied.
  before = outcome(FILE2, form)
  assert before == ('ok', {
      ('', 'gin.testdata.import_test_configurables.identity'): {'param': 1}
  }), before

  # Parse another, unrelated file first (it registers `function` dynamically).
  first = outcome(FILE1, form)
  assert first[0] == 'ok', first

  # FILE2's imports have not changed, so its result must not change either.
  after = outcome(FILE2, form)
  assert after == before, (
      'C15 violated (skip_unknown=%r): the same text with the same imports gave %r '
      'on a fresh registry but %r after an unrelated file had been parsed; '
      "'function' is not resolvable through this file's imports, so its binding "
      'should have been dropped' % (form, before, after))

print('PASS')
