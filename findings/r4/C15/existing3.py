"""C15 pre-existing violation (same cause as existing2, history-free variant):
in a file that enables dynamic registration, a configurable that is registered
statically (@gin.configurable) but NOT provided by the file's imports is unknown
in the sense of the property ("'known' means resolvable through the file's
imports"), so with skip_unknown=True its bindings should be dropped -- exactly as
happens for a name that is registered nowhere.  Instead parsing aborts with
NameError, because gin.config._should_skip (gin/config.py ~line 861) answers "do
not skip" as soon as the global _REGISTRY has a match, although under dynamic
registration the registry is never used to resolve the name
(ParseContext.get_configurable -> _resolve_selector -> NameError).
"""
import gin
from gin import config


@gin.configurable
def static_only_e3(x=None):
  return x


TEXT = """
from __gin__ import dynamic_registration
import gin.testdata.import_test_configurables as itc
{name}.x = 1
itc.identity.param = 7
"""


def outcome(text, skip_unknown):
  gin.clear_config()
  try:
    gin.parse_config(text, skip_unknown=skip_unknown)
    result = ('ok', {k: dict(v) for k, v in config._CONFIG.items()})
  except Exception as e:  # pylint: disable=broad-except
    result = ('error', type(e).__name__, str(e).split('\n')[0])
  gin.clear_config()
  return result


expected = ('ok', {
    ('', 'gin.testdata.import_test_configurables.identity'): {'param': 7}})
# A name registered nowhere and not importable: dropped, rest applied.
assert outcome(TEXT.format(name='registered_nowhere_e3'), True) == expected
# A name this file's imports do not provide either (it merely sits in the global
# registry): must be treated the same way.
got = outcome(TEXT.format(name='static_only_e3'), True)
assert got == expected, (
    "C15 violated: 'static_only_e3' is not resolvable through the file's imports "
    '(dynamic registration), skip_unknown=True should drop its binding and apply '
    'the rest; got %r' % (got,))
print('PASS')
