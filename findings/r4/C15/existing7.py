"""C15 (borderline; overlaps the config_str round-trip property): an applied
binding that holds an unknown-reference placeholder silently disappears from
gin.config_str().

Property: placeholders "are never silently dropped".  In the live config the
placeholder is kept, but config_str() omits the whole binding without any marker
(the value is "not literally representable": gin.config._format_value /
_is_literally_representable, gin/config.py ~line 995, used by _config_str), so
saving config_str() and re-parsing it yields a config in which the binding -- and
with it the 'no configurable matching' error at use / finalize -- is gone.
"""
import gin


@gin.configurable
def known_e7(x=None, y=None):
  return x, y


gin.parse_config('known_e7.x = [@nope_e7()]\nknown_e7.y = 3', skip_unknown=True)
saved = gin.config_str()
gin.clear_config()
assert 'known_e7.y = 3' in saved
assert 'known_e7.x' in saved and 'nope_e7' in saved, (
    'C15 violated: the binding known_e7.x = [@nope_e7()] (an unknown-reference '
    'placeholder) was silently dropped from config_str():\n' + saved)
print('PASS')
