"""C15 (lower confidence / arguably by design): the container forms of
skip_unknown treat imports of missing modules inconsistently.  A missing import is
dropped for ANY non-empty list/tuple/set -- even one that names something totally
unrelated -- but raises for an EMPTY list/tuple/set, because parse_config tests
`if not skip_unknown: raise` (gin/config.py ~line 2450) on the container itself.
For bindings the container forms are uniform (`selector in skip_unknown`); for
imports the behaviour flips on emptiness, so e.g. skip_unknown=[n for n in names
if cond] drops or keeps missing imports depending on whether the comprehension
happens to be empty.

Property: "every import of a missing module [is deleted] ... every form of
skip_unknown (False, True, list, tuple, set)".
"""
import gin


@gin.configurable
def known_e6(x=None):
  return x


text = 'import surely_not_a_module_e6\nknown_e6.x = 1'


def outcome(form):
  gin.clear_config()
  try:
    gin.parse_config(text, skip_unknown=form)
    return 'dropped'
  except ImportError:
    return 'ImportError'
  finally:
    gin.clear_config()


results = {repr(form): outcome(form)
           for form in (['unrelated'], ('unrelated',), {'unrelated'}, [], (), set())}
assert len(set(results.values())) == 1, (
    'C15 violated: container forms of skip_unknown disagree on imports of missing '
    'modules: %r' % (results,))
print('PASS')
