"""C15 pre-existing violation: a binding that is itself skipped (unknown, listed
target) still has its VALUE resolved, so an unknown reference (or an ambiguous
constant) that occurs only inside the dropped binding aborts the parse.

Property: "Parsing with skip_unknown enabled yields exactly the configuration
obtained by deleting from the text every binding and block whose target
configurable is unknown (or, when a list is given, unknown and listed) ...".
(The parse_config docstring says the same: references to unknown configurables
cause errors "if they are present in a binding that is not itself skipped".)

Cause: config_parser.ConfigParser.parse_statement / _parse_binding_block call
parse_value -> ParserDelegate.configurable_reference / .macro eagerly, before
gin.config.parse_config decides with _should_skip whether the statement is
dropped (gin/config.py ~lines 2431-2441, delegate at ~877-891).
"""
import gin
from gin import config


@gin.configurable
def known_e4(x=None):
  return x


def outcome(text, skip_unknown):
  gin.clear_config()
  try:
    gin.parse_config(text, skip_unknown=skip_unknown)
    result = ('ok', {k: dict(v) for k, v in config._CONFIG.items()})
  except Exception as e:  # pylint: disable=broad-except
    result = ('error', type(e).__name__, str(e).split('\n')[0])
  gin.clear_config()
  return result


gin.constant('pkg_a_e4.AMBIG_E4', 1)
gin.constant('pkg_b_e4.AMBIG_E4', 2)

cases = [
    # (full text, text with the unknown+listed statements deleted, skip_unknown)
    ('unknown_e4.x = @other_e4\nknown_e4.x = 1', 'known_e4.x = 1', ['unknown_e4']),
    ('unknown_e4:\n  x = [@other_e4()]\nknown_e4.x = 1', 'known_e4.x = 1',
     ('unknown_e4',)),
    ('unknown_e4.x = %AMBIG_E4\nknown_e4.x = 1', 'known_e4.x = 1', True),
]
for full, deleted, form in cases:
  want = outcome(deleted, form)
  assert want == ('ok', {('', '__main__.known_e4'): {'x': 1}}), want
  got = outcome(full, form)
  assert got == want, (
      'C15 violated (skip_unknown=%r): text %r should behave like %r (its only '
      'other statement targets an unknown, listed configurable and is deleted), '
      'but gave %r' % (form, full, deleted, got))
print('PASS')
