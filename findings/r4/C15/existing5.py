"""C15 pre-existing violation (robustness): with skip_unknown=True, the import of
a module that cannot be imported because it raises a plain ImportError (the usual
`raise ImportError('please install foo')` optional-dependency idiom, or any
ImportError constructed without name=) is not dropped: parse_config crashes with
AttributeError instead.

Property: "... deleting from the text ... every import of a missing module".
parse_config catches ImportError (so this case is meant to be skipped, like the
nested-ImportError case of tests' testSkipUnknownNestedImport), but the logging
helper gin.config._print_unknown_import_message does
`exception.name.split('.')` (gin/config.py ~line 2472) and `exception.name` is
None unless the import machinery itself raised the error.
"""
import os
import sys
import tempfile

import gin
from gin import config


@gin.configurable
def known_e5(x=None):
  return x


tmp = tempfile.mkdtemp()
with open(os.path.join(tmp, 'optdep_mod_e5.py'), 'w') as f:
  f.write("raise ImportError('optional dependency foo is not installed')\n")
sys.path.insert(0, tmp)

text = 'import optdep_mod_e5\nknown_e5.x = 1'
# Without skip_unknown the ImportError propagates (fine).
try:
  gin.parse_config(text)
  raise AssertionError('expected ImportError')
except ImportError:
  pass
gin.clear_config()

try:
  gin.parse_config(text, skip_unknown=True)
except Exception as e:  # pylint: disable=broad-except
  raise AssertionError(
      'C15 violated: skip_unknown=True should drop the un-importable import and '
      'apply known_e5.x = 1, but parse_config raised %s: %s' %
      (type(e).__name__, str(e).split('\n')[0]))
assert gin.query_parameter('known_e5.x') == 1
gin.clear_config()
print('PASS')
