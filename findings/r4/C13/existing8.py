"""C13 (existing defect): registering a class silently replaces a *different*
object that already lives under the full name `<module>.<Class>.<method>`.

Property: "a different object under an existing full name ... [is] rejected
without registering anything" (outside interactive mode).

Cause: gin/config.py `_find_registered_methods` (l.501-510) renames a registered
method of the class to `selector + '.' + name` with a bare
`_REGISTRY[new_selector] = method_info`; unlike `_make_configurable` (l.1729) it
never checks whether that full name is already taken by another object.  The
previous holder stays in `_INVERSE_REGISTRY` but its selector now resolves to
the method, so `gin.get_configurable(<old function>)` returns the *method's*
wrapper and bindings written for the old function are injected into the method.
"""
import gin

MOD = __name__  # '__main__'


# A function deliberately registered as "<mod>.Widget.render".
@gin.register('render', module=MOD + '.Widget')
def standalone_render(x=0):
  return ('standalone', x)

gin.bind_parameter(MOD + '.Widget.render.x', 1)
assert gin.get_configurable(MOD + '.Widget.render')() == ('standalone', 1)


class Widget:

  def __init__(self, a=0):
    self.a = a

  @gin.register
  def render(self, x=0):
    return ('method', x)


try:
  gin.register(Widget)
  rejected = False
except ValueError:
  rejected = True

now = gin.get_configurable(standalone_render)
assert rejected and now() == ('standalone', 1), (
    'C13 violated: registering class Widget was %s and the full name '
    "'%s.Widget.render' now belongs to %r (reached through the original "
    'function standalone_render!)' %
    ('rejected' if rejected else 'accepted', MOD, now))

print('PASS')
