"""C13 (existing defect): merely *looking up* the scoped version of a
@gin.configurable class re-registers (renames) the registered methods of that
class, invalidating their selectors and existing bindings.

Property: registration is transparent, "with and without a scope"; obtaining
the scoped registry version must not change what is registered.

Cause: gin/config.py `_decorate_with_scope` (l.707-713) calls
`_decorate_fn_or_cls(..., avoid_class_mutation=True, decorate_methods=True)` on
the class, which runs `_find_registered_methods` -- a function with registry
side effects (`_REGISTRY.pop(old_selector)`, `_REGISTRY[new_selector] = ...`).
For classes registered through gin.register that renaming already happened at
registration time, but for a @gin.configurable class (mutating path, which
never calls `_find_registered_methods`) it happens on the first scoped lookup:
`<mod>.step` silently becomes `<mod>.Trainer.step`.  Afterwards
`gin.query_parameter('step.x')` raises and `gin.config_str()` dies with
KeyError.
"""
import gin


@gin.configurable
class Trainer:

  def __init__(self, a=0):
    self.a = a

  @gin.register
  def step(self, x=0):
    return x


gin.bind_parameter('step.x', 3)
assert gin.query_parameter('step.x') == 3
unscoped = gin.get_configurable('step')

scoped_cls = gin.get_configurable('eval/Trainer')   # just a lookup
assert isinstance(scoped_cls(), Trainer)

try:
  still = gin.get_configurable('step')
  value = gin.query_parameter('step.x')
  gin.config_str()
except (ValueError, KeyError) as e:
  raise AssertionError(
      "C13 violated: after gin.get_configurable('eval/Trainer') the registered "
      "method 'step' is no longer reachable under its selector: %s: %s" %
      (type(e).__name__, e))
assert still is unscoped and value == 3

print('PASS')
