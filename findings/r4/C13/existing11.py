"""C13 (existing defect, low confidence / literal reading): giving both an
allowlist and a denylist is accepted when one of them is empty.

Property: "... and giving both lists are rejected without registering anything".

Cause: gin/config.py `_make_configurable` l.1737 tests truthiness
(`if allowlist and denylist:`) instead of `is not None`, so `allowlist=[]`
together with a denylist is accepted -- and the empty allowlist is then treated
as "no allowlist" (everything but the denylist is configurable), which is the
opposite of what an empty allowlist says.
"""
import gin


def fn(x=0, y=0):
  return (x, y)


try:
  gin.external_configurable(fn, 'c13ex11_fn', allowlist=[], denylist=['x'])
except ValueError:
  pass
else:
  raise AssertionError(
      'C13 violated: both an allowlist ([]) and a denylist were given and the '
      'registration was accepted')

print('PASS')
