"""C13 (existing behaviour, low confidence -- inherent to the subclassing design):
gin.register / gin.external_configurable are observable on the class they are
given: they run the class's `__init_subclass__` hook (and any metaclass
`__new__`/`__init__`) once more and add a hidden entry to `cls.__subclasses__()`.

Property: "gin.register and gin.external_configurable never alter the function
or class they are given".

Cause: gin/config.py `_decorate_fn_or_cls` (avoid_class_mutation branch, l.648):
`decorating_meta(cls.__name__, (cls,), overrides)` creates a real subclass.  A
class that keeps a registry of its subclasses in `__init_subclass__` (plugin
pattern) therefore gets a phantom plugin with the same name; and a base class
that auto-registers its subclasses with Gin from `__init_subclass__` recurses
until RecursionError, because the Gin subclass triggers the hook again.
"""
import gin


class Plugin:
  plugins = []

  def __init_subclass__(cls, **kwargs):
    super().__init_subclass__(**kwargs)
    Plugin.plugins.append(cls)


class Reader(Plugin):

  def __init__(self, path=''):
    self.path = path


assert Plugin.plugins == [Reader] and Reader.__subclasses__() == []
gin.register(Reader)
assert Plugin.plugins == [Reader] and Reader.__subclasses__() == [], (
    'C13 violated: gin.register(Reader) ran Reader.__init_subclass__ and left '
    'a hidden subclass behind: plugins=%r, __subclasses__=%r' %
    (Plugin.plugins, Reader.__subclasses__()))

print('PASS')
