"""C13 (existing defect): an invalid *module* is rejected, but not "without
registering anything": the rejected registration of a class destroys the
registration of the class's registered methods.

Property: "Invalid names or modules ... are rejected without registering
anything."

Cause: gin/config.py `_make_configurable`: `MODULE_RE.match(module)` accepts a
module with a trailing newline ('$' matches before a final '\n', see
gin/selector_map.py:26), so the registration proceeds to `_decorate_fn_or_cls`
-> `_find_registered_methods` (gin/config.py ~l.501-509), which first does
`_REGISTRY.pop(old_selector)` for the method and then fails in
`_REGISTRY[new_selector] = ...` with "Invalid selector".  The class
registration is rejected (ValueError) but the method has been removed from the
registry (and _RENAMED_SELECTORS already points its wrapper at the bogus
selector).
"""
import gin


class Holder:

  def __init__(self, a=0):
    self.a = a

  @gin.register
  def meth(self, x=0):
    return x


def lookup(selector):
  try:
    return gin.get_configurable(selector)
  except (ValueError, KeyError):
    return None


before = lookup('__main__.meth')
assert before is not None

try:
  gin.register('Holder', module='__main__\n')(Holder)
except ValueError:
  pass  # Rejected, as it should be.
else:
  raise AssertionError("C13 violated: module '__main__\\n' was accepted")

after = lookup('__main__.meth')
assert after is before, (
    'C13 violated: the rejected registration (invalid module) was not free of '
    "side effects: the registered method '__main__.meth' is now %r" % (after,))
assert lookup('__main__.Holder') is None

# ... and a valid registration of the class must still be possible afterwards.
gin.register(Holder)
gin.bind_parameter('__main__.Holder.meth.x', 7)
assert gin.get_configurable(Holder)().meth() == 7

print('PASS')
