"""C13 (existing defect): an invalid name is NOT rejected -- a name with a
trailing newline is accepted and registered.

Property: "Invalid names or modules ... are rejected without registering
anything."  'foo\n' is not an identifier (nor a dotted module path).

Cause: gin/config_parser.py:38 IDENTIFIER_RE = r'^[a-zA-Z_]\w*$' and
gin/selector_map.py:26 SELECTOR_RE = r'^(...)*[a-zA-Z_]\w*$' are used with
`.match()`; in Python `$` also matches just before a trailing '\n', so both the
name check in gin/config.py `_make_configurable` (IDENTIFIER_RE.match(name) /
MODULE_RE.match(name)) and the final `SelectorMap.__setitem__` check let
'foo\n' through.  (`\Z` or `.fullmatch` would be needed.)
"""
import gin


def foo(x=0):
  return x


def registered(selector):
  try:
    gin.get_configurable(selector)
    return True
  except (ValueError, KeyError):
    return False


for api in ('register', 'configurable', 'external_configurable'):
  bad_name = 'foo_%s\n' % api
  try:
    if api == 'external_configurable':
      gin.external_configurable(foo, bad_name, module='c13ex1')
    else:
      getattr(gin, api)(bad_name, module='c13ex1')(foo)
  except ValueError:
    pass
  else:
    raise AssertionError(
        'C13 violated: gin.%s accepted the invalid configurable name %r '
        '(registered now: %s)' %
        (api, bad_name, registered('c13ex1.' + bad_name)))
  assert not registered('c13ex1.' + bad_name)

# Same for a dotted name.
try:
  gin.register('a.b.foo\n')(foo)
except ValueError:
  pass
else:
  raise AssertionError("C13 violated: invalid name 'a.b.foo\\n' was accepted")

print('PASS')
