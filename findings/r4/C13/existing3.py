"""C13 (existing defect): a rejected class registration is not atomic -- the
registered methods that were processed before the failure stay renamed.

Property: rejected registrations happen "without registering anything".

Two ways to get there on the unchanged tree (both in gin/config.py):
 (a) `_find_registered_methods` renames the methods one by one
     (`_REGISTRY.pop(old)`, `_REGISTRY[new] = ...`, `_INVERSE_REGISTRY[...]`,
     `_RENAMED_SELECTORS[...]`); if a *later* method was registered with a
     custom module it raises ValueError, leaving the earlier ones renamed to
     `<module>.<Class>.<method>` although the class is not registered.
 (b) `_decorate_fn_or_cls` creates the dynamic subclass
     (`decorating_meta(cls.__name__, (cls,), overrides)`) only *after*
     `_find_registered_methods` ran; if creating the subclass raises (e.g. the
     class forbids subclassing in `__init_subclass__`), the methods stay renamed.
In both cases bindings written for the method's own selector no longer resolve
and `gin.get_configurable('<old selector>')` fails.
"""
import gin


def lookup(selector):
  try:
    return gin.get_configurable(selector)
  except (ValueError, KeyError):
    return None


# ---- (a) ----
class Mixed:

  @gin.register
  def aa(self, x=0):
    return x

  @gin.register(module='some.custom.module')
  def bb(self, x=0):
    return x

aa_before = lookup('__main__.aa')
assert aa_before is not None
try:
  gin.register(Mixed)
except ValueError as e:
  assert 'custom module' in str(e)
else:
  raise AssertionError('expected the registration to be rejected')
assert lookup('__main__.Mixed') is None  # The class was indeed not registered...
assert lookup('__main__.aa') is aa_before and lookup('__main__.Mixed.aa') is None, (
    'C13 violated: the rejected registration of class Mixed renamed its '
    "registered method: '__main__.aa' -> %r, '__main__.Mixed.aa' -> %r" %
    (lookup('__main__.aa'), lookup('__main__.Mixed.aa')))


# ---- (b) ----
class Final:

  def __init_subclass__(cls, **kwargs):
    raise TypeError('Final may not be subclassed')

  @gin.register
  def mm(self, x=0):
    return x

mm_before = lookup('__main__.mm')
try:
  gin.register(Final)
except TypeError:
  pass
assert lookup('__main__.Final') is None
assert lookup('__main__.mm') is mm_before and lookup('__main__.Final.mm') is None, (
    'C13 violated: failed registration of class Final renamed its method')

print('PASS')
