"""C13 (existing defect, lower confidence -- depends on how one reads "need
overriding"): a class that merely *inherits* a @gin.configurable method from a
base class no longer yields instances of exactly the original class, and those
instances cannot be pickled although instances of the original can.

Property: constructing the configurable version "yields an instance ... of
exactly that class when no registered methods need overriding, in which case it
pickles whenever the original does".  An inherited method that is already
Gin-wrapped in place (gin.configurable) needs no override at all.

Cause: gin/config.py `_find_registered_methods`: `is_method` accepts inherited
methods, and the `else` branch (l.512-514) treats any function that unwraps to
a registered one (`_inverse_lookup(method, allow_decorators=True)`) as a
"registered method", returning the very same wrapper as an "override".
`method_overrides` is then non-empty, so `_decorate_fn_or_cls` uses the plain
metaclass `__call__` (l.607-612) and instances are of Gin's dynamic subclass.
"""
import pickle

import gin


class Base:

  def __init__(self, a=0):
    self.a = a

  @gin.configurable('c13ex9_step')
  def step(self, x=0):
    return x


class Child(Base):
  pass


gin.register(Child)
gin.bind_parameter('Child.a', 4)

pickle.loads(pickle.dumps(Child(1)))  # The original pickles.

inst = gin.get_configurable(Child)()
assert isinstance(inst, Child) and inst.a == 4
assert type(inst) is Child, (
    'C13 violated: no method of Child needs overriding (step is already '
    'configurable in place), yet the instance is of %r, not exactly Child' %
    type(inst))
assert pickle.loads(pickle.dumps(inst)).a == 4

print('PASS')
