"""C13 (existing defect, callable objects / bound methods): the registry's
version of a callable *object* mis-aligns positional arguments with parameter
names, so it cannot be called positionally once a binding exists.

Property: registration is transparent for every kind of callable, incl.
callable objects: the registry's version behaves like the original with values
injected for the parameters the caller did not supply.

Cause: gin/config.py `_get_cached_arg_spec` -> `inspect.getfullargspec(obj)`
for a callable object (or a bound method) *includes* the bound `self`
(`args == ['self', 'x', 'y']`).  `_get_supplied_positional_parameter_names`
(l.1195) therefore maps the caller's first positional argument to 'self', the
binding for `x` is not dropped, and the call fails with "got multiple values
for argument 'x'"; `gin.REQUIRED` passed positionally is reported as a missing
binding for 'self'.  Plain functions behave correctly.
"""
import gin


class Scaler:

  def __call__(self, x, y=0):
    return (x, y)


def scaler_fn(x, y=0):
  return (x, y)


obj = Scaler()
conf_obj = gin.external_configurable(obj, 'c13ex7_obj')
conf_fn = gin.external_configurable(scaler_fn, 'c13ex7_fn')
conf_bound = gin.external_configurable(obj.__call__, 'c13ex7_bound')
for name in ('c13ex7_obj', 'c13ex7_fn', 'c13ex7_bound'):
  gin.bind_parameter(name + '.x', 5)
  gin.bind_parameter(name + '.y', 6)

assert obj(1) == (1, 0)                      # direct call: nothing injected
assert conf_fn() == (5, 6) and conf_obj() == (5, 6)
assert conf_fn(1) == (1, 6)                  # reference behaviour (function)

for what, conf in (('callable object', conf_obj), ('bound method', conf_bound)):
  try:
    got = conf(1)
  except TypeError as e:
    raise AssertionError(
        'C13 violated: configurable version of a %s cannot be called like the '
        'original: %s' % (what, str(e).splitlines()[0]))
  assert got == (1, 6), got

print('PASS')
