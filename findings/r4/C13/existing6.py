"""C13 (existing defect): gin.configurable changes the signature of a class that
defines neither __init__ nor __new__.

Property: "gin.configurable returns an object with the original's name,
docstring and signature" -- for every class shape, explicitly including
"neither".

Cause: gin/config.py `_decorate_fn_or_cls` (mutating branch, l.653-658):
`_find_class_construction_fn` falls through to `object.__init__`, which is
wrapped and then *set on the class* (`setattr(cls, '__init__', wrapper)`).
`inspect.signature(cls)` used to be `()`; now it is derived from the wrapper of
`object.__init__`, i.e. `(*args, **kwargs)`.
"""
import inspect

import gin


class Plain:
  """A class with neither __init__ nor __new__."""

  def hello(self):
    return 'hi'


sig_before = inspect.signature(Plain)
name_before, doc_before = Plain.__name__, Plain.__doc__

Conf = gin.configurable('c13ex6_Plain')(Plain)

assert Conf.__name__ == name_before and Conf.__doc__ == doc_before
assert isinstance(Conf(), Plain)
assert inspect.signature(Conf) == sig_before, (
    'C13 violated: signature of the class was %s, after gin.configurable it is '
    '%s' % (sig_before, inspect.signature(Conf)))

print('PASS')
