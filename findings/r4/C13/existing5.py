"""C13 (existing defect): a registered *static* method of a registered class is
turned into an instance method on the configurable version of the class.

Property: registration is transparent; the configurable version of a class
behaves like the original (it is a subclass of it and constructing it yields an
instance of the original class) except that values are injected.

Cause: gin/config.py `_find_registered_methods`: `inspect.getmembers(cls)`
yields the plain function for a `staticmethod`, `is_method` accepts it, and the
override placed in the dynamic subclass is the bare Gin wrapper
(`registered_methods[name] = method_info.wrapper`, l.511) -- the `staticmethod`
wrapper is lost, so on instances `self` is passed as the first argument.
"""
import gin


@gin.register
class Tools:

  def __init__(self, a=0):
    self.a = a

  @staticmethod
  @gin.register
  def scale(x=1, factor=1):
    return x * factor


# Original: static method works on class and instance.
assert Tools.scale(2, 3) == 6 and Tools().scale(2, 3) == 6

gin.bind_parameter('Tools.scale.factor', 10)
conf_cls = gin.get_configurable(Tools)
assert conf_cls.scale(2) == 20          # via the class: fine
inst = conf_cls()
assert isinstance(inst, Tools)
try:
  result = inst.scale(2)
except TypeError as e:
  raise AssertionError(
      'C13 violated: static method of the configurable class received `self`: '
      + str(e).splitlines()[0])
assert result == 20, result

print('PASS')
