"""C13 (existing defect): a subclass of a registered class that has a registered
method cannot be registered at all -- and which of the two classes can be
registered depends on the order of registration.

Property: for every class shape, under gin.register / gin.external_configurable,
the configurable version is a subclass of the original and constructing it
yields an instance of the original; only invalid names/modules, name clashes
and bad allow/deny lists are grounds for rejection.

Cause: gin/config.py `_find_registered_methods` walks `inspect.getmembers(cls)`
and `is_method` accepts methods *inherited* from any class in the MRO.  When
`Base` was registered first, its method's Configurable got `module='<mod>.Base'`;
registering `Derived(Base)` then finds the same function object, sees
`method_info.module not in (method.__module__, selector)` (l.495) and raises
"... was registered with a custom module (<mod>.Base) ...", although no custom
module was ever given.  In the other order (Derived first) the inherited method
is renamed to `<mod>.Derived.m` -- it is taken away from `Base` -- and
registering `Base` afterwards fails with the same error.
"""
import gin


@gin.register
class Base:

  def __init__(self, a=0):
    self.a = a

  @gin.register
  def m(self, x=0):
    return x


class Derived(Base):
  pass


try:
  gin.register(Derived)
except ValueError as e:
  raise AssertionError(
      'C13 violated: a plain subclass of a registered class (with a registered '
      'method) is rejected by gin.register: %s' % str(e).splitlines()[0])

gin.bind_parameter('Derived.a', 3)
inst = gin.get_configurable(Derived)()
assert isinstance(inst, Derived) and inst.a == 3
assert Derived().a == 0

print('PASS')
