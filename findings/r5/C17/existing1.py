"""C17, pre-existing defect 1 (unchanged tree): a TypeError raised inside a
configurable is REPLACED by a KeyError / ValueError / IndexError when a keyword
argument name (supplied by the caller through `**kwargs`, or bound through
`gin.bind_parameter` for a `**kwargs` configurable) contains `{` or `}`.

Cause: gin/config.py, `_make_gin_wrapper.gin_wrapper`, the `except Exception`
block.  For a TypeError with unbound positional parameters the hint

    err_str += fmt.format(canonicalize(unbound_positional_args),
                          gin_bound_args=..., caller_supplied_args=...)

is formatted FIRST, the template "\n  In call to configurable '{}' ({}){}" is
appended, and then `err_str = err_str.format(name, fn_or_cls, scope_info)` runs
`str.format` over the whole string *including the already substituted
argument names*.  Any brace in a name is interpreted as a replacement field,
`format` raises inside the `except` block, and that new exception (KeyError,
ValueError or IndexError - not even a TypeError) is what the caller gets: wrong
class, not catchable by `except TypeError`, original args gone.
"""
import gin


@gin.configurable
def plain(a, b=1):
  return a, b


@gin.configurable
def with_kwargs(a, b, **options):
  return a, b, options


def expect_same(label, thunk, klass, check):
  try:
    thunk()
  except klass as e:
    check(e)
    assert 'In call to configurable' in str(e), (label, str(e))
    return
  except BaseException as e:  # pylint: disable=broad-except
    raise AssertionError(
        '%s: the configurable raised a %s but the caller received %s: %r' %
        (label, klass.__name__, type(e).__name__, e))
  raise AssertionError('%s: nothing raised' % label)


def is_missing_args(e):
  assert 'missing 2 required positional arguments' in e.args[0], e.args


# Control: ordinary keyword name -> TypeError with hint, as the property says.
expect_same('control', lambda: plain(**{'c': 1}), TypeError, lambda e: None)

# 1. Caller supplies an (unexpected) keyword whose name contains braces:
#    Python raises TypeError("got an unexpected keyword argument '{x}'"), Gin
#    turns it into KeyError('x').
expect_same("plain(**{'{x}': 1})", lambda: plain(**{'{x}': 1}), TypeError,
            lambda e: None)

# 2. A **kwargs configurable (the name is legal there) called without its
#    positional arguments: TypeError("missing 2 required ...") becomes
#    ValueError("unexpected '{' in field name").
expect_same("with_kwargs(**{'max{': 3})",
            lambda: with_kwargs(**{'max{': 3}), TypeError, is_missing_args)

# 3. The braces can also come from the configuration side.
gin.bind_parameter('with_kwargs.{0}', 5)
expect_same("bind_parameter('with_kwargs.{0}', 5); with_kwargs()",
            with_kwargs, TypeError, is_missing_args)

print('PASS')
