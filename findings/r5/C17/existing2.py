"""C17, pre-existing defect 2 (unchanged tree; borderline - the attribute is a
dunder, but it is part of the documented data of every exception): the explicit
cause of an exception raised inside a configurable is lost.

    raise ConfigError('cannot load') from os_error       # inside a configurable

reaches the caller with `e.__cause__ is None` and `e.__suppress_context__ ==
False`, whereas on the original they are `os_error` and `True`.  Code such as
`except ConfigError as e: if isinstance(e.__cause__, FileNotFoundError): ...`
silently takes the wrong branch, and `raise X from None` no longer suppresses
anything (the original is chained as `__context__` instead).

Cause: gin/utils.py, `_make_exception_proxy`.  The stand-in is a new object;
C-level fields are copied over by the loop over getset/member descriptors, but
that loop skips every name starting with `__` (`if name.startswith('__'):
continue`), so `__cause__` / `__suppress_context__` are never copied, and the
`__getattr__` fallback is never consulted for them because the stand-in has
its own (empty) slots.  `augment_exception_message_and_reraise` then raises the
stand-in without `from`.
"""
import gin


class ConfigError(Exception):
  pass


@gin.configurable
def load(path='/nonexistent/x.cfg'):
  try:
    open(path)
  except OSError as os_error:
    raise ConfigError('cannot load %s' % path) from os_error


@gin.configurable
def load_quietly(path='/nonexistent/x.cfg'):
  try:
    open(path)
  except OSError:
    raise ConfigError('cannot load %s' % path) from None


@gin.configurable
def app(cfg=None):
  return cfg


def originals():
  out = []
  for fn in (load.__wrapped__, load_quietly.__wrapped__):
    try:
      fn()
    except ConfigError as e:
      out.append(e)
  return out

orig_cause, orig_quiet = originals()
assert isinstance(orig_cause.__cause__, FileNotFoundError)
assert orig_quiet.__cause__ is None and orig_quiet.__suppress_context__

gin.parse_config('app.cfg = @load()')
for label, thunk in (('direct', load), ('via reference', app)):
  try:
    thunk()
  except ConfigError as e:
    assert isinstance(e.__cause__, FileNotFoundError), (
        '%s: original has __cause__ = FileNotFoundError(...), the exception '
        'delivered by Gin has __cause__ = %r' % (label, e.__cause__))
    assert e.__cause__.errno == orig_cause.__cause__.errno
    assert e.__suppress_context__ is True, (label, e.__suppress_context__)

try:
  load_quietly()
except ConfigError as e:
  assert e.__suppress_context__ is True, (
      '`raise ... from None`: original has __suppress_context__ = True, the '
      'exception delivered by Gin has %r' % e.__suppress_context__)

print('PASS')
