"""Pre-existing defect (unchanged library): a READ of the operative config
modifies the shared records it is reading, and can fail outright.

Property (C18): ... no call or read fails ..., every read parses ...

Setting (all legal, public API only):
  * `K` is a class made configurable with `@gin.configurable`, one of whose
    methods is registered with `@gin.register` (so it can be configured as
    `K.m.p = ...` and obtained with `gin.get_configurable('K.m')`);
  * a macro is bound to a SCOPED reference to the class: `MAC = @sc/K`;
  * the program calls the method through Gin, then a configurable that uses the
    macro, then reads the operative config.

`gin.operative_config_str()` raises
    RuntimeError: dictionary keys changed during iteration
with a single thread -- no concurrency is needed.

Cause (gin/config.py): `_config_str` iterates `_OPERATIVE_CONFIG.items()` in its
"macros" loop (~line 2256) and, for each macro, calls
`_is_literally_representable(value)` -> `_format_value` -> `parse_value(repr(value))`.
Parsing '@sc/K' back builds a new `ConfigurableReference`, whose `initialize()`
calls `_decorate_with_scope` -> `_decorate_fn_or_cls(..., avoid_class_mutation=True,
decorate_methods=True)` -> `_find_registered_methods(K, selector)` (~line 472).
That function finds `K.m` in `_INVERSE_REGISTRY` and runs its "rename the method
under the class" step AGAIN (it is not idempotent-by-no-op): it pops and re-adds
the method in `_REGISTRY`, and pops and re-inserts the method's entries in
`_CONFIG`, `_CONFIG_PROVENANCE` and `_OPERATIVE_CONFIG` (lines ~507-515) -- i.e.
it mutates the very dict the read is iterating over (and it does so without
regard to `_OPERATIVE_CONFIG_LOCK` semantics for the other two records).
See existing2.py for what this does to a concurrent caller.
"""
import gin


@gin.configurable
class K:

  def __init__(self, z=0):
    self.z = z

  @gin.register
  def m(self, p=1):
    return p


@gin.configurable
def h(k=None):
  return k


def main():
  gin.clear_config()
  gin.parse_config("""
    MAC = @sc/K
    h.k = %MAC
    K.m.p = 7
  """)
  obj = K()
  assert gin.get_configurable('K.m')(obj) == 7  # recorded first
  assert h() is not None                        # the macro is recorded second

  try:
    text = gin.operative_config_str()
  except RuntimeError as e:
    raise AssertionError(
        'C18 violated (pre-existing): reading the operative config failed: %r -- '
        'the read itself re-registered K.m and re-inserted its record into '
        '_OPERATIVE_CONFIG while iterating over it' % (e,))

  # Every read parses, and reading is repeatable.
  assert text == gin.operative_config_str()
  gin.clear_config()
  gin.parse_config(text)
  assert gin.query_parameter('K.m.p') == 7
  gin.clear_config()
  print('PASS')


if __name__ == '__main__':
  main()
