"""Pre-existing defect (unchanged library): a call fails only because another
thread is READING the operative config.

Property (C18): configurables may be called, and the operative config read,
from several threads at once: under every interleaving (statement granularity
inside Gin) no call or read fails because of another thread.

Setting (public API only):
  * `K` is a `@gin.configurable` class with a `@gin.register`ed method `m`;
  * `h.k = @sc/K` (a SCOPED reference to the class) and `h` has been called, so
    the operative config holds that reference as a value;
  * thread R calls `gin.operative_config_str()`;
  * thread C calls the method through Gin: `gin.get_configurable('K.m')(obj)`.

Interleavings explored: R is stopped before its k-th statement inside Gin (for
every k), C runs, R is let go again.

Observed on the unchanged tree: for the k's that fall inside
`_find_registered_methods` / `SelectorMap.pop` .. `SelectorMap.__setitem__`,
C dies with `KeyError: '__main__.K.m'` raised from `_REGISTRY.get_match`.

Cause (gin/config.py): to decide whether the recorded value `@sc/K` is
"literally representable", the reader parses its repr back
(`_format_value` -> `parse_value`), which builds a new `ConfigurableReference`;
its `initialize()` calls `_decorate_with_scope` -> `_decorate_fn_or_cls(...,
avoid_class_mutation=True, decorate_methods=True)` -> `_find_registered_methods`
(~line 472), which re-runs the "rename method under its class" step every time:
`_REGISTRY.pop(old_selector)` followed by `_REGISTRY[new_selector] = ...`
(lines ~508-509), plus pop/re-insert of the method's entries in `_CONFIG`,
`_CONFIG_PROVENANCE` and `_OPERATIVE_CONFIG` (lines ~513-515).  So a mere read of
the operative config takes a registered configurable out of the shared registry
for a while (and its bindings out of `_CONFIG` for the duration of one
statement); none of this is covered by `_OPERATIVE_CONFIG_LOCK` from the
caller's side.
"""
import os
import sys
import threading
import traceback

import gin

GIN_DIR = os.path.dirname(os.path.abspath(gin.__file__))


@gin.configurable
class K:

  def __init__(self, z=0):
    self.z = z

  @gin.register
  def m(self, p=1):
    return p


@gin.configurable
def h(k=None):
  return k


OBJ = K()


def setup():
  gin.clear_config()
  gin.parse_config("""
    h.k = @sc/K
    K.m.p = 7
  """)
  h()


class Preempt:
  """Stops the traced thread just before its k-th statement inside Gin."""

  def __init__(self, k):
    self.k = k
    self.count = 0
    self.fired = False
    self.where = None
    self.paused = threading.Event()
    self.resume = threading.Event()

  def global_trace(self, frame, event, arg):
    if not frame.f_code.co_filename.startswith(GIN_DIR):
      return None
    return self.local_trace

  def local_trace(self, frame, event, arg):
    if event == 'line':
      if self.count == self.k and not self.fired:
        self.fired = True
        self.where = '%s:%d' % (frame.f_code.co_name, frame.f_lineno)
        self.paused.set()
        self.resume.wait()
      self.count += 1
    return self.local_trace


def run_reader(p, box):
  sys.settrace(p.global_trace)
  try:
    box['result'] = gin.operative_config_str()
  except BaseException as e:  # pylint: disable=broad-except
    box['error'] = e
    box['tb'] = traceback.format_exc()
  finally:
    sys.settrace(None)
    p.paused.set()


def run_caller(box):
  try:
    box['result'] = gin.get_configurable('K.m')(OBJ)
  except BaseException as e:  # pylint: disable=broad-except
    box['error'] = e
    box['tb'] = traceback.format_exc()


def main():
  # Sequential reference.
  setup()
  assert gin.get_configurable('K.m')(OBJ) == 7
  expected = gin.operative_config_str()
  setup()
  gin.operative_config_str()
  assert gin.get_configurable('K.m')(OBJ) == 7
  assert gin.operative_config_str() == expected

  setup()
  p = Preempt(10**9)
  run_reader(p, {})
  n = p.count

  for k in range(n):
    setup()
    p = Preempt(k)
    rbox, cbox = {}, {}
    r = threading.Thread(target=run_reader, args=(p, rbox))
    c = threading.Thread(target=run_caller, args=(cbox,))
    r.start()
    p.paused.wait()
    c.start()
    c.join(0.02)  # C may legitimately block on the lock R holds.
    p.resume.set()
    r.join(10)
    c.join(10)
    assert not r.is_alive() and not c.is_alive(), 'hang at k=%d (%s)' % (k, p.where)
    assert 'error' not in cbox, (
        'C18 violated (pre-existing): the call `gin.get_configurable("K.m")(obj)` '
        'failed only because another thread was reading the operative config '
        '(reader stopped before %s, k=%d of %d):\n%s' %
        (p.where, k, n, cbox.get('tb')))
    assert cbox['result'] == 7, cbox['result']
    assert 'error' not in rbox, 'read failed:\n%s' % rbox.get('tb')
    final = gin.operative_config_str()
    assert final == expected, (final, expected)

  gin.clear_config()
  print('explored %d interleavings' % n)
  print('PASS')


if __name__ == '__main__':
  main()
