"""C20 finding (unchanged tree): clear_config() never returns (self-deadlock) when the operative record held the last
reference to an object whose finalizer calls a configurable.

clear_config() ends with

    with _OPERATIVE_CONFIG_LOCK:          # a plain threading.Lock, not re-entrant
      _OPERATIVE_CONFIG.clear()

A bound value that a call has used is referenced by the store AND by the operative record; `_CONFIG.clear()` drops the
first reference, `_OPERATIVE_CONFIG.clear()` the last one -- while the lock is held.  The object's finalizer runs right
there; if it calls any configurable, the call wrapper tries to take `_OPERATIVE_CONFIG_LOCK` to record the call and
blocks forever on the lock its own thread holds.  Property C20: "after any history of parsing, binding, calls, ...
clear_config() succeeds".

Run: PYTHONPATH=/repo /venv/bin/python -B findings/r5/C20-clear-never-returns-when-operative-value-finalizer-calls-configurable.py
     (exit 1 = defect present: clear_config had not returned after 5 s)
"""
import os
import threading

import gin


@gin.configurable
def release(name='h', flush=True):
  return name, flush


@gin.configurable
def use(handle=None):
  return 1


class Handle(object):
  """a resource that is released (through a configurable) when nobody holds it any more"""

  def __del__(self):
    release()


gin.bind_parameter('use.handle', Handle())
use()                                   # the operative record now references the handle as well
t = threading.Thread(target=gin.clear_config, daemon=True)
t.start()
t.join(5)
if t.is_alive():
  print('DEFECT PRESENT: clear_config() has not returned after 5 s (blocked on _OPERATIVE_CONFIG_LOCK in Handle.__del__)')
  os._exit(1)
print('ok')
