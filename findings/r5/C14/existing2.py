"""C14 (skip_unknown clause), pre-existing: skip_unknown=True can crash on an
import instead of skipping it or reporting the ImportError.

Property: "every parsing entry point treats unknown names as errors unless
skip_unknown is passed" -- i.e. with skip_unknown passed, an import that cannot
be satisfied is skipped (that is what parse_config documents: "whether unknown
configurables and imports should be skipped (instead of causing an error)"),
and without it the ImportError is raised.

Cause (unchanged tree): gin/config.py, _print_unknown_import_message():
`exception_modules = exception.name.split('.')`. `ImportError.name` is None
whenever the ImportError was raised by hand without `name=` (very common:
`raise ImportError('please install foo')` in a module guarding an optional
dependency). parse_config catches the ImportError because skip_unknown is set,
calls _print_unknown_import_message(), and that raises
AttributeError("'NoneType' object has no attribute 'split'"). The same happens
through parse_config_file / include / parse_config_files_and_bindings, since
they all funnel into parse_config.
"""

import os
import sys
import tempfile

import gin


@gin.configurable
def consumer(x=None):
  return x


tmp = os.path.realpath(tempfile.mkdtemp(prefix='c14existing2_'))
with open(os.path.join(tmp, 'c14_optional_dep.py'), 'w') as f:
  f.write("raise ImportError('optional dependency is not installed')\n")
with open(os.path.join(tmp, 'inc.gin'), 'w') as f:
  f.write('import c14_optional_dep\nconsumer.x = 1\n')
with open(os.path.join(tmp, 'root.gin'), 'w') as f:
  f.write("include 'inc.gin'\n")
sys.path.append(tmp)
gin.add_config_file_search_path(tmp)

# Without skip_unknown: the ImportError is reported (this works).
gin.clear_config()
try:
  gin.parse_config_file('root.gin')
except ImportError:
  pass
else:
  raise AssertionError('unsatisfiable import must be an error by default')

# With skip_unknown: the import is skipped and the rest is applied.
gin.clear_config()
try:
  gin.parse_config_files_and_bindings(['root.gin'], None, skip_unknown=True,
                                      finalize_config=False)
except Exception as e:  # pylint: disable=broad-except
  raise AssertionError(
      'skip_unknown=True must skip the unsatisfiable import, but parsing '
      'raised %s: %s' % (type(e).__name__, str(e).splitlines()[0]))
assert consumer() == 1, consumer()

print('PASS')
