"""C14, pre-existing: resolution can abort with a foreign exception.

Property: "A relative file name is resolved by trying each search location in
the order registered (current directory first) and within a location each
registered reader in order, ... package-relative names resolve through the
Python path, and a name nobody can read raises an IOError naming the locations
searched and applies nothing from it."

Cause (unchanged tree): gin/resource_reader.py, system_path_file_exists() /
_parse_config_path(). For a relative name 'pkg/sub/x.gin' that the default
reader cannot find in a location, the package reader calls
importlib.util.find_spec('pkg.sub'), which IMPORTS the parent package 'pkg' if
something of that name is importable. system_path_file_exists() only catches
(ModuleNotFoundError, ValueError, ImportError); anything else the package's
__init__ raises (RuntimeError, AttributeError, SyntaxError, SystemExit, ...)
escapes from gin.parse_config_file(). So

  (a) a file that IS readable in a later search location is never reached (the
      search does not continue to the next reader/location), and
  (b) a name nobody can read raises that foreign exception instead of the
      IOError that names the searched locations.

The directory name merely has to coincide with an importable package whose
import fails for a reason other than ImportError.
"""

import os
import sys
import tempfile

import gin


@gin.configurable
def consumer(x=None):
  return x


tmp = os.path.realpath(tempfile.mkdtemp(prefix='c14existing1_'))
pypath = os.path.join(tmp, 'pypath')
configs = os.path.join(tmp, 'configs')

# An importable package 'proj' whose import fails, but not with ImportError.
os.makedirs(os.path.join(pypath, 'proj', 'settings'))
with open(os.path.join(pypath, 'proj', '__init__.py'), 'w') as f:
  f.write("raise RuntimeError('proj needs an accelerator at import time')\n")
with open(os.path.join(pypath, 'proj', 'settings', '__init__.py'), 'w') as f:
  f.write('')
sys.path.append(pypath)

# A plain directory tree with the config, registered as a search location.
os.makedirs(os.path.join(configs, 'proj', 'settings'))
with open(os.path.join(configs, 'proj', 'settings', 'x.gin'), 'w') as f:
  f.write('consumer.x = 1\n')
gin.add_config_file_search_path(configs)

os.chdir(tmp)  # The current directory has no proj/settings/x.gin.

# (a) Present in the second location: must be found there.
gin.clear_config()
try:
  gin.parse_config_file('proj/settings/x.gin')
except IOError:
  raise
except Exception as e:  # pylint: disable=broad-except
  raise AssertionError(
      'proj/settings/x.gin is readable in the registered search location %r, '
      'but resolution aborted in the first location with %s: %s' %
      (configs, type(e).__name__, e))
assert consumer() == 1

# (b) Present nowhere: must be an IOError naming the locations searched.
gin.clear_config()
try:
  gin.parse_config_file('proj/settings/missing.gin')
except IOError as e:
  assert 'Searched config paths' in str(e), e
except Exception as e:  # pylint: disable=broad-except
  raise AssertionError(
      'a name nobody can read must raise IOError naming the locations '
      'searched, got %s: %s' % (type(e).__name__, e))
else:
  raise AssertionError('missing file did not raise')

print('PASS')
