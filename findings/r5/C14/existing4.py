"""C14, pre-existing, OUTSIDE THE STATED QUANTIFIER (needs two threads): the
per-file parse context is kept on one process-wide stack.

Property: "include 'f' has the effect of the included file's statements being
applied at that point, before the rest of the including file ..." -- parsing a
file (and everything it includes) is expected to give the same result as its
flattened text, whatever else goes on.

Cause (unchanged tree): gin/config.py, `_PARSE_CONTEXTS` (a plain module-level
list), `_parse_scope()` (append / pop) and `_parse_context()`
(`_PARSE_CONTEXTS[-1]`). The scope manager for config scopes is thread-local,
the parse-context stack is not. When two threads parse files at the same time,
"the context of the file being parsed" is whichever context was pushed last by
ANY thread, so a file that uses dynamic registration resolves its names through
the imports of a file parsed by another thread (and `pop()` removes the other
thread's context). Below, thread A is parked inside an `include` (its reader's
existence check blocks), thread B starts parsing its own file and is parked the
same way, then A is released: the statement after A's include is resolved with
B's symbol table and fails, although a.gin is perfectly valid on its own.
"""

import io
import os
import sys
import tempfile
import threading

import gin
from gin import config

tmp = os.path.realpath(tempfile.mkdtemp(prefix='c14existing4_'))
for mod in ('c14_mod_a', 'c14_mod_b'):
  with open(os.path.join(tmp, mod + '.py'), 'w') as f:
    f.write('def fn(x=None):\n  return x\n')
for tag in ('a', 'b'):
  with open(os.path.join(tmp, tag + '.gin'), 'w') as f:
    f.write('from __gin__ import dynamic_registration\n'
            'import c14_mod_{0}\n'
            "include 'gate_{0}.gin'\n"
            'c14_mod_{0}.fn.x = 1\n'.format(tag))
sys.path.append(tmp)
gin.add_config_file_search_path(tmp)

at_gate = {'gate_a.gin': threading.Event(), 'gate_b.gin': threading.Event()}
release = {'gate_a.gin': threading.Event(), 'gate_b.gin': threading.Event()}


def gate_exists(path):
  name = os.path.basename(path)
  if name not in at_gate or os.path.dirname(path) != tmp:
    return False
  at_gate[name].set()
  assert release[name].wait(30), 'demo timed out'
  return True


def gate_reader(path):
  stream = io.StringIO('# nothing\n')
  stream.name = path
  return stream


config.register_file_reader(gate_reader, gate_exists)

errors = {}


def parse(tag):
  try:
    gin.parse_config_file(tag + '.gin')
  except Exception as e:  # pylint: disable=broad-except
    errors[tag] = e


# Sanity: each file parses on its own.
for tag in ('a', 'b'):
  release['gate_%s.gin' % tag].set()
  parse(tag)
  release['gate_%s.gin' % tag].clear()
  at_gate['gate_%s.gin' % tag].clear()
assert not errors, errors
gin.clear_config()

thread_a = threading.Thread(target=parse, args=('a',))
thread_b = threading.Thread(target=parse, args=('b',))
thread_a.start()
assert at_gate['gate_a.gin'].wait(30)  # A is parked inside its include.
thread_b.start()
assert at_gate['gate_b.gin'].wait(30)  # B is parked inside its include.
release['gate_a.gin'].set()  # A finishes first ...
thread_a.join(30)
release['gate_b.gin'].set()  # ... then B.
thread_b.join(30)

assert not errors, (
    'a.gin and b.gin are valid on their own, but parsed from two threads: ' +
    '; '.join('%s.gin -> %s: %s' % (tag, type(e).__name__,
                                    str(e).splitlines()[0])
              for tag, e in sorted(errors.items())))
import c14_mod_a  # pylint: disable=g-import-not-at-top
import c14_mod_b  # pylint: disable=g-import-not-at-top
assert gin.get_bindings(c14_mod_a.fn) == {'x': 1}
assert gin.get_bindings(c14_mod_b.fn) == {'x': 1}

print('PASS')
