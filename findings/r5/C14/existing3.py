"""C14, pre-existing, BORDERLINE (documentation/contract mismatch): the list of a
file's imports contains the pseudo-module '__gin__.dynamic_registration'.

Property: "the value returned from parsing mirrors the include tree and lists
each file's imports".

parse_config documents its second return value as "List of names of imported
modules", and the code that builds it says (gin/config.py, end of
parse_config): "Using the context's recorded imports ignores any
`from __gin __ ...` statements used to enable e.g. dynamic registration."
But ParseContext.process_import() (gin/config.py) appends the statement to
`self._imports` for the `__gin__` branch as well (the append sits after the
if/else, not inside the else), so the returned list -- and the `imports` field
of every ParsedConfigFileIncludesAndImports -- contains
'__gin__.dynamic_registration', which is not a module and cannot be imported.

Whether this counts as a violation depends on whether the feature switch is
regarded as one of "the file's imports"; the library's own comment says it is
meant to be ignored.
"""

import importlib
import os
import tempfile

import gin

tmp = os.path.realpath(tempfile.mkdtemp(prefix='c14existing3_'))
with open(os.path.join(tmp, 'dyn.gin'), 'w') as f:
  f.write('from __gin__ import dynamic_registration\nimport io\n')
with open(os.path.join(tmp, 'root.gin'), 'w') as f:
  f.write("include 'dyn.gin'\nimport time\n")
gin.add_config_file_search_path(tmp)

result = gin.parse_config_file('root.gin')
assert result.imports == ['time'], result
listed = list(result.includes[0].imports)
for name in listed:
  try:
    importlib.import_module(name)
  except ImportError:
    raise AssertionError(
        'imports of dyn.gin are listed as %r; %r is not an imported module '
        "(expected ['io'])" % (listed, name))
assert listed == ['io'], listed

print('PASS')
