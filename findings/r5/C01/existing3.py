"""Existing defect 3 (C01): configurable function underneath a functools.wraps
decorator -- caller's positional value collides with a binding.

Same root cause as existing2: `gin_wrapper` names the caller's positional
arguments via `_get_supplied_positional_parameter_names` ->
`_get_cached_arg_spec` -> `inspect.getfullargspec(fn)`, which does not follow
`__wrapped__`, so for a `functools.wraps`-decorated function it sees only
`(*args, **kwargs)`.  The binding is accepted (`_might_have_parameter` unwraps
`__wrapped__`), applied when the parameter is omitted, but NOT dropped when the
caller supplies the parameter positionally -> TypeError "multiple values".
(gin's own error text hints at this limitation for gin.REQUIRED, but nothing
stops ordinary bindings from hitting it.)
"""
import functools

import gin


def logged(fn):

  @functools.wraps(fn)
  def wrapper(*args, **kwargs):
    return fn(*args, **kwargs)

  return wrapper


@gin.configurable
@logged
def wrapped(a, b='default-b'):
  return a, b


gin.clear_config()
gin.bind_parameter('wrapped.a', 'bound-a')

assert wrapped() == ('bound-a', 'default-b')
assert wrapped(a='caller-a') == ('caller-a', 'default-b')
try:
  got = wrapped('caller-a')
except TypeError as e:
  raise AssertionError(
      'C01 violated: the caller passed a positionally, so a="caller-a" must '
      'reach the function and override the binding wrapped.a; instead: %s' % e)
assert got == ('caller-a', 'default-b'), got
print('PASS')
