"""Existing defect 6 (C01, lower confidence / arguably by design): a class whose
`__new__` is found first in the MRO while `__init__` (taking the same
parameters) is inherited from a base class.

`_find_class_construction_fn` returns the first `__init__` OR `__new__` found
walking the MRO, and `@gin.configurable` wraps only that one function.  Python
passes the constructor arguments to both `__new__` and `__init__`; gin injects
the bound values only into the wrapped `__new__`, after which `type.__call__`
calls the (unwrapped) inherited `__init__` with the caller's original arguments
only.  The bound parameter therefore silently falls back to `__init__`'s
default although a binding applies and the caller passed nothing.
"""
import gin


class Plain:

  def __init__(self, x='default-x'):
    self.x = x


@gin.configurable
class Derived(Plain):

  def __new__(cls, x='default-x'):
    return super().__new__(cls)


gin.clear_config()
gin.bind_parameter('Derived.x', 'bound-x')
obj = Derived()
assert obj.x == 'bound-x', (
    'C01 violated: Derived.x is bound and the caller passed nothing, yet the '
    'instance was initialised with x=%r (only __new__ received the binding)'
    % (obj.x,))
print('PASS')
