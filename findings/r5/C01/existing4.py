"""Existing defect 4 (C01): bound methods / classmethods / callable instances
registered as configurables -- positional names are shifted by one.

`inspect.getfullargspec` (used by `_get_cached_arg_spec`) keeps the bound first
parameter (`self` / `cls`) in `.args` for bound methods and callable instances,
but the caller of course does not pass it.  `arg_spec.args[:len(args)]` in
`_get_supplied_positional_parameter_names` therefore names the caller's first
positional value 'self', the second 'a', ...: the binding for the parameter the
caller supplied last is not dropped, so it is forwarded as well and the call
fails with TypeError "multiple values for argument".
"""
import gin


class Worker:

  def method(self, a='default-a', b='default-b'):
    return a, b

  @classmethod
  def cmethod(cls, a='default-a', b='default-b'):
    return a, b

  def __call__(self, a='default-a', b='default-b'):
    return a, b


bound = gin.external_configurable(Worker().method, name='bound_method')
cmeth = gin.external_configurable(Worker.cmethod, name='class_method')
inst = gin.external_configurable(Worker(), name='callable_instance')

gin.clear_config()
failures = []
for name, fn in [('bound_method', bound), ('class_method', cmeth),
                 ('callable_instance', inst)]:
  gin.bind_parameter(name + '.a', 'bound-a')
  assert fn() == ('bound-a', 'default-b'), fn()
  try:
    got = fn('caller-a')
    if got != ('caller-a', 'default-b'):
      failures.append('%s: got %r' % (name, got))
  except TypeError as e:
    failures.append('%s: %s' % (name, str(e).splitlines()[0]))

assert not failures, (
    'C01 violated: a positionally supplied parameter must take the caller\'s '
    'value and the others their bindings:\n  ' + '\n  '.join(failures))
print('PASS')
