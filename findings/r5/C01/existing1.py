"""Existing defect 1 (C01): a positional-only parameter that has a binding.

`def f(a, /, b=2)` is a legal callable shape.  `gin.bind_parameter('f.a', ...)`
is accepted (`_might_have_parameter` uses `inspect.getfullargspec(fn).args`,
which lists positional-only parameters too), but `gin_wrapper` delivers every
bound value by keyword (`fn(*new_args, **new_kwargs)` in
gin/config.py::_make_gin_wrapper), which Python rejects for a positional-only
parameter.  So a parameter with an applicable binding and no caller value does
not receive the bound value: the call raises TypeError instead.
"""
import gin


@gin.configurable
def posonly(a, /, b='default-b'):
  return a, b


gin.clear_config()
gin.bind_parameter('posonly.a', 'bound-a')
gin.bind_parameter('scope/posonly.b', 'scoped-b')

# Caller value wins and is fine (sanity).
assert posonly('caller-a') == ('caller-a', 'default-b')

try:
  with gin.config_scope('scope'):
    got = posonly()
except TypeError as e:
  raise AssertionError(
      'C01 violated: posonly.a has a binding and the caller passed nothing, so '
      'the function must be called with a="bound-a"; instead: %s' % e)
assert got == ('bound-a', 'scoped-b'), got
print('PASS')
