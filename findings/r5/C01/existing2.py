"""Existing defect 2 (C01): configurable subclass inheriting a configurable
base class's __init__ -- caller's positional value collides with a binding.

`Sub` has no `__init__` of its own, so `_find_class_construction_fn(Sub)` is
`Base.__init__`, which by then is Base's gin wrapper.  `_make_gin_wrapper`
takes the signature from `_get_cached_arg_spec(signature_fn)`, i.e.
`inspect.getfullargspec`, which does NOT follow `__wrapped__` and therefore
reports `(*args, **kwargs)` (whereas `_might_have_parameter`, used to validate
the binding, DOES unwrap).  `_get_supplied_positional_parameter_names` returns
[] and the binding for a parameter the caller passed positionally is not
dropped: both are forwarded and the call dies with "multiple values for
argument".  C01 demands that the caller's positional value wins.
"""
import gin


@gin.configurable
class Base:

  def __init__(self, x='default-x', y='default-y'):
    self.x, self.y = x, y


@gin.configurable
class Sub(Base):
  pass


gin.clear_config()
gin.bind_parameter('Sub.x', 'bound-x')
gin.bind_parameter('Sub.y', 'bound-y')

s = Sub()
assert (s.x, s.y) == ('bound-x', 'bound-y')
s = Sub(x='caller-x')  # by keyword the caller wins, as required
assert (s.x, s.y) == ('caller-x', 'bound-y')

try:
  s = Sub('caller-x')
except TypeError as e:
  raise AssertionError(
      'C01 violated: the caller passed x positionally, so x="caller-x" must '
      'reach Sub/Base.__init__ and override the binding Sub.x; instead: %s' % e)
assert (s.x, s.y) == ('caller-x', 'bound-y'), (s.x, s.y)
print('PASS')
