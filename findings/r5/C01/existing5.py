"""Existing defect 5 (C01): a constructor parameter called `new_cls` on a class
made configurable with gin.register / gin.external_configurable.

For these classes gin wraps the metaclass's __call__ with
`meta_call_wrapper(new_cls, *args, **kwargs)` (gin/config.py::
_make_meta_call_wrapper).  The wrapper's own first parameter is an ordinary
positional-or-keyword parameter named `new_cls`, so a constructor parameter of
that name -- whether bound in the config or passed by the caller by keyword --
collides with it: TypeError "got multiple values for argument 'new_cls'".
"""
import gin


class Factory:

  def __init__(self, new_cls='default', other='default-other'):
    self.new_cls, self.other = new_cls, other


ConfigurableFactory = gin.external_configurable(Factory)

gin.clear_config()
gin.bind_parameter('Factory.other', 'bound-other')
try:
  obj = ConfigurableFactory(new_cls='caller')
except TypeError as e:
  raise AssertionError(
      'C01 violated: the caller passed new_cls="caller" by keyword; it must '
      'reach Factory.__init__ unchanged; instead: %s' % e)
assert (obj.new_cls, obj.other) == ('caller', 'bound-other')

gin.bind_parameter('Factory.new_cls', 'bound')
try:
  obj = ConfigurableFactory()
except TypeError as e:
  raise AssertionError(
      'C01 violated: Factory.new_cls is bound and not supplied by the caller; '
      'it must receive "bound"; instead: %s' % e)
assert (obj.new_cls, obj.other) == ('bound', 'bound-other')
print('PASS')
