"""Found while strengthening C17 (engine new-state, mutant C17-m12); present on the UNCHANGED tree.

Gin builds the stand-in it raises by calling the exception class (through a subclass) with the
original's `.args`, which runs the class's own `__new__` a second time -- with `.args`, not with the
constructor's arguments.  Whatever that second `__new__` writes into the stand-in's `__dict__` is then
overwritten by `proxy.__dict__.update(vars(original))` -- but only for names the ORIGINAL's `__dict__`
holds as well.  A name `__new__` sets on the stand-in and did not set on the original (it sets it only
when given an argument; the original was built without one and `__init__` handed a formatted message
to `super().__init__`, so `.args` is not empty) stays in the stand-in's `__dict__`, and there it
shadows the class-level attribute of that name, which is what the original reads.

C17: "... with every public attribute readable on the original ... reading the same".  `detail` is
readable on the original (None, the class-level default); the caller reads the message string.

The same happens when the raising code deletes an instance attribute `__new__` had set (re-exposing
the class-level default) before it raises.  Names with no class-level counterpart are not readable on
the original at all, so the property says nothing about them (only `hasattr` differs).

Candidate repair (gin/utils.py, _make_exception_proxy): make the stand-in's instance dict a copy of the
original's instead of a superset of it -- `proxy.__dict__.clear()` before the `update`.

Run: PYTHONPATH=/repo /venv/bin/python -B findings/r5/C17-new-attribute-original-lacks.py
Prints DEFECT and exits 1 while the behaviour is present.
"""
import sys

import gin


class DetailError(Exception):
  detail = None          # class-level default: "no detail known"

  def __new__(cls, *args, **kw):
    self = super().__new__(cls, *args)
    if args:
      self.detail = args[0]      # stored per instance only when a detail is given
    return self

  def __init__(self, *args):
    super().__init__('failed: %s' % (args[0] if args else 'no detail given'))


original = DetailError()
assert original.detail is None and original.args == ('failed: no detail given',)


@gin.configurable
def step():
  raise original


try:
  step()
except DetailError as caught:
  assert str(caught).startswith(str(original)) and "'step'" in str(caught), str(caught)
  assert caught.args == original.args
  if caught.detail != original.detail:
    print('DEFECT: original.detail is %r, the caller reads %r' % (original.detail, caught.detail))
    sys.exit(1)
print('PASS')
