"""C20, pre-existing: clear_config() inside `with gin.unlock_config():` does not
leave an unlocked configuration.

Sequence: parse, finalize (config locked), then

    with gin.unlock_config():
      gin.clear_config()

clear_config() resets the lock flag, but unlock_config() remembered
`config_was_locked = True` on entry (gin/config.py, unlock_config(), ~l.2706)
and unconditionally restores it in its `finally:` (~l.2711).  So right after the
`with` block the *cleared* configuration is locked again: bind_parameter /
parse_config raise "Attempted to modify locked Gin config", whereas in a fresh
process (where `with gin.unlock_config(): pass` is a no-op) they succeed.  The
saved flag is hidden state of the earlier history that clear_config() does not
reset.
"""
import gin


@gin.configurable
def ex1_fn(x=1):
  return x


# Fresh-process reference behaviour.
with gin.unlock_config():
  gin.clear_config()
assert not gin.config_is_locked()
gin.bind_parameter('ex1_fn.x', 2)
assert ex1_fn() == 2
gin.clear_config()

# History: parse + finalize, i.e. a locked configuration.
gin.parse_config('ex1_fn.x = 5')
gin.finalize()
assert gin.config_is_locked()

with gin.unlock_config():
  gin.clear_config()
  assert not gin.config_is_locked()
  assert gin.config_str() == ''

assert gin.config_str() == ''
assert not gin.config_is_locked(), (
    'configuration cleared by clear_config() is locked again after leaving '
    'unlock_config(): a fresh process would be unlocked')
gin.bind_parameter('ex1_fn.x', 2)
assert ex1_fn() == 2
gin.clear_config()
print('PASS')
