"""C20, pre-existing (needs a thread interleaving): a singleton whose
constructor is running while clear_config() executes is cached *after* the
clear.

singleton_value() (gin/config.py ~l.2850) holds _SINGLETONS_LOCK around
"look up, else construct and store", but clear_config() does
`_SINGLETONS.clear()` (~l.1055) without taking that lock.  If another thread is
inside the constructor at that moment, clear_config() returns at once and the
thread then stores the object -- built from the pre-clear configuration --
into the freshly cleared cache.  After everything has settled the process has a
cached singleton although clear_config() was the last configuration operation
to start changing state; a fresh process has none
(singleton_value(key) raises ValueError) and would build the singleton from the
*current* (empty) configuration.
"""
import threading

import gin
from gin import config


@gin.configurable
def ex2_make(tag='default'):
  return ['singleton built with', tag]


in_constructor = threading.Event()
may_finish = threading.Event()


@gin.configurable
def ex2_slow_constructor():
  value = ex2_make()          # Reads the pre-clear binding tag='old'.
  in_constructor.set()
  may_finish.wait(5)
  return value


@gin.configurable
def ex2_user(dep=None):
  return dep


gin.parse_config("""
ex2_make.tag = 'old'
ex2_user.dep = @shared/singleton()
shared/singleton.constructor = @ex2_slow_constructor
""")

errors = []


def worker():
  try:
    ex2_user()
  except Exception as e:  # pylint: disable=broad-except
    errors.append(e)


t = threading.Thread(target=worker, daemon=True)
t.start()
assert in_constructor.wait(10), ('worker never reached the constructor', errors)

gin.clear_config()            # Returns immediately: does not wait for the lock.
assert gin.config_str() == ''

may_finish.set()
t.join(10)
assert not t.is_alive() and not errors, errors

# Pristine state expected: no cached singleton under any key.
try:
  leaked = config.singleton_value('shared')
except ValueError:
  leaked = None
assert leaked is None, (
    'after clear_config() a cached singleton exists for key "shared": %r '
    '(built from the pre-clear binding); a fresh process has none' % (leaked,))
gin.clear_config()
print('PASS')
