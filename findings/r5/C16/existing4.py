"""C16, pre-existing: a bad import whose module has a Python syntax error is
reported without the gin file and line, at any include depth.

gin/utils.py `try_with_location` (l.99-100) re-raises every SyntaxError untouched
("SyntaxErrors already include location information").  That is true for gin's
own syntax errors, but a SyntaxError (or IndentationError) raised by Python while
importing the module named in an `import` statement carries the location inside
the *Python* file; the gin file, the line of the import statement and the whole
include chain are missing.  (Importing a module is a semantic step: the gin
statement itself is well-formed.)
"""
import os
import sys
import tempfile

import gin


@gin.configurable
def f(x=0, y=0):
  return x, y


tmp = tempfile.mkdtemp()
sys.path.insert(0, tmp)
with open(os.path.join(tmp, 'c16_badsyntax_mod.py'), 'w') as fh:
  fh.write('def oops(:\n  pass\n')
inner = os.path.join(tmp, 'inner.gin')
outer = os.path.join(tmp, 'outer.gin')
with open(inner, 'w') as fh:
  fh.write('f.y = 2\nimport c16_badsyntax_mod\nf.y = 20\n')
with open(outer, 'w') as fh:
  fh.write("f.x = 1\ninclude '%s'\nf.x = 10\n" % inner)

try:
  gin.parse_config_file(outer)
except SyntaxError as e:
  msg = str(e)
else:
  raise AssertionError('expected SyntaxError')

assert gin.query_parameter('f.x') == 1 and gin.query_parameter('f.y') == 2
for needle in ('inner.gin', 'line 2', 'outer.gin'):
  assert needle in msg and 'import c16_badsyntax_mod' in msg, (
      'the error for the failing import names neither the gin file nor the '
      'line of the import statement nor the include chain (missing %r); '
      'message: %r' % (needle, msg))

print('PASS')
