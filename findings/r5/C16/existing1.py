"""C16, pre-existing: members of a binding block that precede the faulty line are
applied when the fault is semantic but NOT when it is syntactic.

gin treats every member of a block as a statement of its own (each has its own
location, provenance and error line, and with a semantic fault in member 3 the
members 1 and 2 stay applied).  With a *syntactic* fault in member 3 -- or even in
the line that follows a complete block, when that line's indentation is
inconsistent -- members 1 and 2 are complete statements preceding the fault, yet
none of them has taken effect.

Cause: gin/config_parser.py `_parse_binding_block` (l.468-500) parses the whole
block, up to and including the DEDENT produced by the line after it, before
`parse_statement` (l.247-250) hands out the first member.
"""
import gin


@gin.configurable
def f(x=0, y=0, z=0):
  return x, y, z


@gin.configurable
def g(a=0):
  return a


def state_after(config_text, expected_exception):
  gin.clear_config()
  try:
    gin.parse_config(config_text)
  except expected_exception:
    pass
  else:
    raise AssertionError('expected a failure for:\n' + config_text)
  result = {}
  for key in ('g.a', 'f.x', 'f.y', 'f.z'):
    try:
      result[key] = gin.query_parameter(key)
    except ValueError:
      pass
  return result


prefix_state = {'g.a': 1, 'f.x': 1, 'f.y': 2}

# Semantic fault in the third member: the two members before it are applied.
semantic = state_after(
    'g.a = 1\n'
    'f:\n'
    '  x = 1\n'
    '  y = 2\n'
    '  no_such_param = 3\n'
    'g.a = 5\n', ValueError)
assert semantic == prefix_state, semantic

# Syntactic fault (missing value) in the third member.
syntactic = state_after(
    'g.a = 1\n'
    'f:\n'
    '  x = 1\n'
    '  y = 2\n'
    '  z =\n'
    'g.a = 5\n', SyntaxError)
assert syntactic == prefix_state, (
    'fault in block member 3 (missing value): the preceding members f.x, f.y '
    'were not applied; state is %r, expected %r (as for a semantic fault at the '
    'same position)' % (syntactic, prefix_state))

# A complete block followed by a line with inconsistent indentation.
dedent = state_after(
    'g.a = 1\n'
    'f:\n'
    '    x = 1\n'
    '    y = 2\n'
    '  g.a = 5\n', SyntaxError)
assert dedent == prefix_state, dedent

print('PASS')
