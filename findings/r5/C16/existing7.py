"""C16, pre-existing: a semantic error of type StopIteration loses its type and its
location.

gin/utils.py `try_with_location` (l.94-101) is a generator-based context manager.
When the statement raises StopIteration (here: an imported module calling
`next()` on an exhausted iterator at import time) the handler re-raises a
StopIteration stand-in *inside the generator*, which Python (PEP 479) turns into
`RuntimeError('generator raised StopIteration')`: the original type is gone and
the message names neither file nor line.
"""
import os
import sys
import tempfile

import gin


@gin.configurable
def f(x=0):
  return x


tmp = tempfile.mkdtemp()
sys.path.insert(0, tmp)
with open(os.path.join(tmp, 'c16_stopiter_mod.py'), 'w') as fh:
  fh.write('FIRST = next(iter([]))\n')

try:
  gin.parse_config('f.x = 1\nimport c16_stopiter_mod\nf.x = 2\n')
except BaseException as e:  # pylint: disable=broad-except
  err = e
else:
  raise AssertionError('expected a failure')

assert gin.query_parameter('f.x') == 1
assert isinstance(err, StopIteration), (
    'the StopIteration raised by the import statement surfaced as %s: %s' %
    (type(err).__name__, err))
assert 'In bindings string line 2' in str(err), str(err)

print('PASS')
