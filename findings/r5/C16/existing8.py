"""C16, pre-existing (needs two threads): a failed parse in one thread pops the
per-file import table of a parse that is in progress in another thread.

The stack of parse contexts `_PARSE_CONTEXTS` (gin/config.py l.407) is one
module-level list, `_parse_scope` (l.354-360) pushes on entry and pops *the top*
on exit, and `_parse_context()` (l.350) is "whatever is on top".  Interleaving
    A: push(ctxA) ... B: push(ctxB) ... A fails: pop() -> removes ctxB
leaves B running with A's import table.  Here A's file uses dynamic registration,
so B's perfectly valid second statement `g.a = 2` is resolved through A's imports
and rejected.  (The active-scope stack next to it is thread-local; this one is
not.)  The interleaving is forced with file-like objects whose readline() blocks.
"""
import os
import sys
import tempfile
import threading

import gin


@gin.configurable
def g(a=0):
  return a


tmp = tempfile.mkdtemp()
sys.path.insert(0, tmp)
with open(os.path.join(tmp, 'c16_dyn_mod3.py'), 'w') as fh:
  fh.write('def h(p=1):\n  return p\n')

a_at_line3 = threading.Event()
b_at_line2 = threading.Event()
a_finished = threading.Event()


class Lines:
  """A file-like object running a hook before handing out a given line."""

  def __init__(self, name, lines, hooks):
    self.name, self._lines, self._hooks, self._i = name, lines, hooks, 0

  def readline(self):
    if self._i >= len(self._lines):
      return ''
    self._i += 1
    hook = self._hooks.get(self._i)
    if hook:
      hook()
    return self._lines[self._i - 1]


def a_hook():
  a_at_line3.set()
  assert b_at_line2.wait(10)


def b_hook():
  b_at_line2.set()
  assert a_finished.wait(10)


file_a = Lines('a.gin', ['from __gin__ import dynamic_registration\n',
                         'import c16_dyn_mod3\n',
                         'c16_dyn_mod3.h.no_such_param = 1\n'], {3: a_hook})
file_b = Lines('b.gin', ['g.a = 1\n', 'g.a = 2\n'], {2: b_hook})

outcome = {}


def run_a():
  try:
    gin.parse_config(file_a)
    outcome['a'] = None
  except Exception as e:  # pylint: disable=broad-except
    outcome['a'] = e
  finally:
    a_finished.set()


thread_a = threading.Thread(target=run_a)
thread_a.start()
assert a_at_line3.wait(10)       # A has entered its parse scope, is reading l.3.
try:
  gin.parse_config(file_b)       # B (this thread); blocks at l.2 until A failed.
  outcome['b'] = None
except Exception as e:  # pylint: disable=broad-except
  outcome['b'] = e
thread_a.join()

assert isinstance(outcome['a'], ValueError), outcome['a']   # A fails, as intended.
assert outcome['b'] is None and gin.query_parameter('g.a') == 2, (
    "the parse of b.gin ('g.a = 1', 'g.a = 2': nothing wrong with it) failed "
    "because the failed parse of a.gin in another thread removed b.gin's import "
    "table and left its own in place: %r" % outcome['b'])

print('PASS')
