"""C16, pre-existing: a fault that is an undecodable byte -- nothing of the file is
applied and the error names no file or line.

File `enc.gin` has two good statements and, in the string on line 3, a Latin-1
byte that is not valid UTF-8.  Parsed through `parse_config_file` / `include`
(default reader: text-mode `open`, which decodes a whole buffer ahead of the
tokenizer) the UnicodeDecodeError is raised before the first statement is even
tokenized, so the two preceding statements have not taken effect; the same bytes
handed to `parse_config` as a binary file do apply them (decoding is per line in
gin/config_parser.py `_text_line_reader`, l.193-197).  In neither case does the
message name the file or the line: the error comes out of the parser iteration in
`parse_config` (gin/config.py l.2458), outside every `try_with_location`.
"""
import os
import tempfile

import gin


@gin.configurable
def f(x=0, y=0, z=0):
  return x, y, z


tmp = tempfile.mkdtemp()
path = os.path.join(tmp, 'enc.gin')
with open(path, 'wb') as fh:
  fh.write(b"f.x = 1\nf.y = 2\nf.z = 'caf\xe9'\nf.x = 10\n")

try:
  gin.parse_config("include '%s'\n" % path)
except UnicodeDecodeError as e:
  msg = str(e)
else:
  raise AssertionError('expected UnicodeDecodeError')


def bound(key):
  try:
    return gin.query_parameter(key)
  except ValueError:
    return None


state = {k: bound(k) for k in ('f.x', 'f.y', 'f.z')}
assert state == {'f.x': 1, 'f.y': 2, 'f.z': None}, (
    'the statements on lines 1-2 precede the fault on line 3 but have not taken '
    'effect: %r' % state)
assert 'enc.gin' in msg and 'line 3' in msg, msg

print('PASS')
