"""C16, pre-existing: a bad value whose fault is semantic (an unhashable dictionary
key) is reported without file and line.

`{[1, 2]: 3}` is syntactically fine for gin's parser; building the dict fails in
gin/config_parser.py `_maybe_parse_container` (l.530, `type_fn(values)`) with a
bare TypeError.  It is raised from the parser iteration in `parse_config`
(gin/config.py l.2458), which no `try_with_location` covers, so the error names
neither the file (or 'bindings string') nor the line -- and in an included file
only the include statements are named.
"""
import os
import tempfile

import gin


@gin.configurable
def f(x=0, y=0):
  return x, y


tmp = tempfile.mkdtemp()
inner = os.path.join(tmp, 'inner.gin')
with open(inner, 'w') as fh:
  fh.write('f.x = 1\n\nf.y = {[1, 2]: 3}\nf.x = 10\n')

try:
  gin.parse_config("include '%s'\n" % inner)
except TypeError as e:
  msg = str(e)
else:
  raise AssertionError('expected TypeError')

assert gin.query_parameter('f.x') == 1
assert 'In bindings string line 1' in msg, msg  # The include level is there ...
assert ('In file "%s", line 3' % inner) in msg, (
    'the error names neither the file nor the line (3) of the offending '
    'statement; message: %r' % msg)

print('PASS')
