"""C16, pre-existing: the import statements that precede the failing statement are
not recorded, so the state after a failed parse differs from "that prefix
applied".

`parse_config` copies the imports of the file into the module-level import set
only after the last statement (gin/config.py l.2488-2491, inside the `with` but
after the loop), i.e. never when a statement fails.  The imports preceding the
failure did take effect (the modules were imported, configurables registered from
them, bindings on them applied), but config_str() -- whose header is the set of
imports -- shows none of them; under dynamic registration it even loses the
`from __gin__ import dynamic_registration` line and with it the import-qualified
spelling, so its output is no longer a parseable description of the state.
"""
import os
import sys
import tempfile

import gin

tmp = tempfile.mkdtemp()
sys.path.insert(0, tmp)
with open(os.path.join(tmp, 'c16_dyn_mod.py'), 'w') as fh:
  fh.write('def h(p=1):\n  return p\n')

PREFIX = ('from __gin__ import dynamic_registration\n'
          'import c16_dyn_mod\n'
          'c16_dyn_mod.h.p = 3\n')

# The prefix alone.
gin.parse_config(PREFIX)
after_prefix = gin.config_str()
assert 'import c16_dyn_mod' in after_prefix, after_prefix

# The same prefix followed by a failing statement.
gin.clear_config()
try:
  gin.parse_config(PREFIX + 'c16_dyn_mod.h.no_such_param = 4\n')
except ValueError:
  pass
else:
  raise AssertionError('expected ValueError')
assert gin.query_parameter('c16_dyn_mod.h.p') == 3  # The prefix was applied ...
after_failure = gin.config_str()
# ... so the visible state must be the one the prefix alone produces.
assert after_failure == after_prefix, (
    'config_str() after the failed parse differs from config_str() after '
    'parsing the preceding statements only.\n--- prefix only:\n%s\n'
    '--- after failure:\n%s' % (after_prefix, after_failure))

print('PASS')
