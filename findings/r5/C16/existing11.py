"""C16, pre-existing: gin's own *semantic* import errors are raised as SyntaxError
and therefore never get the include chain.

`from __gin__ import dynamic_registration` after another import, an unknown
`__gin__` feature and an aliased `__gin__` import are well-formed statements
that are rejected for semantic reasons by `ParseContext.process_import`
(gin/config.py l.191-206) -- but as `SyntaxError(msg, statement.location)`.
gin/utils.py `try_with_location` (l.99-100) passes every SyntaxError through
untouched, so in an included file the error names the innermost file only: the
include statements above it (one per level) are missing, unlike for every other
semantic error.
"""
import os
import tempfile

import gin


@gin.configurable
def f(x=0, y=0):
  return x, y


tmp = tempfile.mkdtemp()
inner = os.path.join(tmp, 'inner.gin')
mid = os.path.join(tmp, 'mid.gin')
with open(inner, 'w') as fh:
  fh.write('f.y = 2\nimport os\nfrom __gin__ import dynamic_registration\n')
with open(mid, 'w') as fh:
  fh.write("f.x = 1\ninclude '%s'\n" % inner)

try:
  gin.parse_config("\ninclude '%s'\n" % mid)
except SyntaxError as e:
  msg = str(e)
  assert e.filename == inner and e.lineno == 3, (e.filename, e.lineno)
else:
  raise AssertionError('expected an error')

assert gin.query_parameter('f.x') == 1 and gin.query_parameter('f.y') == 2
assert 'mid.gin' in msg and 'bindings string line 2' in msg, (
    'the error names only the innermost file; the two include levels '
    '(mid.gin line 2, bindings string line 2) are missing: %r' % msg)

print('PASS')
