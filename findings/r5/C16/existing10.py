"""C16-adjacent, pre-existing: with skip_unknown=True an ImportError that has no
module name is replaced by an AttributeError (original exception type lost).

A module may raise `ImportError('...')` itself (optional dependency missing); such
an error has `name == None`.  With skip_unknown=True gin means to skip the failed
import, but gin/config.py `_print_unknown_import_message` (l.2500) does
`exception.name.split('.')`, so the parse aborts with
AttributeError("'NoneType' object has no attribute 'split'") instead -- neither
the documented skip nor the original ImportError.
"""
import os
import sys
import tempfile

import gin


@gin.configurable
def f(x=0):
  return x


tmp = tempfile.mkdtemp()
sys.path.insert(0, tmp)
with open(os.path.join(tmp, 'c16_optional_dep_mod.py'), 'w') as fh:
  fh.write("raise ImportError('optional dependency missing')\n")

CONFIG = 'f.x = 1\nimport c16_optional_dep_mod\nf.x = 2\n'

# Without skip_unknown: the ImportError, located.
try:
  gin.parse_config(CONFIG)
except ImportError as e:
  assert 'In bindings string line 2' in str(e), e
else:
  raise AssertionError('expected ImportError')

gin.clear_config()
try:
  gin.parse_config(CONFIG, skip_unknown=True)
except ImportError:
  pass  # Acceptable: original type kept.
except Exception as e:  # pylint: disable=broad-except
  raise AssertionError(
      'the ImportError of the import statement was replaced by %s: %s' %
      (type(e).__name__, e))
else:
  assert gin.query_parameter('f.x') == 2  # Skipped, as documented.

print('PASS')
