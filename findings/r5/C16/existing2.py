"""C16, pre-existing: a semantic error inside a multi-line value names the line of
the offending *token*, not the line on which the offending statement begins.

For an unknown reference (or an ambiguous constant) the location is taken in
gin/config_parser.py `_maybe_parse_configurable_reference` (l.576/589) and
`_maybe_parse_macro` (l.599/603) from the current token; `parse_config` does not
wrap the parser iteration, so the statement's own location (`stmt_loc`, l.239) is
never added.  Every other semantic error of the same statement (e.g. an unknown
parameter) names the first line, and so does provenance.
"""
import gin


@gin.configurable
def f(x=0):
  return x


CONFIG = ('f.x = 0\n'          # line 1
          '\n'
          'f.%s = [\n'          # line 3: the statement begins here
          '    1,\n'
          '    %s,\n'           # line 5
          ']\n')


def failure_message(param, element):
  gin.clear_config()
  try:
    gin.parse_config(CONFIG % (param, element))
  except ValueError as e:
    return str(e)
  raise AssertionError('expected ValueError')


# Unknown parameter on the very same multi-line statement: line 3 is named.
msg = failure_message('no_such_param', '2')
assert 'In bindings string line 3' in msg, msg

# Unknown reference inside the value.
msg = failure_message('x', '@no_such_configurable')
assert 'In bindings string line 3' in msg, (
    'the error for an unknown reference does not name line 3, on which the '
    'offending statement begins; message:\n' + msg)

# Ambiguous constant inside the value.
gin.constant('c16_mod_a.LIMIT', 1)
gin.constant('c16_mod_b.LIMIT', 2)
msg = failure_message('x', '%LIMIT')
assert 'In bindings string line 3' in msg, msg

print('PASS')
