"""C16, pre-existing: the failing statement itself leaves a registration behind, so
later parsing does not behave as after "that prefix applied".

Under dynamic registration the configurable named by a binding key (or by a
reference in the value) is registered as soon as it is resolved
(gin/config.py `ParsedBindingKey.parse` l.954 -> `ParseContext.get_configurable`
l.336-345 -> `_register`), i.e. before the rest of the statement is validated.
When the statement then fails (unknown parameter here) the registration stays, and
a later config that names the function without importing it parses, although after
the preceding statements alone it is (rightly) rejected as unknown.
"""
import os
import sys
import tempfile

import gin

tmp = tempfile.mkdtemp()
sys.path.insert(0, tmp)
with open(os.path.join(tmp, 'c16_dyn_mod2.py'), 'w') as fh:
  fh.write('def h(p=1):\n  return p\n')

PREFIX = ('from __gin__ import dynamic_registration\n'
          'import c16_dyn_mod2\n')


def later_parse_outcome():
  try:
    gin.parse_config('h.p = 3\n')
    return 'accepted'
  except ValueError as e:
    assert "No configurable matching 'h'" in str(e), e
    return 'unknown configurable'


# With only the preceding statements applied, `h` is unknown to a later file.
gin.parse_config(PREFIX)
assert later_parse_outcome() == 'unknown configurable'

# Now the same prefix followed by a statement that fails.
try:
  gin.parse_config(PREFIX + 'c16_dyn_mod2.h.no_such_param = 1\n')
except ValueError as e:
  assert "doesn't have a parameter named 'no_such_param'" in str(e), e
else:
  raise AssertionError('expected ValueError')

outcome = later_parse_outcome()
assert outcome == 'unknown configurable', (
    "after the failed parse a later 'h.p = 3' is %s: the failing statement "
    "registered c16_dyn_mod2.h although it did not take effect" % outcome)

print('PASS')
