# Pre-existing defect (unchanged library), property C19 (quantifier: "every
# combination of import forms and aliases, including colliding bound names
# across files"):
#   "a dotted name resolves by looking up its first component among that file's
#    own import statements (honouring the from and as forms) ... and it is that
#    exact object that is registered and configured".
#
# Two files each bind the SAME alias to two different sibling modules
# (`import pkg.models_v1 as models` / `import pkg.models_v2 as models`), both of
# which define a class `Model`. Within each file `models.Model` resolves
# unambiguously through the file's own import, to two different classes. The
# second file is rejected with "A different configurable matching
# 'c19e4_pkg.models.Model' already exists".
#
# Cause: the registry selector of a dynamically registered object is built from
# the import spelling, with the alias substituted for the module's own name
# (ImportStatement.partial_path() in gin/config_parser.py, used by
# ParseContext._register in gin/config.py: "module = '.'.join([
# source.partial_path(), *inner_names])"). Both classes therefore get the
# selector 'c19e4_pkg.models.Model' and _make_configurable refuses the second.

import os
import sys
import tempfile
import textwrap

import gin


def main():
  root = tempfile.mkdtemp()
  pkg = os.path.join(root, 'c19e4_pkg')
  os.makedirs(pkg)
  open(os.path.join(pkg, '__init__.py'), 'w').close()
  for version in ('v1', 'v2'):
    with open(os.path.join(pkg, 'models_%s.py' % version), 'w') as f:
      f.write(textwrap.dedent("""
          class Model:
            def __init__(self, width=1):
              self.width = width
              self.version = %r
      """ % version))
  sys.path.insert(0, root)

  gin.clear_config()
  gin.parse_config("""
    from __gin__ import dynamic_registration
    import c19e4_pkg.models_v1 as models
    models.Model.width = 11
  """)
  try:
    gin.parse_config("""
      from __gin__ import dynamic_registration
      import c19e4_pkg.models_v2 as models
      models.Model.width = 22
    """)
  except ValueError as e:
    raise AssertionError(
        'C19 violated: in the second file `models.Model` resolves through that '
        'file\'s own import to c19e4_pkg.models_v2.Model, which must be '
        'registered and configured; instead: %s' % str(e).splitlines()[0])

  from c19e4_pkg import models_v1, models_v2
  m1 = gin.get_configurable(models_v1.Model)()
  m2 = gin.get_configurable(models_v2.Model)()
  assert (m1.version, m1.width) == ('v1', 11), (m1.version, m1.width)
  assert (m2.version, m2.width) == ('v2', 22), (m2.version, m2.width)
  print('PASS')


if __name__ == '__main__':
  main()
