# Pre-existing defect (unchanged library), property C19:
#   "different import spellings of one object address the same configurable, and
#    configuring a method of an already referenced class keeps existing
#    references working."
#
# One class, two spellings in ONE file (`import pkg.models as mm` and
# `from pkg import models`). A parameter of the class is bound through the first
# spelling; then a method of the class is configured through the second.
#
# Cause: ParseContext._register (gin/config.py, "module = '.'.join([
# source.partial_path(), *inner_names])") derives the registry selector from the
# import SPELLING (ImportStatement.partial_path() in gin/config_parser.py
# substitutes the alias: 'c19e1_pkg.mm.Model'). Configuring the method
# re-registers the class through the other spelling under a second selector
# ('c19e1_pkg.models.Model'); _INVERSE_REGISTRY and all references now point at
# the new registration, whose wrapper reads bindings under the new selector
# only. The binding made earlier through the first spelling stays behind under
# the old selector: it is silently lost (and config_str() prints two
# "Parameters for models.Model" sections).

import os
import sys
import tempfile
import textwrap

import gin


def main():
  root = tempfile.mkdtemp()
  pkg = os.path.join(root, 'c19e1_pkg')
  os.makedirs(pkg)
  open(os.path.join(pkg, '__init__.py'), 'w').close()
  with open(os.path.join(pkg, 'models.py'), 'w') as f:
    f.write(textwrap.dedent("""
        class Model:
          def __init__(self, width=1, depth=1):
            self.width = width
            self.depth = depth

          def predict(self, threshold=0.5):
            return threshold


        def build(model=None):
          return model
    """))
  sys.path.insert(0, root)

  gin.clear_config()
  gin.parse_config("""
    from __gin__ import dynamic_registration
    import c19e1_pkg.models as mm
    from c19e1_pkg import models

    mm.Model.width = 7                   # spelling 1
    mm.build.model = @mm.Model()         # reference through spelling 1
    models.Model.predict.threshold = 0.9 # method, spelling 2
    models.Model.depth = 3               # spelling 2
  """)

  from c19e1_pkg import models as py_models
  obj = gin.get_configurable(py_models.build)()
  assert isinstance(obj, py_models.Model)
  assert obj.predict() == 0.9, obj.predict()
  assert obj.depth == 3, obj.depth
  # Both spellings name the same class, hence the same configurable.
  assert obj.width == 7, (
      'C19 violated: `mm.Model.width = 7` and `models.Model...` address the '
      'same class, but after configuring a method through the second spelling '
      'the binding made through the first one is lost: width=%r (bindings of '
      'the class: %r)' % (obj.width, gin.get_bindings(py_models.Model)))
  print('PASS')


if __name__ == '__main__':
  main()
