# Pre-existing defect (unchanged library), property C19:
#   "... a late or aliased enabling statement ... are errors."
#
# `from __gin__ import dynamic_registration` placed AFTER another import
# statement is accepted without any error when that earlier import failed and
# was skipped because of skip_unknown=True.
#
# Cause: ParseContext.process_import (gin/config.py) detects a late enabling
# statement with `if self._imports:`, but a statement is appended to
# `self._imports` only after its module was imported successfully; parse_config
# swallows the ImportError under skip_unknown, so the failed import leaves no
# trace and the enabling statement that follows it is not recognised as late.
# (With the same text and an importable module the SyntaxError is raised.)

import os
import sys
import tempfile

import gin


def main():
  root = tempfile.mkdtemp()
  pkg = os.path.join(root, 'c19e5_pkg')
  os.makedirs(pkg)
  open(os.path.join(pkg, '__init__.py'), 'w').close()
  with open(os.path.join(pkg, 'fns.py'), 'w') as f:
    f.write('def fn(arg=0):\n  return arg\n')
  sys.path.insert(0, root)

  template = """
    import %s
    from __gin__ import dynamic_registration
    from c19e5_pkg import fns
    fns.fn.arg = 1
  """

  # Sanity: with an importable module the late statement is an error.
  gin.clear_config()
  try:
    gin.parse_config(template % 'c19e5_pkg', skip_unknown=True)
  except SyntaxError:
    pass
  else:
    raise AssertionError('late enabling after a successful import accepted')

  gin.clear_config()
  try:
    gin.parse_config(template % 'c19e5_no_such_module', skip_unknown=True)
  except SyntaxError:
    print('PASS')
    return
  raise AssertionError(
      'C19 violated: the enabling statement comes after `import '
      'c19e5_no_such_module` (a late enabling statement), yet it was accepted '
      'and dynamic registration was switched on; bindings: %r' %
      (gin.get_bindings('c19e5_pkg.fns.fn'),))


if __name__ == '__main__':
  main()
