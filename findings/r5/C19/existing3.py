# Pre-existing defect (unchanged library), property C19:
#   "a dotted name resolves by ... following attributes to a Python object, and
#    it is that exact object (function, class, nested class or method) that is
#    registered and configured".
#
# An inherited method is configured through a subclass (`models.Child.predict`, the
# attribute walk ends at the function `Base.predict`); afterwards the base class
# itself is used in the same file. Every name resolves through the file's own
# import, yet the last statement raises a ValueError.
#
# Cause: ParseContext._register (gin/config.py) names the method after the path
# it was reached by (module 'c19e3_pkg.models.Child'), although the registered
# object is `Base.predict`. When `models.Base` is registered, _find_registered_methods
# finds that same function on Base, registered with a module that is neither the
# Python module nor 'c19e3_pkg.models.Base', and raises "Method predict ... was
# registered with a custom module".

import os
import sys
import tempfile
import textwrap

import gin


def main():
  root = tempfile.mkdtemp()
  pkg = os.path.join(root, 'c19e3_pkg')
  os.makedirs(pkg)
  open(os.path.join(pkg, '__init__.py'), 'w').close()
  with open(os.path.join(pkg, 'models.py'), 'w') as f:
    f.write(textwrap.dedent("""
        class Base:
          def __init__(self, width=1):
            self.width = width

          def predict(self, threshold=0.5):
            return threshold


        class Child(Base):
          pass


        def build(model=None):
          return model
    """))
  sys.path.insert(0, root)

  gin.clear_config()
  try:
    gin.parse_config("""
      from __gin__ import dynamic_registration
      from c19e3_pkg import models
      models.build.model = @models.Child()
      models.Child.predict.threshold = 0.9
      models.Base.width = 4
    """)
  except ValueError as e:
    raise AssertionError(
        'C19 violated: `models.Base` resolves through the file\'s own import to a '
        'class, but it cannot be registered/configured after an inherited '
        'method was configured through a subclass: %s' %
        str(e).splitlines()[0])

  from c19e3_pkg import models as py_models
  obj = gin.get_configurable(py_models.build)()
  assert isinstance(obj, py_models.Child)
  assert obj.predict() == 0.9, obj.predict()
  assert gin.get_configurable(py_models.Base)().width == 4
  print('PASS')


if __name__ == '__main__':
  main()
