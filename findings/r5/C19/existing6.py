# Pre-existing defect (unchanged library), property C19, under a particular
# thread interleaving:
#   "a dotted name resolves by looking up its first component among that file's
#    OWN import statements".
#
# Two threads each parse one file that enables dynamic registration. Both files
# bind the name `m`, to two different modules. The files are handed to
# gin.parse_config as file-like objects (a documented input form), whose
# readline() lets this program fix the interleaving deterministically:
#   A: enables, imports `from c19e6_pkg.left import m`, then pauses;
#   B: enables, imports `from c19e6_pkg.right import m`, then pauses;
#   A: resumes, `m.fn.arg = 'A'`, finishes;   B: resumes, `m.fn.arg = 'B'`.
# File A's `m.fn` then configures c19e6_pkg.right.m.fn (file B's import) and file
# B's `m.fn` configures c19e6_pkg.left.m.fn.
#
# Cause: the per-file ParseContext objects live in the process-global list
# _PARSE_CONTEXTS and _parse_context() (gin/config.py) returns its LAST element;
# bind_parameter / ConfigurableReference resolve names through whatever context
# is on top, not through the context of the parse_config call (thread) that is
# executing, and _parse_scope pops whatever is on top.

import os
import sys
import tempfile
import threading

import gin


class Lines:
  """File-like object; runs hooks[i] just before line i is read."""

  def __init__(self, lines, hooks):
    self._lines = lines
    self._hooks = hooks
    self._i = 0

  def readline(self):
    hook = self._hooks.get(self._i)
    if hook:
      hook()
    if self._i >= len(self._lines):
      return ''
    line = self._lines[self._i]
    self._i += 1
    return line + '\n'


def main():
  root = tempfile.mkdtemp()
  for side in ('left', 'right'):
    d = os.path.join(root, 'c19e6_pkg', side)
    os.makedirs(d)
    open(os.path.join(d, '__init__.py'), 'w').close()
    with open(os.path.join(d, 'm.py'), 'w') as f:
      f.write('def fn(arg=None):\n  return arg\n')
  open(os.path.join(root, 'c19e6_pkg', '__init__.py'), 'w').close()
  sys.path.insert(0, root)

  start_b = threading.Event()
  b_paused = threading.Event()
  a_done = threading.Event()

  def a_pause():
    start_b.set()
    assert b_paused.wait(30)

  def b_pause():
    b_paused.set()
    assert a_done.wait(30)

  file_a = Lines([
      'from __gin__ import dynamic_registration',
      'from c19e6_pkg.left import m',
      "m.fn.arg = 'A'",
  ], {2: a_pause})
  file_b = Lines([
      'from __gin__ import dynamic_registration',
      'from c19e6_pkg.right import m',
      "m.fn.arg = 'B'",
  ], {2: b_pause})

  errors = []

  def run_b():
    assert start_b.wait(30)
    try:
      gin.parse_config(file_b)
    except Exception as e:  # pylint: disable=broad-except
      errors.append(('B', e))

  gin.clear_config()
  thread = threading.Thread(target=run_b)
  thread.start()
  try:
    gin.parse_config(file_a)
  except Exception as e:  # pylint: disable=broad-except
    errors.append(('A', e))
  a_done.set()
  thread.join()

  import c19e6_pkg.left.m
  import c19e6_pkg.right.m

  def bindings(fn):
    try:
      return gin.get_bindings(fn)
    except ValueError:
      return 'not registered'

  left = bindings(c19e6_pkg.left.m.fn)
  right = bindings(c19e6_pkg.right.m.fn)
  assert not errors and left == {'arg': 'A'} and right == {'arg': 'B'}, (
      'C19 violated: file A imports c19e6_pkg.left.m as `m`, file B imports '
      'c19e6_pkg.right.m as `m`; each `m.fn` must resolve through its own '
      "file's import. Got left.m.fn: %r, right.m.fn: %r, errors: %r" %
      (left, right, errors))
  print('PASS')


if __name__ == '__main__':
  main()
