# Pre-existing defect (unchanged library), property C19:
#   "different import spellings of one object address the same configurable" and
#   "it is that exact object (... method) that is registered and configured".
#
# Two methods of one class are configured through two different spellings of
# the same module (here in two files; one file with both imports fails alike).
# The second statement is rejected with a ValueError although `models.Model`
# resolves, through the file's own imports, to the very class already in use.
#
# Cause: ParseContext._register (gin/config.py) registers a method under the
# module path '<spelling of the import>.<Class>' (ImportStatement.partial_path()
# puts the alias into it: 'c19e2_pkg.mm.Model'). Configuring the second method
# re-registers the class under the other spelling ('c19e2_pkg.models.Model');
# _find_registered_methods then finds the first method registered with a module
# that is neither the Python module nor the new class selector and raises
# "Method predict ... was registered with a custom module".

import os
import sys
import tempfile
import textwrap

import gin


def main():
  root = tempfile.mkdtemp()
  pkg = os.path.join(root, 'c19e2_pkg')
  os.makedirs(pkg)
  open(os.path.join(pkg, '__init__.py'), 'w').close()
  with open(os.path.join(pkg, 'models.py'), 'w') as f:
    f.write(textwrap.dedent("""
        class Model:
          def predict(self, threshold=0.5):
            return threshold

          def train(self, steps=1):
            return steps


        def build(model=None):
          return model
    """))
  sys.path.insert(0, root)

  gin.clear_config()
  gin.parse_config("""
    from __gin__ import dynamic_registration
    import c19e2_pkg.models as mm
    mm.build.model = @mm.Model()
    mm.Model.predict.threshold = 0.9
  """)
  try:
    gin.parse_config("""
      from __gin__ import dynamic_registration
      from c19e2_pkg import models
      models.Model.train.steps = 100
    """)
  except ValueError as e:
    raise AssertionError(
        'C19 violated: `models.Model.train` resolves through the file\'s own '
        'imports to a method of the class already configured as `mm.Model`, '
        'but configuring it is rejected: %s' % str(e).splitlines()[0])

  from c19e2_pkg import models as py_models
  obj = gin.get_configurable(py_models.build)()
  assert obj.predict() == 0.9, obj.predict()
  assert obj.train() == 100, obj.train()
  print('PASS')


if __name__ == '__main__':
  main()
