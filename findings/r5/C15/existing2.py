"""C15, pre-existing defect 2: the value of a statement that is going to be
deleted is still resolved, and can abort the parse.

Property C15: parsing with skip_unknown yields exactly the configuration
obtained by DELETING from the text every binding and block whose target is
unknown (and listed). Deleting `c15_unknown.a = @whatever` removes the
reference too, so the outcome cannot depend on what `@whatever` is. The
parse_config docstring says the same: unknown references cause errors only "if
they are present in a binding that is not itself skipped".

Actual behaviour: the parser builds the value before parse_config looks at the
target. `ConfigParser.parse_statement` / `_parse_binding_block`
(gin/config_parser.py ~244 and ~489) call `parse_value()`, which calls
`ParserDelegate.configurable_reference` (gin/config.py ~886), and only
afterwards `parse_config` (gin/config.py ~2465/2469) decides to skip the
statement. Hence
  (a) list form: a reference in a skipped statement to an unknown name that is
      not itself in the list raises "No configurable matching reference";
  (b) any form, including True: a reference in a skipped statement to an
      ambiguous name raises "Ambiguous selector".
"""

import gin


@gin.configurable
def c15_known(x=0):
  return x


@gin.configurable('c15_dup', module='c15_mod_a')
def _dup_a():
  pass


@gin.configurable('c15_dup', module='c15_mod_b')
def _dup_b():
  pass


def check(text, deleted_text, form):
  gin.clear_config()
  gin.parse_config(deleted_text)
  expected = gin.config_str()
  gin.clear_config()
  try:
    gin.parse_config(text, skip_unknown=form)
  except (ValueError, KeyError) as e:
    raise AssertionError(
        'skip_unknown=%r: the statements targeting c15_unknown should simply '
        'be deleted, but their value aborted the parse: %s' %
        (form, str(e).splitlines()[0]))
  assert gin.config_str() == expected, (form, gin.config_str(), expected)
  assert c15_known() == 3
  gin.finalize()  # Nothing unknown is left in the applied bindings.


DELETED = "c15_known.x = 3\n"

# (a) list form, unknown reference inside deleted binding / deleted block.
TEXT_A = """
c15_unknown.a = @c15_other_unknown
c15_unknown:
  b = [@c15_other_unknown()]
c15_known.x = 3
"""
for form in (['c15_unknown'], ('c15_unknown',), {'c15_unknown'}):
  check(TEXT_A, DELETED, form)

# (b) every form, ambiguous reference inside deleted binding.
TEXT_B = """
c15_unknown.a = @c15_dup
c15_known.x = 3
"""
for form in (True, ['c15_unknown'], ('c15_unknown',), {'c15_unknown'}):
  check(TEXT_B, DELETED, form)

print('PASS')
