"""C15, pre-existing defect 1: under dynamic registration "known" depends on the
global registry (i.e. on what was parsed / decorated before), not on the file's
own imports.

Property C15 says that 'known' means resolvable through the file's imports,
independent of what was parsed before. In a file that enables dynamic
registration, a name whose first component was not bound by one of the file's
import statements is therefore UNKNOWN, and with skip_unknown enabled:
  * a binding / block that targets it must be dropped silently;
  * a reference to it inside an applied binding must become a placeholder that
    only raises "No configurable matching ..." on use / at finalize.

Actual behaviour: `_should_skip` (gin/config.py, ~line 870) first asks
`_REGISTRY.matching_selectors(selector)`. As soon as ANY registration matches
the spelling (an earlier parse_config that imported the module under the same
alias, or a plain @gin.configurable decorator), the statement is not skipped
any more, and `ParseContext.get_configurable` -> `_resolve_selector` raises
    NameError: 'dr' was not provided by an import statement.
So the very same text parses fine the first time and aborts the second time.
"""

import gin

UNIMPORTED = """
from __gin__ import dynamic_registration
dr.function.arg = 'dropped'
"""
IMPORTED = """
from __gin__ import dynamic_registration
from gin.testdata import dynamic_registration as dr
dr.function.arg = 'applied'
"""


def parse_unimported(form):
  gin.clear_config()
  gin.parse_config(UNIMPORTED, skip_unknown=form)
  return gin.config_str()


# 1. Nothing registered yet: `dr` is not provided by the file, the binding is
#    dropped. This works.
first = parse_unimported(True)
assert 'dropped' not in first, first

# 2. Some other file legitimately imports the module as `dr`.
gin.clear_config()
gin.parse_config(IMPORTED)
gin.clear_config()

# 3. The first text again. It still does not import `dr`, so the result must be
#    the same as in step 1.
for form in (True, ['dr.function'], ('dr.function',), {'dr.function'}):
  try:
    again = parse_unimported(form)
  except NameError as e:
    raise AssertionError(
        'skip_unknown=%r: a binding whose target is NOT provided by the '
        "file's imports is an error instead of being dropped, only because an "
        'earlier parse registered the same spelling: %s' %
        (form, str(e).splitlines()[0]))
  assert again == first, (form, again, first)


# 4. Same cause, reference flavour: a statically decorated configurable that a
#    dynamic-registration file does not import is unknown in that file, so a
#    reference to it must become a placeholder (error on use / finalize), not
#    abort the parse.
@gin.configurable
def c15_decorated(v=0):
  return v


REFERENCE = """
from __gin__ import dynamic_registration
from gin.testdata import dynamic_registration as dr
dr.function.arg = @c15_decorated()
"""
gin.clear_config()
try:
  gin.parse_config(REFERENCE, skip_unknown=True)
except NameError as e:
  raise AssertionError(
      'reference to a name not provided by the imports of a dynamic '
      'registration file aborts the parse instead of becoming a placeholder: '
      '%s' % str(e).splitlines()[0])
try:
  gin.finalize()
except ValueError as e:
  assert 'No configurable matching reference' in str(e), e
else:
  raise AssertionError('finalize did not report the unknown reference')

print('PASS')
