"""C15, pre-existing defect 3: a skipped import whose ImportError carries no
module name crashes the parse with AttributeError.

Property C15: with skip_unknown enabled every import that cannot be satisfied
is deleted from the text, the rest of the file is applied. Gin's own test
`testSkipUnknownNestedImport` establishes that this covers a module that is
found but fails with ImportError while being imported (e.g. because one of its
own dependencies is missing).

A very common way for a module to signal a missing dependency is
    raise ImportError('backend X is required')
Such an exception has `name=None`. `parse_config` catches it and, because
skip_unknown is on, calls `_print_unknown_import_message`
(gin/config.py ~line 2500), which does `exception.name.split('.')` and dies
with
    AttributeError: 'NoneType' object has no attribute 'split'
so the parse is aborted and the bindings of known configurables that follow
the import are never applied.
"""

import os
import sys
import tempfile

import gin


@gin.configurable
def c15_known(x=0):
  return x


tmpdir = tempfile.mkdtemp()
with open(os.path.join(tmpdir, 'c15_needs_backend.py'), 'w') as f:
  f.write("raise ImportError('the c15 backend is required')\n")
sys.path.insert(0, tmpdir)

TEXT = """
import c15_needs_backend
c15_known.x = 1
"""

# Without skip_unknown this is an ImportError, as it should be.
try:
  gin.parse_config(TEXT)
except ImportError:
  pass
else:
  raise AssertionError('expected ImportError without skip_unknown')

for form in (True, ['whatever'], ('whatever',), {'whatever'}):
  gin.clear_config()
  try:
    gin.parse_config(TEXT, skip_unknown=form)
  except AttributeError as e:
    raise AssertionError(
        'skip_unknown=%r: the unimportable module should be skipped and '
        'c15_known.x applied, but the parse crashed: AttributeError: %s' %
        (form, str(e).splitlines()[0]))
  assert c15_known() == 1

print('PASS')
