"""C15, pre-existing defect 4 (thread interleaving): the stack of parse contexts
is process-global, so a parse in one thread decides "known / unknown" with the
imports of a file being parsed in ANOTHER thread.

Property C15: 'known' means resolvable through the FILE'S imports; bindings of
known configurables are always applied.

`_PARSE_CONTEXTS` (gin/config.py) is a plain module-level list and
`_parse_context()` returns its last element. `_should_skip` (~line 871) and
`ParsedBindingKey.parse` / `ConfigurableReference.initialize` all go through
`_parse_context()`. When thread B enters `parse_config` while thread A is in
the middle of its own parse, A's remaining statements are judged against B's
context. Below, A's file uses dynamic registration and imports `dr`; B's file
does not. After B has pushed its context, A's `dr.function.arg = 'A'` is
looked up in B's (static, import-less) context, found "unknown" and -- because
skip_unknown=True -- silently dropped, although A's own imports provide it.

The interleaving is forced deterministically with two helper modules whose
import blocks on threading.Event objects (a module imported from a Gin file
may of course take arbitrarily long to import).
"""

import os
import sys
import tempfile
import threading
import types

import gin

sync = types.ModuleType('c15_sync')
sync.a_inside = threading.Event()   # A is in the middle of its parse.
sync.b_inside = threading.Event()   # B has entered parse_config.
sync.a_done = threading.Event()     # A has finished.
sys.modules['c15_sync'] = sync

tmpdir = tempfile.mkdtemp()
with open(os.path.join(tmpdir, 'c15_slow_a.py'), 'w') as f:
  f.write('import c15_sync\n'
          'c15_sync.a_inside.set()\n'
          'assert c15_sync.b_inside.wait(20)\n')
with open(os.path.join(tmpdir, 'c15_slow_b.py'), 'w') as f:
  f.write('import c15_sync\n'
          'c15_sync.b_inside.set()\n'
          'assert c15_sync.a_done.wait(20)\n')
sys.path.insert(0, tmpdir)

TEXT_A = """
from __gin__ import dynamic_registration
from gin.testdata import dynamic_registration as dr
import c15_slow_a
dr.function.arg = 'A'
"""
TEXT_B = """
import c15_slow_b
"""

errors = []


def run_a():
  try:
    gin.parse_config(TEXT_A, skip_unknown=True)
  except BaseException as e:  # pylint: disable=broad-except
    errors.append(('A', e))
  finally:
    sync.a_done.set()


def run_b():
  assert sync.a_inside.wait(20)
  try:
    gin.parse_config(TEXT_B, skip_unknown=True)
  except BaseException as e:  # pylint: disable=broad-except
    errors.append(('B', e))


ta = threading.Thread(target=run_a)
tb = threading.Thread(target=run_b)
ta.start()
tb.start()
ta.join(60)
tb.join(60)
assert not ta.is_alive() and not tb.is_alive(), 'deadlock in the demo itself'

assert not errors, 'a parse failed under the interleaving: %r' % (errors,)

from gin.testdata import dynamic_registration as dr_module  # pylint: disable=g-import-not-at-top
try:
  bound = gin.get_bindings(dr_module.function)
except ValueError:  # Never even registered.
  bound = None
assert bound == {'arg': 'A'}, (
    "thread A's binding `dr.function.arg = 'A'` (dr is provided by A's own "
    "imports) was silently dropped because thread B's parse context was on "
    'top of the global context stack: bindings = %r' % (bound,))

print('PASS')
