"""C20 finding (unchanged tree): what a finalizer does INSIDE clear_config() can survive the clear.

clear_config() resets its tables one after the other (lock flag, bindings, provenance, singletons, constants, imports,
operative record).  Dropping a table releases the last reference to the objects only gin kept alive, so their finalizers
(__del__ / weakref.finalize callbacks) run inside clear_config -- after the tables reset EARLIER have already been
emptied.  A finalizer that uses gin's public API on one of those earlier tables leaves a trace that clear_config does
not remove, so clear_config returns with a state that is not pristine (property C20: "leaves no bindings, no operative
record, no cached singletons ... and an unlocked configuration"):

  A. a dropped singleton whose finalizer binds a parameter      -> the binding is there after clear_config()
  B. a dropped singleton whose finalizer makes another singleton -> that singleton is cached after clear_config()
  C. a dropped singleton whose finalizer calls gin.finalize()    -> the configuration is LOCKED after clear_config()
  D. a dropped constant whose finalizer defines a constant       -> it exists after clear_config(clear_constants=True)

(Finalizers that only call a configurable, define a constant from a singleton/binding, or parse an import are wiped,
because the operative record / constants / imports are reset after the singletons: that ordering is what the C20 engine
'clear-runs-finalizers' checks.)  A candidate repair: swap every table for an empty one first (keeping the old
contents in locals), and let the old contents go only after all tables are reset -- or repeat until nothing changes.

Run: PYTHONPATH=/repo /venv/bin/python -B findings/r5/C20-finalizer-traces-survive-clear.py   (exit 1 = defect present)
"""
import gin


@gin.configurable
def release(name='h', flush=True):
  return name, flush


def handle_class(action):
  class Handle(object):
    def __del__(self):
      action()
  return Handle


bad = []

# A
gin.config.singleton_value('s', handle_class(lambda: gin.bind_parameter('release.flush', False)))
gin.clear_config()
if gin.config_str().strip():
  bad.append('A: binding left after clear_config(): %r' % gin.config_str())
gin.clear_config()

# B
gin.config.singleton_value('s', handle_class(lambda: gin.config.singleton_value('t', lambda: 5)))
gin.clear_config()
try:
  gin.config.singleton_value('t')
  bad.append("B: singleton 't' is cached after clear_config()")
except ValueError:
  pass
gin.clear_config()

# C
gin.config.singleton_value('s', handle_class(gin.finalize))
gin.clear_config()
if gin.config_is_locked():
  bad.append('C: the configuration is locked after clear_config()')
gin.clear_config()

# D
gin.constant('HANDLE', handle_class(lambda: gin.constant('ZZ', 1))())
gin.clear_config(clear_constants=True)
try:
  gin.query_parameter('ZZ')
  bad.append("D: constant 'ZZ' exists after clear_config(clear_constants=True)")
except ValueError:
  pass
gin.clear_config(clear_constants=True)

for b in bad:
  print(b)
print('DEFECT PRESENT' if bad else 'ok')
raise SystemExit(1 if bad else 0)
