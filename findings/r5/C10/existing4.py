"""Pre-existing C10 violation (arguable): the REQUIRED marker reaches the
wrapped function when the *binding itself* is the marker.

`fn.a = %gin.REQUIRED` is the documented way for a config file to demand a
later override; it is only diagnosed by `find_missing_overrides_hook`
(gin/config.py l.2969-2981), i.e. only if/when `gin.finalize()` is called.
`gin.parse_config(...)` / `gin.bind_parameter(...)` followed directly by a call
do not finalize. `gin_wrapper` only tests `name in new_kwargs` (l.1636, l.1645,
l.1648) and never looks at the bound *value*, so a parameter marked REQUIRED by
the caller or by the signature is "filled" with the marker object itself and
the body runs with it -- contradicting "the REQUIRED marker itself is never
passed to the wrapped function in place of such a parameter".
"""
import gin

gin.clear_config()
seen = []


@gin.configurable
def ex4_fn(a=gin.REQUIRED, b=None):
  seen.append((a, b))
  return (a, b)


gin.parse_config('ex4_fn.a = %gin.REQUIRED')
violations = []
for label, call in (('ex4_fn()', lambda: ex4_fn()),
                    ('ex4_fn(REQUIRED)', lambda: ex4_fn(gin.REQUIRED)),
                    ('ex4_fn(a=REQUIRED)', lambda: ex4_fn(a=gin.REQUIRED))):
  del seen[:]
  try:
    call()
  except (RuntimeError, ValueError):
    pass
  if any(v is gin.REQUIRED for args in seen for v in args):
    violations.append(
        '%s: body ran and received the gin.REQUIRED marker for `a`' % label)
gin.clear_config()
assert not violations, '\n'.join(violations)
print('PASS')
