"""Pre-existing C10 violation: a registered subclass that inherits the
constructor of an already-configurable base class (and, likewise, an already
configurable function registered a second time under another name).

    @gin.configurable
    class Base:
      def __init__(self, a, b=gin.REQUIRED): ...

    @gin.configurable
    class Sub(Base):      # no __init__ of its own
      pass

For `Sub`, `_find_class_construction_fn` returns `Base.__init__`, which by now
is Base's `gin_wrapper(*args, **kwargs)`. `_get_cached_arg_spec` uses
`inspect.getfullargspec`, which does NOT follow `__wrapped__`, so Sub's wrapper
believes the signature is `(*args, **kwargs)` (gin/config.py: `_make_gin_wrapper`
l.1549-1555 / `_get_cached_arg_spec` l.1201; note `_might_have_parameter` does
unwrap, so the two disagree). Consequences:

  * `Sub(gin.REQUIRED)` is rejected as "REQUIRED for an unnamed (vararg)
    parameter" although `a` is a named parameter with a binding `Sub.a`;
  * the signature-level REQUIRED `b` is invisible to Sub's registration, so
    `denylist=['b']` (or an allowlist without it) is accepted instead of being
    rejected at registration;
  * an unfilled signature-level REQUIRED is reported by the *inner* wrapper,
    i.e. the error names `Base`, not the configurable `Sub` that was called.
"""
import gin

gin.clear_config()
violations = []


@gin.configurable
class Ex2Base:

  def __init__(self, a, b=gin.REQUIRED):
    self.value = (a, b)


@gin.configurable
class Ex2Sub(Ex2Base):
  pass


def attempt(call):
  try:
    return ('ok', call())
  except Exception as e:  # pylint: disable=broad-except
    return (type(e).__name__, str(e).split('\n')[0])


# (a) positional REQUIRED for the named parameter `a`, with a binding.
gin.bind_parameter('Ex2Sub.a', 1)
gin.bind_parameter('Ex2Sub.b', 2)
got = attempt(lambda: Ex2Sub(gin.REQUIRED).value)
if got != ('ok', (1, 2)):
  violations.append(
      'Ex2Sub(REQUIRED) with Ex2Sub.a and Ex2Sub.b bound should give (1, 2); '
      'got %r' % (got,))
gin.clear_config()

# (b) unfilled signature-level REQUIRED: error must name the called configurable.
got = attempt(lambda: Ex2Sub(1).value)
if not (got[0] == 'RuntimeError' and '`Ex2Sub`' in got[1] and
        got[1].endswith("['b']")):
  violations.append(
      "Ex2Sub(1) with nothing bound should fail naming `Ex2Sub` and ['b']; "
      'got %r' % (got,))

# (c) signature-level REQUIRED on a denylisted parameter must be rejected at
#     registration.
try:
  @gin.configurable(denylist=['b'])
  class Ex2SubDeny(Ex2Base):  # pylint: disable=unused-variable
    pass
except ValueError as e:
  if 'marked REQUIRED but denylisted' not in str(e):
    violations.append('unexpected registration error: %s' % e)
else:
  violations.append(
      'registering Ex2SubDeny(Ex2Base) with denylist=["b"] was accepted although '
      '`b` is REQUIRED in the (inherited) constructor signature')

gin.clear_config()
assert not violations, '\n'.join(violations)
print('PASS')
