"""Pre-existing C10 violation: signature-level gin.REQUIRED on a
positional-only parameter.

    @gin.configurable
    def f(a=gin.REQUIRED, /, b=1): ...

`a` is accepted at registration, can be bound (`f.a = 7`), and the
"missing required" check is satisfied by the binding, but `gin_wrapper` always
injects bindings as keyword arguments (`fn(*new_args, **new_kwargs)`,
gin/config.py l.1667; `_get_kwarg_defaults` / `inspect.getfullargspec` do not
distinguish positional-only parameters). The call `f()` therefore dies with
"TypeError: f() got some positional-only arguments passed as keyword arguments"
instead of the REQUIRED parameter being filled from its binding "in the correct
position". (Passing gin.REQUIRED positionally, `f(gin.REQUIRED)`, works.)
"""
import gin

gin.clear_config()


@gin.configurable
def ex3_fn(a=gin.REQUIRED, /, b=1):
  return (a, b)


gin.bind_parameter('ex3_fn.a', 7)
assert ex3_fn(gin.REQUIRED) == (7, 1)
try:
  result = ex3_fn()
except Exception as e:  # pylint: disable=broad-except
  raise AssertionError(
      'ex3_fn() with ex3_fn.a bound should return (7, 1) (signature-level '
      'REQUIRED filled from the binding); got %s: %s' %
      (type(e).__name__, str(e).split('\n')[0]))
assert result == (7, 1), result
gin.clear_config()
print('PASS')
