"""Pre-existing C10 violation: configurables made from bound methods,
classmethods accessed through the class, or callable instances.

`gin.external_configurable(SomeClass.factory_classmethod, ...)` (or a bound
instance method, or an object with `__call__`) is accepted. For such callables
`inspect.getfullargspec` -- used by `_get_cached_arg_spec` and hence by
`_get_supplied_positional_parameter_names` (gin/config.py ~l.1201-1218) -- still
lists the already-bound first parameter (`cls` / `self`), while the `*args`
seen by `gin_wrapper` do not contain it. Every positional argument is therefore
attributed to the parameter one place to its left:

  * a positional gin.REQUIRED is filled from the binding of the *previous*
    parameter (wrong binding, wrong position), or reported as the unfilled
    parameter `cls` / `self`, which is not a parameter of the configurable;
  * a signature-level REQUIRED parameter that the caller does supply
    positionally is reported as unfilled.

The property says a REQUIRED parameter is filled from the applicable binding in
the correct position, or else the error names exactly the unfilled parameters.
"""
import gin

gin.clear_config()
violations = []


class Model:

  @classmethod
  def build(cls, width, depth=2):
    return (width, depth)

  @classmethod
  def make(cls, a, b=gin.REQUIRED):
    return (a, b)

  def __call__(self, p, q=9):
    return (p, q)


build = gin.external_configurable(Model.build, name='ex1_build', module='ex1')
make = gin.external_configurable(Model.make, name='ex1_make', module='ex1')
obj = gin.external_configurable(Model(), name='ex1_obj', module='ex1')


def attempt(call):
  try:
    return ('ok', call())
  except Exception as e:  # pylint: disable=broad-except
    return (type(e).__name__, str(e).split('\n')[0])


# (a) REQUIRED for `depth`, only `width` is bound -> must fail naming ['depth'].
gin.bind_parameter('ex1_build.width', 64)
got = attempt(lambda: build(1, gin.REQUIRED))
if not (got[0] == 'RuntimeError' and got[1].endswith("['depth']")):
  violations.append(
      "build(1, REQUIRED) with only `width` bound should fail naming ['depth'];"
      ' got %r (REQUIRED for `depth` was filled from the binding of `width`)' %
      (got,))

# (b) REQUIRED for `width`, which is bound -> must be filled.
got = attempt(lambda: build(gin.REQUIRED))
if got != ('ok', (64, 2)):
  violations.append(
      'build(REQUIRED) with `width` bound should return (64, 2); got %r' %
      (got,))

# (c) signature-level REQUIRED `b` supplied positionally by the caller.
got = attempt(lambda: make(1, 2))
if got != ('ok', (1, 2)):
  violations.append('make(1, 2) should return (1, 2); got %r' % (got,))

# (d) callable instance: REQUIRED for `q`, only `p` is bound.
gin.bind_parameter('ex1_obj.p', 5)
got = attempt(lambda: obj(1, gin.REQUIRED))
if not (got[0] == 'RuntimeError' and got[1].endswith("['q']")):
  violations.append(
      "obj(1, REQUIRED) with only `p` bound should fail naming ['q']; got %r" %
      (got,))

gin.clear_config()
assert not violations, '\n'.join(violations)
print('PASS')
