"""Pre-existing C04 violation 2: positional override not seen through a decorator.

Property C04: "'@name()' [...] is not called when the caller supplies that
parameter [...] for every choice of which parameters the caller overrides
(positionally or by keyword)".

When the configurable is a `@gin.configurable` subclass that inherits the
`__init__` of a `@gin.configurable` base class (the inherited `__init__` is the
base class's Gin wrapper), a function wrapped by an ordinary (non-Gin)
`functools.wraps` decorator, or a callable object registered with
`gin.external_configurable`, Gin accepts the binding `f.x = @make()` because
`_might_have_parameter` (gin/config.py ~l.1186) follows `__wrapped__` and finds
the parameter `x`. But the names of the positionally supplied parameters are
computed by `_get_supplied_positional_parameter_names` (~l.1214) from
`inspect.getfullargspec(fn)`, which does NOT follow `__wrapped__` (the spec of
the decorator's `(*args, **kwargs)` wrapper has no named parameters) and, for a
callable object, counts `self` as the first supplied name. So `f(5)` is not
recognised as supplying `x`: the binding stays in `new_kwargs`, `@make()` is
called although the caller supplied the parameter, and the call then dies with
"TypeError: got multiple values for argument 'x'" instead of letting the
caller win (as it does for an undecorated function, and for `f(x=5)`).
"""

import functools

import gin

calls = []


@gin.configurable
def make():
  calls.append(gin.current_scope_str())
  return object()


def logged(fn):

  @functools.wraps(fn)
  def wrapper(*args, **kwargs):
    return fn(*args, **kwargs)

  return wrapper


@gin.configurable
def plain(x=None, y=None):
  return x, y


@gin.configurable
@logged
def decorated(x=None, y=None):
  return x, y


class Scaler:

  def __call__(self, x=None, y=None):
    return x, y


scaler = gin.external_configurable(Scaler(), name='scaler')


@gin.configurable
class Base:

  def __init__(self, x=None, y=None):
    self.x, self.y = x, y


@gin.configurable
class Derived(Base):  # Inherits Base's (Gin-wrapped) __init__.
  pass


def derived(*args, **kwargs):
  instance = Derived(*args, **kwargs)
  return instance.x, instance.y


gin.parse_config("""
  plain.x = [@make()]
  decorated.x = [@make()]
  scaler.x = [@make()]
  Derived.x = [@make()]
""")

# Reference behaviour: undecorated function, parameter supplied positionally.
assert plain(5) == (5, None) and calls == [], calls
# By keyword everything is fine for the decorated function, too.
assert decorated(x=5) == (5, None) and calls == [], calls

problems = []
for name, fn in (('Derived', derived), ('decorated', decorated),
                 ('scaler', scaler)):
  del calls[:]
  try:
    outcome = fn(5)
  except TypeError as e:
    outcome = 'TypeError: ' + str(e).splitlines()[0]
  if calls or outcome != (5, None):
    problems.append(
        '%s(5): the caller supplied x positionally, yet @make() bound to %s.x '
        'was called %d time(s) and the call gave %r' %
        (name, name, len(calls), outcome))
assert not problems, '; '.join(problems)
print('PASS')
