"""Pre-existing C04 violation 1: a constant delivered through '%NAME' is shared.

Property C04: "Whatever a consumer does to the values it receives never changes
what later calls, queries or config strings see."

A constant with a mutable value (`gin.constant('X', [...])`) that is bound to a
parameter through the macro syntax is handed to the consumer as the very object
stored in Gin's constants table: `%X` is the evaluated reference
`@X/gin.constant()`, `_retrieve_constant()` (gin/config.py, ~l.2840) returns
`_CONSTANTS[...]` itself, and `ConfigurableReference.__deepcopy__` (~l.820)
returns the result of the call without copying it - the deep copy in the Gin
wrapper therefore stops at the reference. (Ordinary macros are safe only
because `gin.macro` is itself a configurable whose wrapper deep-copies its
`value` binding.) A consumer that mutates the value it received changes what
every later call, every other consumer and `query_parameter` see.
"""

import gin

gin.constant('LAYER_SIZES', [64, 32])


@gin.configurable
def build(sizes=None, where=None):
  sizes.append(1)  # e.g. "add the output layer"
  where['sizes'].reverse()
  return sizes


@gin.configurable
def other(sizes=None):
  return sizes


gin.parse_config("""
  build.sizes = %LAYER_SIZES
  build.where = {'sizes': %LAYER_SIZES}
  other.sizes = %LAYER_SIZES
""")

first = build()
second = build()
problems = []
if first is second:
  problems.append('two calls received the very same object')
if gin.query_parameter('LAYER_SIZES') != [64, 32]:
  problems.append('query_parameter("LAYER_SIZES") now gives %r' %
                  gin.query_parameter('LAYER_SIZES'))
if other() != [64, 32]:
  problems.append('another consumer of %%LAYER_SIZES now receives %r' % other())
assert not problems, (
    'a consumer mutating a constant it received changed what later calls and '
    'queries see: ' + '; '.join(problems))
print('PASS')
