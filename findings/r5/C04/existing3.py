"""Pre-existing C04 violation 3 (API-level): one reference object used twice.

Property C04: "'@name()' delivers the result of calling it anew [...] however
deeply the reference is nested inside lists, tuples or dicts".

References are evaluated by `copy.deepcopy` calling
`ConfigurableReference.__deepcopy__` (gin/config.py ~l.801, "memo: unused").
`copy.deepcopy` itself, however, records the returned value in its memo under
`id(reference)`. If the *same* `ConfigurableReference` object occurs more than
once in the values bound to one configurable - which happens as soon as a value
is built in Python, e.g. `ref = gin.config.parse_value('@make()')` followed by
`gin.bind_parameter('f.x', [ref, ref])`, or one `ref` bound to two parameters -
only the first occurrence is evaluated and all further occurrences silently
receive the same result object. The text `[@make(), @make()]` (which is also
what `config_str()` prints for that binding) calls `make` twice and delivers
two distinct objects, so the same configuration behaves differently depending
on how it was entered, and a consumer that changes one of the values changes
the other.
"""

import gin

calls = []


@gin.configurable
def make():
  calls.append(1)
  return []


@gin.configurable
def parsed(x=None, y=None):
  return x, y


@gin.configurable
def bound(x=None, y=None):
  return x, y


gin.parse_config("""
  parsed.x = [@make(), @make()]
  parsed.y = @make()
""")
ref = gin.config.parse_value('@make()')
gin.bind_parameter('bound.x', [ref, ref])
gin.bind_parameter('bound.y', ref)

# Both configurations print identically.
text = gin.config_str()
assert 'parsed.x = [@make(), @make()]' in text, text
assert 'bound.x = [@make(), @make()]' in text, text

del calls[:]
x, y = parsed()
assert len(calls) == 3 and x[0] is not x[1] and x[0] is not y

del calls[:]
x, y = bound()
assert len(calls) == 3 and x[0] is not x[1] and x[0] is not y, (
    'bound.x = [@make(), @make()], bound.y = @make(): make() was called %d '
    'time(s) instead of 3; x[0] is x[1]: %s; x[0] is y: %s' %
    (len(calls), x[0] is x[1], x[0] is y))
print('PASS')
