"""Pre-existing C04 violation 4 (borderline): mutable defaults in the config text.

Property C04: "Whatever a consumer does to the values it receives never changes
what later calls, queries or config strings see."

`_make_gin_wrapper` captures the literally representable default values of the
signature once (`initial_configurable_defaults`, gin/config.py ~l.1554) and, on
every call, puts those very objects into `_OPERATIVE_CONFIG`
(`operative_parameter_values = initial_configurable_defaults.copy()` is a
shallow copy, ~l.1602/1622). For a default that is a mutable container the
operative config therefore aliases the function's default object: when the
consumer mutates the value it received for that parameter,
`operative_config_str()` prints the mutated value as if it were the
hyperparameter the program ran with - and parsing that text back *binds* the
mutated value, so a re-run starts from different data than the original run.
(The value was delivered by Python's default mechanism rather than by a Gin
binding, which is why this is borderline for C04; the config-string half of
the statement is what breaks.)
"""

import gin


@gin.configurable
def accumulate(history=[], limit=3):  # pylint: disable=dangerous-default-value
  history.append(len(history))
  return list(history)


first = accumulate()
text_after_first_call = gin.operative_config_str()
accumulate()
accumulate()
text_after_third_call = gin.operative_config_str()

assert 'accumulate.history = []' in text_after_third_call, (
    'the operative config no longer shows the default the program was started '
    'with; what the consumer did to the list it received leaked into the '
    'config string:\n' + text_after_third_call)
assert text_after_first_call == text_after_third_call
print('PASS')
