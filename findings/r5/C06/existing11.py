"""C06 on the UNCHANGED tree: a dict value whose keys cannot be ordered (several
references / macros -- `{@a: 1, %m: 2}` is supported syntax -- or complex
numbers) is printed in an order that depends on object addresses.

format_binding (gin/config.py ~l.2208) uses pprint.pformat, which sorts dict
items with pprint._safe_key; when `<` raises TypeError that falls back to
`(str(type(obj)), id(obj))`.  ConfigurableReference defines no ordering, so the
key order in the text is the order of the references' id()s: it changes with the
order in which the keys were written / allocated, i.e. the text does not depend
only on the set of bindings, and re-serialising after a round trip can give a
different text.
"""
import itertools

import gin


@gin.configurable
def fa(x=None):
  return x


@gin.configurable
def fb(x=None):
  return x


@gin.configurable
def fc(x=None):
  return x


def main():
  items = ['@fa: 1', '@fb: 2', '@fc: 3']
  texts = {}
  values = []
  for perm in itertools.permutations(items):
    gin.clear_config()
    gin.parse_config('fa.x = {' + ', '.join(perm) + '}')
    values.append(gin.query_parameter('fa.x'))
    text = gin.config_str()
    texts.setdefault(text, perm)
    # Round trip is a fixed point?
    gin.clear_config()
    gin.parse_config(text)
    again = gin.config_str()
    assert again == text, 'not a fixed point:\n{}\n---\n{}'.format(text, again)
  assert all(v == values[0] for v in values)  # The same binding every time ...
  assert len(texts) == 1, (  # ... so the text must be the same, too.
      'equal bindings serialise to {} different texts:\n{}'.format(
          len(texts), '\n'.join(t.splitlines()[-1] for t in texts)))

  # Complex keys: same mechanism.
  texts = set()
  for src in ('fa.x = {1j: 1, 2j: 2, 3j: 3}', 'fa.x = {3j: 3, 2j: 2, 1j: 1}',
              'fa.x = {2j: 2, 3j: 3, 1j: 1}'):
    gin.clear_config()
    gin.parse_config(src)
    text = gin.config_str()
    texts.add(text)
    gin.clear_config()
    gin.parse_config(text)
    assert gin.config_str() == text, 'not a fixed point: ' + text
  assert len(texts) == 1, texts
  gin.clear_config()
  print('PASS')


if __name__ == '__main__':
  main()
