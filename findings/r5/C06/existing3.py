"""C06 on the UNCHANGED tree: a parameter whose (legal Python) name starts with
a non-ASCII letter is emitted as a line the parser rejects.

bind_parameter only checks that the function has such a parameter
(_might_have_parameter), and _config_str prints `f.<name> = ...` verbatim, but
the parser's selector syntax (selector_map.SELECTOR_RE / config_parser
IDENTIFIER_RE: `[a-zA-Z_]\w*`) requires an ASCII first character (later
characters may be any \w).  So `f.élan = 2` is produced by config_str() and then
fails with "Malformatted scope or selector": the text does not always parse.
"""
import gin


@gin.configurable
def f(élan=1, naïve=2):
  return élan, naïve


def main():
  gin.clear_config()
  gin.bind_parameter('f.naïve', 5)  # Non-ASCII inside the name: fine.
  gin.bind_parameter('f.élan', 3)  # Non-ASCII first letter.
  assert f() == (3, 5)
  text = gin.config_str()
  gin.clear_config()
  try:
    gin.parse_config(text)
  except Exception as e:  # pylint: disable=broad-except
    raise AssertionError('config_str() output does not parse: {!r}\n{}'.format(
        e, text))
  assert gin.query_parameter('f.élan') == 3
  assert gin.config_str() == text
  print('PASS')


if __name__ == '__main__':
  main()
