"""C06 on the UNCHANGED tree (dynamic registration): a dict value with a
reference as key is silently dropped from config_str().

ConfigurableReference.__hash__ is hash(repr(self)) (gin/config.py ~l.783) and
__repr__ depends on the active parse context: inside _config_str, under dynamic
registration, it prints the ImportManager's selector (`@j.loads`), elsewhere
the selector as written (`@k.loads`).  Two files importing the same module under
different aliases therefore give the key a hash at parse time that differs from
the hash computed inside config_str().  `_format_value` compares
`parse_value(repr(value)) == value`; the dict comparison looks the new key up
by its new hash, misses, the dicts compare unequal and the (perfectly
representable) binding is treated as non-literal and omitted.
"""
import json

import gin


def main():
  gin.clear_config()
  gin.parse_config("""
    from __gin__ import dynamic_registration
    import json as j
    j.dumps.indent = 3
  """)
  gin.parse_config("""
    from __gin__ import dynamic_registration
    import json as k
    k.dumps.default = {@k.loads: 1}
    k.dumps.cls = [@k.loads]
  """)
  assert set(gin.get_bindings(json.dumps)) == {'indent', 'default', 'cls'}
  text = gin.config_str()
  gin.clear_config()
  gin.parse_config(text)
  restored = set(gin.get_bindings(json.dumps))
  assert restored == {'indent', 'default', 'cls'}, (
      'binding(s) {} lost in the round trip through:\n{}'.format(
          {'indent', 'default', 'cls'} - restored, text))
  assert gin.config_str() == text
  print('PASS')


if __name__ == '__main__':
  main()
