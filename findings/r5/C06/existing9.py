"""C06 on the UNCHANGED tree: config_str() raises for values whose repr cannot
be produced or tokenised, instead of omitting them.

_format_value (gin/config.py ~l.1019-1025) calls repr() outside the try block
and only catches SyntaxError around parse_value():
  * an int with more than 4300 digits makes repr() raise ValueError
    (Python >= 3.11 int/str conversion limit);
  * a list nested more than 200 levels makes the tokenizer raise
    tokenize.TokenError('too many nested parentheses'), which is not a
    SyntaxError.
Both are "values that have no literal form" and must be omitted.
"""
import gin


@gin.configurable
def g(x=None, y=None):
  return x


def check(value, what):
  gin.clear_config()
  gin.bind_parameter('g.x', value)
  gin.bind_parameter('g.y', 1)
  try:
    text = gin.config_str()
  except Exception as e:  # pylint: disable=broad-except
    raise AssertionError('config_str() raised {}: {} for {}'.format(
        type(e).__name__, str(e)[:80], what))
  gin.clear_config()
  gin.parse_config(text)
  assert gin.query_parameter('g.y') == 1


def main():
  nested = []
  for _ in range(250):
    nested = [nested]
  check(nested, 'a 250-deep nested list')
  check(10**5000, 'a 5001-digit int')
  print('PASS')


if __name__ == '__main__':
  main()
