"""C06 on the UNCHANGED tree: the text is not canonical for references -- it
depends on how a reference was spelled, not only on the set of bindings.

`@foo` and `@a.foo` denote the same configurable and the two reference values
compare equal, yet config_str() prints each the way it was written
(ConfigurableReference.__repr__, gin/config.py ~l.797: `selector =
self.selector`), whereas binding keys are normalised to the minimal selector.
Two configurations with identical bindings therefore serialise differently.
"""
import gin


@gin.configurable(module='a')
def foo(x=1):
  return x


@gin.configurable
def user(p=None):
  return p


def main():
  gin.clear_config()
  gin.parse_config('user.p = @foo')
  v1 = gin.query_parameter('user.p')
  s1 = gin.config_str()
  gin.clear_config()
  gin.parse_config('user.p = @a.foo')
  v2 = gin.query_parameter('user.p')
  s2 = gin.config_str()
  assert v1 == v2 and v1.configurable is v2.configurable
  assert s1 == s2, ('same bindings, different text:\n{}\n---\n{}'.format(s1, s2))
  print('PASS')


if __name__ == '__main__':
  main()
