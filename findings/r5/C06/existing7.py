"""C06 on the UNCHANGED tree: a macro reference is dropped from config_str()
once a constant of the same name exists.

`g.x = %FOO` parsed while no constant FOO exists is a reference to the macro
FOO.  If `gin.constant('FOO', ...)` is called later (e.g. by a module imported
afterwards), re-parsing the repr `%FOO` inside _format_value
(gin/config.py ~l.1019-1025, ParserDelegate.macro ~l.892-900) yields a reference
to the *constant*, which compares unequal to the stored macro reference, so the
binding is classified as "not literally representable" and omitted.
"""
import gin


@gin.configurable
def g(x=None):
  return x


def main():
  gin.clear_config(clear_constants=True)
  gin.parse_config('FOO = 3\ng.x = %FOO')
  assert g() == 3
  gin.constant('FOO', 4)
  assert g() == 3  # The binding still means the macro.
  text = gin.config_str()
  gin.clear_config(clear_constants=True)
  gin.parse_config(text)
  try:
    gin.query_parameter('g.x')
  except ValueError:
    raise AssertionError('binding g.x = %FOO was lost; config_str() gave:\n' +
                         text)
  assert g() == 3
  assert gin.config_str() == text
  print('PASS')


if __name__ == '__main__':
  main()
