"""C06 on the UNCHANGED tree: binding gin.macro's parameter without a scope
makes config_str() emit the unparseable line ` = 5`.

`macro.value = 5` (or `gin.macro.value = 5`) is a legal binding of the
registered configurable `gin.macro` in the empty scope.  _config_str's macro
section (gin/config.py ~l.2255-2271) prints every ('<scope>', 'gin.macro') entry
as `<scope> = value`; with the empty scope the "name" is empty and the line is
` = 5`, on which the parser raises SyntaxError('Unexpected token.').
"""
import gin


def main():
  gin.clear_config()
  gin.parse_config('macro.value = 5')
  text = gin.config_str()
  gin.clear_config()
  try:
    gin.parse_config(text)
  except Exception as e:  # pylint: disable=broad-except
    raise AssertionError('config_str() output does not parse: {!r}\n{}'.format(
        e, text))
  assert gin.query_parameter('macro.value') == 5
  assert gin.config_str() == text
  print('PASS')


if __name__ == '__main__':
  main()
