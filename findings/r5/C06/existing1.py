"""C06 on the UNCHANGED tree: config_str() raises (and its text would not parse)
once a reference's spelling has become ambiguous.

A reference value is printed with the selector *as the user spelled it*
(ConfigurableReference.__repr__, gin/config.py ~l.786-799: `selector =
self.selector`), while binding keys are printed with the registry's current
minimal selector.  If, after `user.p = @foo` was bound, another configurable
named `foo` is registered in a different module (a module imported later),
`@foo` is ambiguous.  `_format_value` (gin/config.py ~l.1019-1025) re-parses the
repr and only catches SyntaxError, so the KeyError('Ambiguous selector ...')
escapes from config_str(): the config string neither "always parses" nor can it
be produced at all, although the binding is perfectly representable as
`user.p = @a.foo`.
"""
import gin


@gin.configurable(module='a')
def foo(x=1):
  return x


@gin.configurable
def user(p=None):
  return p


def main():
  gin.clear_config()
  gin.parse_config('user.p = @foo')
  before = gin.config_str()
  assert 'user.p = @foo' in before

  # A module imported later registers another `foo`.
  @gin.configurable('foo', module='b')
  def other_foo(x=1):  # pylint: disable=unused-variable
    return x

  try:
    text = gin.config_str()
  except Exception as e:  # pylint: disable=broad-except
    raise AssertionError(
        'config_str() raised {!r} for a literally representable config'.format(
            e))
  gin.clear_config()
  try:
    gin.parse_config(text)
  except Exception as e:  # pylint: disable=broad-except
    raise AssertionError('config_str() output does not parse: {!r}\n{}'.format(
        e, text))
  ref = gin.query_parameter('user.p')
  assert ref.configurable.wrapped is foo
  assert gin.config_str() == text
  print('PASS')


if __name__ == '__main__':
  main()
