"""C06 on the UNCHANGED tree: config_str() is not a fixed point when all
bindings of some configurable are non-literal.

_config_str (gin/config.py ~l.2285-2299) still prints the block header and a
`# None.` line for a configurable whose parameters were all omitted.  Parsing
that text creates no entry for the configurable, so serialising again yields a
different (shorter) text: "serialising again yields the identical text" fails.
The same happens for values left behind by skip_unknown=True.
"""
import gin


@gin.configurable
def g(x=None):
  return x


@gin.configurable
def h(y=None):
  return y


def main():
  gin.clear_config()
  gin.bind_parameter('g.x', object())  # No literal form: omitted.
  gin.bind_parameter('h.y', 1)
  text = gin.config_str()
  gin.clear_config()
  gin.parse_config(text)  # Parses fine.
  assert gin.query_parameter('h.y') == 1
  again = gin.config_str()
  assert again == text, (
      'config_str() is not a fixed point of parse+serialise:\n'
      '--- first ---\n{}\n--- second ---\n{}'.format(text, again))
  print('PASS')


if __name__ == '__main__':
  main()
