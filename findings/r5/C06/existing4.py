"""C06 on the UNCHANGED tree (dynamic registration): a configurable defined
inside a function is printed with `<locals>` in its selector.

When dynamic registration is in effect, ImportManager.minimal_selector
(gin/config.py ~l.2166-2173) spells a decorator-registered configurable as
`<module>.<wrapped.__qualname__>`.  For a function defined in another function
the qualname is `make.<locals>.local`, so config_str() emits
`__main__.make.<locals>.local.x = 2`, which the parser rejects
("Malformatted scope or selector").  Nothing guards binding *keys* the way
_is_literally_representable guards values.
"""
import gin


def make():

  @gin.configurable
  def local(x=1):
    return x

  return local


local = make()


def main():
  gin.clear_config()
  gin.parse_config('local.x = 2')  # A plain (non-dynamic) file or binding.
  gin.parse_config("""
    from __gin__ import dynamic_registration
    import json
    json.dumps.indent = 3
  """)
  assert local() == 2
  text = gin.config_str()
  gin.clear_config()
  try:
    gin.parse_config(text)
  except Exception as e:  # pylint: disable=broad-except
    raise AssertionError('config_str() output does not parse: {!r}\n{}'.format(
        e, text))
  assert local() == 2, 'binding local.x = 2 was not restored'
  assert gin.config_str() == text
  print('PASS')


if __name__ == '__main__':
  main()
