"""C06 on the UNCHANGED tree: after a configurable is re-registered in
interactive mode, bindings referring to it disappear from config_str().

The stored ConfigurableReference keeps the superseded Configurable tuple.
_format_value (gin/config.py ~l.1019-1025) re-parses `@foo`, obtains a reference
to the *new* registration, ConfigurableReference.__eq__ (~l.772) compares the
Configurable tuples, they differ, and the binding is silently treated as
non-literal and omitted although `g.x = @foo` is exactly what the user wrote.
"""
import gin


@gin.configurable
def g(x=None, y=None):
  return x


def main():
  gin.clear_config()
  gin.enter_interactive_mode()
  try:

    @gin.configurable
    def foo(a=1):  # pylint: disable=unused-variable
      return a

    gin.parse_config('g.x = @foo\ng.y = 1')

    @gin.configurable
    def foo(a=1):  # pylint: disable=function-redefined
      return a

    text = gin.config_str()
    gin.clear_config()
    gin.parse_config(text)
    try:
      gin.query_parameter('g.x')
    except ValueError:
      raise AssertionError(
          'binding g.x = @foo was lost; config_str() gave:\n' + text)
    assert gin.config_str() == text
  finally:
    gin.exit_interactive_mode()
  print('PASS')


if __name__ == '__main__':
  main()
