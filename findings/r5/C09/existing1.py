"""C09, pre-existing: scope lists are entered and yielded BY REFERENCE.

`gin.config_scope(a_list)` pushes the caller's list object itself on the scope
stack (config.py, config_scope: `new_scope = name_or_scope`, no copy), and
`with gin.config_scope(...) as scope` yields the very list object that sits on
the stack (`yield new_scope`).  `gin.current_scope()` on the other hand takes
care to return a copy.  Consequences on the UNCHANGED library:

 1. Restoration is not exact.  Re-entering a captured scope (the documented use
    of the list form: "an existing scope (e.g., captured from `with
    gin.config_scope(...) as scope`)") puts ONE list object on the stack twice;
    whatever the inner block does to "its" scope list is still there after the
    inner block has been left, so the enclosing block does not get back the
    scope that was active before the inner entry.
 2. The active scope can change without any scope entry or exit, simply because
    the caller keeps using the list it passed in.
 3. The active scope is not private to a thread.  Handing a captured scope to a
    worker thread (the only way to propagate a scope to a thread) shares the
    list object between the two threads' scope stacks: the worker editing its
    own scope changes the scope, and hence the scoped bindings, observed by the
    first thread, which itself performs no scope operation at all.

Prints PASS iff the property holds; on the unchanged tree it fails at check 1.
Only public API is used.
"""
import threading

import gin


@gin.configurable
def probe(value='default'):
  return value


gin.parse_config("""
  probe.value = 'root'
  train/probe.value = 'train'
  train/worker/probe.value = 'train_worker'
  eval/probe.value = 'eval'
""")

failures = []

# 1. Exact restoration after leaving a nested block.
with gin.config_scope('train') as train_scope:
  before = (gin.current_scope(), probe())
  with gin.config_scope(train_scope) as inner_scope:  # documented list form
    inner_scope.append('worker')  # the inner block edits the list it was given
  after = (gin.current_scope(), probe())
  if after != before:
    failures.append(
        '1. after leaving the inner block the active scope/binding is %r, '
        'before entering it was %r: not restored exactly' % (after, before))
assert gin.current_scope() == []

# 2. No scope entry/exit, yet the active scope changes.
requested = ['train']
with gin.config_scope(requested):
  before = (gin.current_scope(), probe())
  requested[0] = 'eval'  # caller reuses its list for the next run
  after = (gin.current_scope(), probe())
  if after != before:
    failures.append(
        '2. active scope/binding changed from %r to %r inside one block '
        'without any scope entry or exit' % (before, after))
assert gin.current_scope() == []

# 3. Thread privacy.
handed_over = threading.Event()
worker_done = threading.Event()
box = {}


def worker():
  handed_over.wait()
  with gin.config_scope(box['scope']) as my_scope:  # adopt the parent's scope
    my_scope.append('worker')  # ... and refine it, in this thread only
    box['worker_saw'] = (gin.current_scope(), probe())
    worker_done.set()
    box['release'].wait()


thread = threading.Thread(target=worker)
thread.start()
box['release'] = threading.Event()
with gin.config_scope('train') as scope:
  before = (gin.current_scope(), probe())
  box['scope'] = scope
  handed_over.set()
  worker_done.wait()
  # This thread has not entered or left any scope since `before`.
  after = (gin.current_scope(), probe())
  box['release'].set()
  thread.join()
  if after != before:
    failures.append(
        '3. a scope operation in ANOTHER thread changed this thread\'s active '
        'scope/binding from %r to %r' % (before, after))

gin.clear_config()
assert not failures, '\n' + '\n'.join(failures)
print('PASS')
