"""C09, pre-existing (borderline: needs a generator suspended inside a scope).

`config_scope` undoes its entry with `_SCOPE_MANAGER.exit_scope()`, which pops
"the most recently entered scope OF THE THREAD THAT HAPPENS TO RUN THE EXIT"
(config.py, _ScopeManager.exit_scope: `self._active_scopes.pop()`; called from
the `finally:` of config_scope).  It neither checks that the popped entry is the
one this `config_scope` pushed, nor that it is being run by the thread that
pushed it.  A `with gin.config_scope(...)` block inside a generator (a data
pipeline that yields batches from inside its scope, say) can be left while it is
not the innermost entry, and by another thread than the one that entered it:
`generator.close()`, or simply dropping the last reference, raises GeneratorExit
at the `yield`, i.e. leaves the block, in whichever thread does that.

 A. One thread, two generators.  Closing the first-started generator pops the
    entry of the second: the second generator's block, which has neither been
    left nor entered anything, observes a different scope when it is resumed.
 B. Two threads.  A generator started (and suspended inside scope `data`) by a
    producer thread is closed by the main thread while the main thread is inside
    its own scope `main_scope`.  The exit pops the MAIN thread's entry: the main
    thread's active scope changes in the middle of its block, and the producer
    thread's scope is never restored (it stays ['data'] after the block was
    left).  This contradicts "on leaving the block by any path the previously
    active scope is restored exactly" and "the active scope is private to each
    thread".

Prints PASS iff none of this happens.  Only public API is used.
"""
import threading

import gin


@gin.configurable
def probe(value='default'):
  return value


gin.parse_config("""
  probe.value = 'root'
  a/probe.value = 'a'
  a/b/probe.value = 'a_b'
  data/probe.value = 'data'
  main_scope/probe.value = 'main'
""")

failures = []


def scoped_stream(name):
  with gin.config_scope(name):
    while True:
      yield gin.current_scope(), probe()


# A. Interleaved generators in one thread.
first, second = scoped_stream('a'), scoped_stream('b')
assert next(first) == (['a'], 'a')
seen_by_second = next(second)  # entered while `first` is suspended: a/b
first.close()
seen_again = next(second)  # `second` never left its block ...
if seen_again != seen_by_second:
  failures.append(
      'A. the block of the second generator observed %r, and after the FIRST '
      'generator was closed %r, without leaving or entering any scope itself' %
      (seen_by_second, seen_again))
second.close()
assert gin.current_scope() == [], gin.current_scope()

# B. A generator entered in one thread and closed in another.
box = {}
started = threading.Event()
closed = threading.Event()


def producer():
  box['stream'] = scoped_stream('data')
  box['first_batch'] = next(box['stream'])
  started.set()
  closed.wait()
  # The generator's `with` block has been left (by GeneratorExit).
  box['producer_after'] = (gin.current_scope(), probe())


thread = threading.Thread(target=producer)
thread.start()
started.wait()
with gin.config_scope('main_scope'):
  before = (gin.current_scope(), probe())
  box.pop('stream').close()  # leaves the generator's config_scope block
  try:
    after = (gin.current_scope(), probe())
  except IndexError as e:  # the stack can even be emptied completely
    after = 'IndexError: %s' % e
closed.set()
thread.join()
if after != before:
  failures.append(
      'B1. the main thread was in %r; after it closed a generator whose scope '
      'had been entered by ANOTHER thread it observed %r although it is still '
      'inside its own block' % (before, after))
if box['producer_after'] != ([], 'root'):
  failures.append(
      "B2. the producer thread entered 'data' from the root scope; after that "
      'block was left its scope should be restored to ([], \'root\') but it '
      'observes %r' % (box['producer_after'],))

gin.clear_config()
assert not failures, '\n' + '\n'.join(failures)
print('PASS')
