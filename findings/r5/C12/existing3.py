"""C12, pre-existing: finalize() accepts parameters that are still gin.REQUIRED.

Property (C12): "Finalizing ... rejects ... parameters still set to
%gin.REQUIRED".

`find_missing_overrides_hook` (end of gin/config.py) only recognises the one
shape `param = %gin.REQUIRED` where the bound value itself is a
`ConfigurableReference` to the `gin.constant` configurable:

    if isinstance(param_value, ConfigurableReference):
      if param_value.configurable.wrapped == _retrieve_constant: ...

It therefore misses
  (a) the same sentinel bound from Python: `gin.bind_parameter('fn.x',
      gin.REQUIRED)` (gin.REQUIRED is exactly the object that %gin.REQUIRED
      evaluates to, and it is the documented Python spelling of "required");
  (b) %gin.REQUIRED one level down in a container: `fn.x = [%gin.REQUIRED]`,
      `fn.x = {'k': %gin.REQUIRED}` (the unknown-reference and macro hooks do
      look inside containers via `_iterate_flattened_values`; this hook does
      not).
In each case finalize() succeeds, locks the config, and the configurable is
later called with the bare sentinel `object()` as (part of) its argument.
"""

import gin
from gin import config


@gin.configurable
def fn(x=None):
  return x


def finalize_rejects():
  try:
    gin.finalize()
  except ValueError:
    assert not config.config_is_locked()
    return True
  return False


failures = []

# Sanity: the plain spelling is rejected.
gin.clear_config()
gin.parse_config('fn.x = %gin.REQUIRED')
assert finalize_rejects()

# (a) The sentinel bound through the Python API.
gin.clear_config()
gin.bind_parameter('fn.x', gin.REQUIRED)
if not finalize_rejects():
  failures.append(
      "bind_parameter('fn.x', gin.REQUIRED): finalize() accepted; fn() -> "
      '{!r} (a deep copy of the sentinel)'.format(fn()))

# (b) %gin.REQUIRED inside a container.
for text in ('fn.x = [%gin.REQUIRED]', "fn.x = {'k': %gin.REQUIRED}",
             'fn.x = (1, %gin.REQUIRED)'):
  gin.clear_config()
  gin.parse_config(text)
  if not finalize_rejects():
    failures.append('{!r}: finalize() accepted; fn() -> {!r}'.format(
        text, fn()))

gin.clear_config()
assert not failures, (
    'C12 violated (parameter still set to %gin.REQUIRED survives finalize):\n  '
    + '\n  '.join(failures))
print('PASS')
