"""C12, pre-existing: interleaved unlock_config blocks lose the lock for good.

Property (C12), title: "unlock_config always restores the lock"; body: "leaving
an unlock_config block by any path ... restores the lock state that held on
entry".

The lock is one process-wide flag (`_CONFIG_IS_LOCKED` in gin/config.py) and
`unlock_config()` saves/restores it with an unsynchronised read-modify-write:

    config_was_locked = config_is_locked()   # read
    _set_config_is_locked(False)
    try: yield
    finally: _set_config_is_locked(config_was_locked)   # blind write

If two blocks overlap without being properly nested (two threads, or two
asyncio tasks / generators that each hold a block across a suspension point),
the second block records "unlocked" (the first block's temporary state) and
writes that back after the first block has already restored the lock. Result:
the config was finalized (locked) before either block was entered, every block
has been left, and yet the config is now permanently unlocked - later
bind_parameter calls silently succeed on a finalized config.

(Gin otherwise caters for threads: scopes are thread-local, the operative
config and singletons are guarded by locks.)

The interleaving is forced deterministically below with events:
    A enters, B enters, A leaves, B leaves.
"""

import threading

import gin
from gin import config


@gin.configurable
def fn(x=None):
  return x


gin.clear_config()
gin.bind_parameter('fn.x', 'finalized value')
gin.finalize()
assert config.config_is_locked()

a_entered = threading.Event()
b_entered = threading.Event()
a_left = threading.Event()
errors = []


def thread_a():
  try:
    with gin.unlock_config():
      a_entered.set()
      assert b_entered.wait(10)
    a_left.set()
  except BaseException as e:  # pylint: disable=broad-except
    errors.append(e)
    a_left.set()


def thread_b():
  try:
    assert a_entered.wait(10)
    with gin.unlock_config():
      b_entered.set()
      assert a_left.wait(10)
  except BaseException as e:  # pylint: disable=broad-except
    errors.append(e)
    b_entered.set()


ta = threading.Thread(target=thread_a)
tb = threading.Thread(target=thread_b)
ta.start()
tb.start()
ta.join(20)
tb.join(20)
assert not errors, errors
assert not ta.is_alive() and not tb.is_alive()

# Every unlock_config block has been left; the config was locked before the
# first one was entered, so it has to be locked now.
still_locked = config.config_is_locked()
modified = False
try:
  gin.bind_parameter('fn.x', 'changed after finalize')
  modified = True
except RuntimeError:
  pass

assert still_locked and not modified, (
    'C12 violated: config was finalized, two overlapping unlock_config blocks '
    'were entered and left, and now config_is_locked() == {} and '
    'bind_parameter on the finalized config {} (fn() == {!r})'.format(
        still_locked, 'succeeded' if modified else 'raised', fn()))
print('PASS')
