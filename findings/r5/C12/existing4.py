"""C12, pre-existing: overlapping finalize() calls both succeed.

Property (C12): "finalizing twice is an error".

`finalize()` (gin/config.py) tests the lock at the top and sets it only at the
very end, after all hooks have run and their bindings were applied, without any
synchronisation:

    if config_is_locked(): raise RuntimeError('Finalize called twice ...')
    ... run hooks, bind ...
    _set_config_is_locked(True)

A second finalize() that starts while the first one is still inside a hook
(another thread, or a hook that re-enters finalize) passes the check too. Both
calls run all the hooks and both return normally: the config has been finalized
twice and nobody was told.

Forced deterministically: thread 1 blocks inside a hook, thread 2 finalizes
completely in the meantime, then thread 1 is released.
"""

import threading

import gin
from gin import config


@gin.configurable
def fn(x=None):
  return x


in_hook = threading.Event()
release = threading.Event()
hook_runs = []


@config.register_finalize_hook
def slow_hook(cfg):  # pylint: disable=unused-argument
  hook_runs.append(threading.current_thread().name)
  if threading.current_thread().name == 'first':
    in_hook.set()
    assert release.wait(10)
  return None


gin.clear_config()
outcome = {}


def do_finalize():
  name = threading.current_thread().name
  try:
    gin.finalize()
    outcome[name] = 'ok'
  except RuntimeError as e:
    outcome[name] = 'RuntimeError: {}'.format(e)


t1 = threading.Thread(target=do_finalize, name='first')
t1.start()
assert in_hook.wait(10)
t2 = threading.Thread(target=do_finalize, name='second')
t2.start()
t2.join(10)
release.set()
t1.join(10)
assert not t1.is_alive() and not t2.is_alive()
assert config.config_is_locked()

succeeded = [n for n, o in outcome.items() if o == 'ok']
assert len(succeeded) == 1, (
    'C12 violated: finalize() was called twice on the same configuration '
    '(no clear_config / unlock_config in between) and both calls succeeded: '
    '{}; hooks ran in {}'.format(outcome, hook_runs))
print('PASS')
