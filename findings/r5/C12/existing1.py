"""C12, pre-existing: a rejected finalize() can leave the config MODIFIED.

Property (C12): "Finalizing ... applies the bindings the hooks return ... and on
rejection leaves the configuration unlocked and unmodified".

`gin.finalize()` (gin/config.py, the loop `for pbk, value in bindings.items():
bind_parameter(pbk, value)`) applies the collected hook bindings one at a time
with no rollback. `bind_parameter` can still raise at that point: before
storing the value it runs `iterate_references(value)`, which walks into every
`collections.abc.Iterable`. That walk raises for perfectly legal Python values:
  * a 0-d numpy array (`np.array(5)`): "TypeError: iteration over a 0-d array";
  * a container that contains itself: RecursionError.
When the failing value is not the first one, the earlier hook bindings are
already in the config: finalize raises, the config stays unlocked, but it is no
longer the config that was there before finalize was called.
"""

import gin
from gin import config


@gin.configurable
def fn(x=None, y=None):
  return x, y


STATE = {'bad_value': None}


@config.register_finalize_hook
def providing_hook(cfg):  # pylint: disable=unused-argument
  if STATE['bad_value'] is None:
    return None
  # dicts are ordered: 'fn.x' is applied first, then 'fn.y' fails.
  return {'fn.x': 'set by hook', 'fn.y': STATE['bad_value']}


def run(bad_value, what):
  gin.clear_config()
  gin.bind_parameter('fn.x', 'original')
  before = gin.config_str()
  STATE['bad_value'] = bad_value
  rejected = False
  try:
    gin.finalize()
  except (Exception, RecursionError):  # pylint: disable=broad-except
    rejected = True
  finally:
    STATE['bad_value'] = None
  if not rejected:
    return None  # Accepted: nothing to check for this property clause.
  problems = []
  if config.config_is_locked():
    problems.append('config left locked')
  if gin.query_parameter('fn.x') != 'original' or gin.config_str() != before:
    problems.append(
        'config modified: fn.x is now {!r} (was {!r})'.format(
            gin.query_parameter('fn.x'), 'original'))
  return '{}: finalize() rejected but {}'.format(
      what, '; '.join(problems)) if problems else None


failures = []

self_containing = []
self_containing.append(self_containing)
failures.append(run(self_containing, 'hook value = list containing itself'))

try:
  import numpy as np  # pylint: disable=g-import-not-at-top
  failures.append(run(np.array(5), 'hook value = 0-d numpy array'))
except ImportError:
  pass

failures = [f for f in failures if f]
assert not failures, 'C12 violated:\n  ' + '\n  '.join(failures)
print('PASS')
