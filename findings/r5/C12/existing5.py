"""C12, pre-existing (borderline): parse_config on a locked config that does
not raise, and that changes what config_str() reports.

Property (C12): "Once the configuration is finalized, every attempt to add or
change a binding ... raises and changes nothing".

The lock is only enforced inside `bind_parameter` / `_make_configurable`.
`parse_config` (gin/config.py) itself never looks at the lock, so on a
finalized config:
  (a) `parse_config('unknown_fn.x = 1', skip_unknown=True)` - an attempt to add
      a binding - returns normally instead of raising (the statement is
      dropped by `_should_skip` before `bind_parameter` is reached);
  (b) `parse_config('import math')` returns normally AND records the import in
      `_IMPORTS`, so `gin.config_str()` of the finalized config is different
      afterwards (an `import math` line appears);
  (c) when a later statement of the same text does hit the lock, the imports
      of the earlier statements have already been executed (Python import side
      effects), although `_IMPORTS` is not updated in that case.
"""

import gin
from gin import config


@gin.configurable
def fn(x=None):
  return x


gin.clear_config()
gin.bind_parameter('fn.x', 1)
gin.finalize()
assert config.config_is_locked()
before = gin.config_str()

failures = []

try:
  gin.parse_config('unknown_fn.x = 1', skip_unknown=True)
  failures.append(
      "parse_config('unknown_fn.x = 1', skip_unknown=True) on a finalized "
      'config did not raise')
except RuntimeError:
  pass

try:
  gin.parse_config('import math')
  failures.append("parse_config('import math') on a finalized config did not "
                  'raise')
except RuntimeError:
  pass

after = gin.config_str()
if after != before:
  failures.append(
      'config_str() of the finalized config changed:\n--- before\n{}\n--- '
      'after\n{}'.format(before, after))

assert config.config_is_locked()
gin.clear_config()
assert not failures, 'C12 violated:\n  ' + '\n  '.join(failures)
print('PASS')
