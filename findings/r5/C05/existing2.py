"""C05, pre-existing: '%name' binding API breaks when another `macro` exists.

Property (C05): '%name' always evaluates to the value most recently bound to
that macro (by a config statement or by the documented Python spelling
`gin.bind_parameter('%name', value)`), for every macro name.

`config_parser.parse_scoped_selector` (gin/config_parser.py, ~line 616)
rewrites '%name' to 'name/macro.value', i.e. it names Gin's builtin by the
ABBREVIATED selector 'macro' instead of the full 'gin.macro' (which
`parse_config` and `ParserDelegate.macro` use). As soon as an unrelated
configurable that happens to be called `macro` is registered in any other
module, 'macro' is an ambiguous selector, and re-binding or querying a macro
through the '%name' spelling raises KeyError instead of (re)binding it; the
same holds for the config file spelling 'name/macro.value = ...' and
'@name/macro()'.
"""
import gin


@gin.configurable
def sink(x=None):
  return x


# An unrelated configurable of some user module whose function is called
# `macro` (e.g. a keyboard-macro recorder).
@gin.configurable('macro', module='keyboard')
def record_macro(keys=()):
  return keys


def main():
  gin.clear_config()
  gin.parse_config("""
    batch_size = 512
    sink.x = %batch_size
  """)
  assert sink() == 512

  try:
    gin.bind_parameter('%batch_size', 256)
  except KeyError as e:
    raise AssertionError(
        "gin.bind_parameter('%batch_size', 256) does not re-bind the macro "
        'because an unrelated configurable keyboard.macro exists: {}'.format(e))
  assert sink() == 256, sink()
  assert gin.query_parameter('%batch_size') == 256

  gin.clear_config()
  print('PASS')


if __name__ == '__main__':
  main()
