"""C05, pre-existing: the constant-vs-macro decision for '%name' is EARLY bound.

Property (C05): macros and constants are late-bound named values; a '%name'
that matches a Python-defined constant yields that very object, whatever the
order of definitions and uses across parse calls.

`ParserDelegate.macro` (gin/config.py, ~line 892) decides ONCE, while the text
'%name' is being parsed, whether it denotes a constant (-> reference to
`gin.constant` in scope <full constant name>) or a macro (-> reference to
`gin.macro` in scope <name>), by looking at the constants that exist at that
very moment. A constant that is defined after the use was parsed (e.g. the
Python module calling `gin.constant` is imported after the first
`gin.parse_config`, or by a later `import` statement of the config itself) is
never seen by that '%name':

  * without a macro of that name the use fails at call time (unbound macro),
    although '%name' does match a Python-defined constant by then;
  * with a macro of that name bound, two textually identical '%K' in the same
    configuration silently evaluate to two different things, depending only on
    whether they were parsed before or after `gin.constant('K', ...)`.
"""
import gin


@gin.configurable
def sink(x=None, y=None):
  return x, y


def main():
  gin.clear_config(clear_constants=True)
  the_object = object()

  # Part 1: use parsed first, constant defined afterwards, then evaluated.
  gin.parse_config('sink.x = %defaults.HANDLE')
  gin.constant('defaults.HANDLE', the_object)
  try:
    x, _ = sink()
  except Exception as e:  # pylint: disable=broad-except
    raise AssertionError(
        "'%defaults.HANDLE' matches the Python-defined constant "
        "'defaults.HANDLE' when it is evaluated, but does not yield it "
        '(the use was parsed before gin.constant ran): {}: {}'.format(
            type(e).__name__, str(e).splitlines()[0]))
  assert x is the_object, x

  # Part 2: same name, a macro binding exists as well.
  gin.clear_config(clear_constants=True)
  gin.parse_config("""
    K = 'macro value'
    sink.x = %K
  """)
  gin.constant('K', the_object)
  gin.parse_config('sink.y = %K')
  x, y = sink()
  assert x is y, (
      "two uses of '%K' in one configuration evaluate differently: {!r} vs "
      '{!r}'.format(x, y))

  gin.clear_config(clear_constants=True)
  print('PASS')


if __name__ == '__main__':
  main()
