"""C06: a value of a SUBCLASS of a literal type that inherits the base repr (class Steps(int), class Name(str), bool-like
ints, numpy-1 style scalars) passes gin's representability test (parse_value(repr(v)) == v), is emitted by config_str()
as the base literal and is restored as the BASE type: 'an equal value of the same type' does not hold."""
import gin


class Steps(int):
  pass


class Name(str):
  pass


@gin.configurable
def train(steps=0, name=''):
  return steps, name


gin.bind_parameter('train.steps', Steps(3))
gin.bind_parameter('train.name', Name('run'))
text = gin.config_str()
print(text)
gin.clear_config()
gin.parse_config(text)
for p, t in (('steps', Steps), ('name', Name)):
  got = gin.query_parameter('train.' + p)
  print(p, repr(got), type(got).__name__, 'same type' if type(got) is t else 'NOT the same type (%s bound)' % t.__name__)
