"""Pre-existing C11 violation: dynamic registration drops a class's
denylist/allowlist as soon as one of its methods is referenced.

Property: a binding is accepted only if the parameter is inside the
configurable's allowlist / outside its denylist, on every binding path.

Cause (gin/config.py, ParseContext._register, ~lines 317-332): registering a
method `mod.C.method` under dynamic registration unconditionally re-registers
the parent class through `_make_configurable(fn_or_cls, name=..., module=...,
import_source=..., avoid_class_mutation=True)` -- without the allowlist and
denylist of the existing registration of that class.  `_make_configurable`
permits this because the wrapped object is the same, and the new `Configurable`
(allowlist=None, denylist=None) replaces the old one in _REGISTRY and
_INVERSE_REGISTRY.  From then on the denylisted parameter is bindable and is
injected.  Even a *rejected* method binding (unknown method parameter) has this
side effect.
"""
import gin


@gin.register(denylist=['secret'])
class Vault:

  def __init__(self, secret='default', size=1):
    self.secret, self.size = secret, size

  def open(self, force=False):
    return force


@gin.configurable(allowlist=['size'])
class Safe:

  def __init__(self, secret='default', size=1):
    self.secret, self.size = secret, size

  def open(self, force=False):
    return force


@gin.configurable
def make(obj=None):
  return obj


HEADER = 'from __gin__ import dynamic_registration\nimport __main__ as app\n'
violations = []


def must_reject(label, text):
  before = gin.config_str()
  try:
    gin.parse_config(HEADER + text)
  except ValueError as e:
    assert 'denylisted' in str(e) or 'allowlist' in str(e), e
    assert gin.config_str() == before
  else:
    violations.append(label)


# Sanity: the lists are enforced before any method is mentioned.
must_reject('Vault.secret (fresh)', 'app.Vault.secret = 1')
must_reject('Safe.secret (fresh)', 'app.Safe.secret = 1')
assert not violations, violations

# A method binding registers the method -- and re-registers the class.
gin.parse_config(HEADER + 'app.Vault.open.force = True')
must_reject('Vault.secret after binding Vault.open.force',
            'app.Vault.secret = "leaked"')
must_reject('scoped Vault.secret after binding Vault.open.force',
            's/app.Vault.secret = "leaked"')

# Even a rejected method binding is enough.
try:
  gin.parse_config(HEADER + 'app.Safe.open.no_such_parameter = 1')
except ValueError:
  pass
else:
  raise AssertionError('unknown method parameter accepted')
must_reject('Safe.secret after a REJECTED binding on Safe.open',
            'app.Safe.secret = "leaked"')

if violations:
  gin.parse_config(HEADER + 'app.make.obj = @app.Vault()')
  injected = make().secret
  raise AssertionError(
      'denylisted / non-allowlisted parameters were bound: %s; Vault() built '
      'from the config got secret=%r' % (violations, injected))
print('PASS')
