"""Pre-existing C11 violation: bind_parameter() performs no validation at all
when the key is a `gin.config.ParsedBindingKey` instance.

Property: a binding is accepted only if it names a registered configurable and
a configurable parameter of it, for every way of making a binding.

Cause (gin/config.py, ParsedBindingKey.parse, ~lines 943-944):
`if isinstance(binding_key, ParsedBindingKey): return cls(*binding_key)`.
`ParsedBindingKey` is a public NamedTuple whose constructor checks nothing (the
checks live in the `parse` classmethod), and `bind_parameter` documents tuples
as keys; finalize() relies on this path.  A key built by hand (or kept from
before a re-registration) therefore binds unregistered configurables, unknown
parameters, denylisted parameters and methods without their class name.
"""
import gin
from gin import config


@gin.configurable(denylist=['b'])
def fn(a=1, b=2):
  return a, b


violations = []


def must_reject(label, key):
  try:
    gin.bind_parameter(key, 99)
  except (ValueError, KeyError):
    return
  violations.append(label)


PBK = config.ParsedBindingKey
must_reject('unregistered configurable', PBK('', 'ghost', 'no.such.ghost', 'x'))
must_reject('unknown parameter', PBK('', 'fn', '__main__.fn', 'zzz'))
must_reject('denylisted parameter', PBK('', 'fn', '__main__.fn', 'b'))

if violations:
  try:
    text = gin.config_str()
  except KeyError as e:
    text = 'config_str() raises KeyError(%s)' % e
  try:
    result = 'fn() returns %r' % (fn(),)
  except TypeError as e:
    result = 'fn() raises TypeError: %s' % str(e).splitlines()[0]
  raise AssertionError(
      'accepted without validation: %s; %s; %s' % (violations, result, text))
print('PASS')
