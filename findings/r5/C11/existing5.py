"""Pre-existing C11 violation: a class that defines neither `__init__` nor
`__new__` (so that it takes no arguments at all) accepts a binding for ANY
parameter name.

Property: a binding is accepted only if it names a parameter that the
configurable's signature can accept (or it takes **kwargs).

Cause (gin/config.py, _find_class_construction_fn ~lines 435-441 together with
_might_have_parameter ~lines 1181-1191): the MRO walk ends at `object`, whose
`__dict__` has `__init__`, so the construction function is `object.__init__`
with signature `(self, /, *args, **kwargs)`.  `arg_spec.varkw` is set and every
name is reported as a possible parameter -- yet `Cls(anything=1)` raises
"takes no arguments".  The same laxness applies when validating
allowlist/denylist at registration.
"""
import gin


@gin.configurable
class Marker:
  """Takes no constructor arguments."""


class _Plain:
  pass


Plain = gin.external_configurable(_Plain, name='Plain')

violations = []
for key in ('Marker.anything', 'Plain.whatever', 's/Marker.other'):
  try:
    gin.bind_parameter(key, 1)
  except ValueError:
    continue
  violations.append(key)

for text in ('Marker.from_text = 1', 'Plain:\n  from_block = 1\n'):
  try:
    gin.parse_config(text)
  except ValueError:
    continue
  violations.append(text)

try:
  gin.external_configurable(_Plain, name='Plain2', denylist=['not_there'])
  violations.append("registration with denylist=['not_there']")
except ValueError:
  pass

if violations:
  try:
    Marker()
    outcome = 'Marker() succeeded'
  except TypeError as e:
    outcome = 'Marker() now fails: ' + str(e).splitlines()[0]
  raise AssertionError('accepted for classes that take no arguments: %s; %s' %
                       (violations, outcome))
print('PASS')
