"""Pre-existing C11 violation: a method registered on a class that is
registered with @gin.configurable (rather than @gin.register /
external_configurable) is addressable WITHOUT its class name -- and only so.
Also, a configurable *reference* (`@method`) reaches any registered method
without the class name.

Property: a method registered on a registered class is addressable only
through its class name.

Cause (gin/config.py): the rename `module.method -> module.Class.method` and
the `is_method=True` mark happen in _find_registered_methods, which
_decorate_fn_or_cls only calls on the `avoid_class_mutation=True` branch
(~lines 600-606).  @gin.configurable passes avoid_class_mutation=False (~line
1884), so the method keeps its provisional selector `module.method` with
is_method=False, and the check in ParsedBindingKey.parse (~lines 958-961) never
fires.  For references, ConfigurableReference.initialize (~lines 735-742) has
no such check at all.
"""
import gin


@gin.configurable
class Agent:

  def __init__(self, name='a'):
    self.name = name

  @gin.configurable
  def act(self, greedy=False):
    return greedy


@gin.register
class Critic:

  @gin.register
  def score(self, scale=1):
    return scale


@gin.configurable
def run(fn=None):
  return fn


violations = []

# Reference case first (it does not depend on the class decorator).
try:
  gin.parse_config('run.fn = @score')
  violations.append("reference '@score' resolved to method Critic.score "
                    'without its class name')
except ValueError:
  pass
gin.clear_config()

for key in ('act.greedy', 'scope/act.greedy'):
  try:
    gin.bind_parameter(key, True)
    violations.append('%s accepted without class name' % key)
  except ValueError:
    pass
try:
  gin.bind_parameter('Agent.act.greedy', True)
except ValueError as e:
  violations.append('Agent.act.greedy (with class name) rejected: %s' % e)

assert not violations, '\n'.join(violations)
print('PASS')
