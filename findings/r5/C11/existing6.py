"""Pre-existing C11 violation (interpretation-dependent): an EMPTY allowlist
does not restrict anything.

Property: a parameter is bindable only if it is inside the configurable's
allowlist; quantified over "every allowlist/denylist".  With `allowlist=[]`
no parameter is inside the allowlist, so nothing should be bindable.

Cause (gin/config.py): the list is tested for truthiness everywhere --
ParsedBindingKey.parse (~line 967: `if configurable_.allowlist and arg_name
not in configurable_.allowlist`), _make_configurable (~lines 1760-1765) and
_get_validated_required_kwargs / _get_default_configurable_parameter_values
(~lines 1255, 1282) -- so `[]` / `()` behave exactly like `None`.  A caller
computing the allowlist (e.g. `allowlist=[p for p in params if tunable(p)]`)
silently gets a fully configurable function when the list comes out empty.
"""
import gin


@gin.configurable(allowlist=[])
def frozen(a=1, b=2):
  return a, b


sealed = gin.external_configurable(lambda c=3: c, 'sealed', allowlist=())

violations = []
for key in ('frozen.a', 'scope/frozen.b', 'sealed.c'):
  try:
    gin.bind_parameter(key, 99)
  except ValueError:
    continue
  violations.append(key)

assert not violations, (
    'parameters outside the (empty) allowlist were bound: %s; frozen() -> %r' %
    (violations, frozen()))
print('PASS')
