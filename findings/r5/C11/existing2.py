"""Pre-existing C11 violation: re-registering a configurable under the same
selector with a different allowlist/denylist leaves bindings for parameters
that are no longer (or never were, for the first wrapper) configurable, and
they are injected.

Property: only configurable parameters can ever be bound, "so a
non-configurable parameter is never injected".

Cause (gin/config.py, _make_configurable, ~lines 1752-1758 and 1799-1800):
registering the *same* function/class again under an existing selector is
allowed even outside interactive mode (`_REGISTRY[selector].wrapped is
fn_or_cls`), and in interactive mode any object may replace it.  The new
`Configurable` simply overwrites the registry entry; _CONFIG is not reconciled
with the new lists, and `gin_wrapper` (~line 1561) injects everything found
under the selector without consulting allowlist/denylist.  Both the old and the
new wrapper read the same selector.
"""
import gin


def connect(host='localhost', password='default'):
  return host, password


violations = []

# (a) lists tightened by a later registration: old binding survives.
loose = gin.external_configurable(connect, 'connect')
gin.bind_parameter('connect.password', 'from-config')
strict = gin.external_configurable(connect, 'connect', denylist=['password'])
try:
  gin.bind_parameter('connect.password', 'again')
  violations.append('(a) denylisted parameter accepted after re-registration')
except ValueError:
  pass
if strict() != ('localhost', 'default'):
  violations.append(
      '(a) wrapper registered with denylist=[password] got %r injected; '
      'config_str:\n%s' % (strict(), gin.config_str()))
gin.clear_config()

# (b) lists loosened by a later registration: the first wrapper, whose own
# denylist contains `password`, gets it injected.
strict = gin.external_configurable(connect, 'connect2', denylist=['password'])
gin.external_configurable(connect, 'connect2')
gin.bind_parameter('connect2.password', 'from-config')
if strict() != ('localhost', 'default'):
  violations.append(
      '(b) wrapper registered with denylist=[password] got %r injected' %
      (strict(),))
gin.clear_config()

# (c) interactive mode: a different function with a different signature
# inherits bindings for parameters it does not have.
with gin.config.interactive_mode():

  @gin.configurable('job')
  def job_v1(retries=1):
    return retries

  gin.bind_parameter('job.retries', 5)

  @gin.configurable('job')
  def job_v2(timeout=1):
    return timeout

try:
  gin.bind_parameter('job.retries', 6)
  violations.append('(c) parameter of the replaced function still bindable')
except ValueError:
  pass
try:
  job_v2()
except TypeError as e:
  violations.append(
      "(c) binding job.retries (not a parameter of the registered 'job') is "
      'still in the config and injected: %s' % str(e).splitlines()[0])

assert not violations, '\n'.join(violations)
print('PASS')
