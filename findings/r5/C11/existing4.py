"""Pre-existing C11 violation: names in the signature that the configurable can
NOT accept from a binding are accepted: `self` / `cls` of a class's
construction function and of registered methods, and positional-only
parameters.

Property: a binding is accepted only if it names a parameter that the
configurable's signature can accept (or it takes **kwargs).

Cause (gin/config.py, _might_have_parameter, ~lines 1181-1191): the check is
`arg_name in arg_spec.args or arg_name in arg_spec.kwonlyargs` on the
getfullargspec of the raw `__init__` / `__new__` / method function.
`FullArgSpec.args` includes the implicit first argument (`self`, `cls`) and
also positional-only parameters (PEP 570), none of which can be passed by
keyword, which is the only way gin injects values (`fn(*new_args,
**new_kwargs)`, ~line 1667).  The binding is stored (and shown by config_str);
for a positional-only parameter every later call of the configurable fails with
TypeError, for `self`/`cls` the value can never be delivered (the wrapper drops
it because the caller "supplied" that positional argument).
"""
import gin


@gin.configurable
class Model:

  def __init__(self, width=1):
    self.width = width


@gin.configurable
class Value:

  def __new__(cls, x=0):
    return super().__new__(cls)


@gin.register
class Service:

  @gin.register
  def run(self, fast=False):
    return fast


@gin.configurable
def clamp(value=0, /, low=0):
  return max(value, low)


violations = []


def must_reject(key, call):
  try:
    gin.bind_parameter(key, 7)
  except ValueError:
    return
  try:
    call()
    outcome = 'stored, shown by config_str, but can never be delivered'
  except TypeError as e:
    outcome = 'every call now fails: ' + str(e).splitlines()[0]
  violations.append('%s accepted (%s)' % (key, outcome))
  gin.clear_config()


must_reject('Model.self', Model)
must_reject('Value.cls', Value)
must_reject('Service.run.self',
            lambda: gin.get_configurable(Service)().run())
must_reject('clamp.value', clamp)          # positional-only

assert not violations, '\n'.join(violations)
print('PASS')
