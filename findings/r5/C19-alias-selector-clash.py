"""C19: under dynamic registration an object reached through an ALIASED import is registered under the import's module path
with the alias as its last component ('import zc19z as zc19top' registers zc19z.g under the selector 'zc19top.g'). When
that alias is the name of a real module, the selector is the one the real module's own object gets: a second file that is
correct on its own ('import zc19top' / 'zc19top.g.x = 2': every name provided by its own imports) is rejected with a
ValueError because of what ANOTHER file imported - in either order of the two files.  The property says a dotted name
resolves through the file's own imports to the exact object, which is registered and configured; the registry key chosen
for file A's object leaks file A's alias into file B.  (The Coq model DynReg.v follows the implementation here:
register = partial_path ++ inner names; the C19 generator avoids such pairs - harness/props/c19.py drop_selector_clashes.)"""
import os
import sys
import tempfile

import gin

root = tempfile.mkdtemp(prefix='c19clash')
for name in ('zc19z', 'zc19top'):
  with open(os.path.join(root, name + '.py'), 'w') as f:
    f.write("def g(x=0):\n  return (%r, x)\n" % (name + '.g'))
sys.path.insert(0, root)

FILE_A = 'from __gin__ import dynamic_registration\nimport zc19z as zc19top\nzc19top.g.x = 1\n'
FILE_B = 'from __gin__ import dynamic_registration\nimport zc19top\nzc19top.g.x = 2\n'

# `python this.py` parses A then B, `python this.py swap` B then A (the registry cannot be cleared within one process)
first, second = (FILE_B, FILE_A) if sys.argv[1:] == ['swap'] else (FILE_A, FILE_B)
gin.parse_config(first)
try:
  gin.parse_config(second)
  print('second file accepted')
except ValueError as e:
  print('second file rejected: ValueError: %s' % str(e).splitlines()[0])
  print(second)
