"""C07, pre-existing violation 2: a later registration makes a reference
ambiguous and operative_config_str() raises.

A reference is resolved when the binding is parsed, so `@g()` keeps working
after a second configurable named `g` (other module) is registered, e.g. by a
module imported later.  But `ConfigurableReference.__repr__` (gin/config.py)
prints the selector *as it was written* (`self.selector`) instead of a minimal
unambiguous selector, and `_format_value` re-parses that text to decide
representability while catching only `SyntaxError`.  The re-parse now raises
`KeyError: Ambiguous selector 'g'`, which escapes from operative_config_str()
(and config_str()).

Property: after ANY sequence of calls operative_config_str() returns a text
with a section for every called pair, which can be parsed back.
"""
import gin


@gin.configurable(module='lib_a')
def g():
  return 1


@gin.configurable
def f(x=0):
  return x


gin.parse_config('f.x = @g()')
assert f() == 1


# Registered afterwards (think: a module imported lazily after parsing).
@gin.configurable('g', module='lib_b')
def other_g():
  return 2


assert f() == 1  # The binding still refers to lib_a.g, and works.

try:
  text = gin.operative_config_str()
except Exception as e:  # pylint: disable=broad-except
  raise AssertionError(
      'operative_config_str() raised %s: %s' % (type(e).__name__, e))

# It must name lib_a.g unambiguously and replay.
gin.clear_config()
gin.parse_config(text)
assert f() == 1
assert gin.operative_config_str() == text
print('PASS')
