"""C07, pre-existing violation 1: bound methods / callable objects.

A bound method (or a callable instance) is a legal argument of
`gin.external_configurable` (`_get_cached_arg_spec` even has a branch "`fn` might
be a callable object").  For such callables `inspect.getfullargspec` still lists
the already-bound first parameter (`self` / `cls`), so
`_get_supplied_positional_parameter_names` (gin/config.py, `arg_spec.args[:len(args)]`)
maps the caller's first positional argument to `self`.  The parameter the caller
really supplied is therefore treated as "not supplied by the caller": its
signature default is written to the operative config although it was never
used.  (With a binding for that parameter the call even fails with "got multiple
values".)

Property: parameters the caller always supplied do not appear, and the text
shows the values that were used.
"""
import gin


class Scaler:

  def scale(self, factor=2, offset=0):
    return factor, offset

  def __call__(self, power=3):
    return power


obj = Scaler()
scale = gin.external_configurable(obj.scale, name='scale')
power = gin.external_configurable(obj, name='power')

assert scale(10) == (10, 0)      # caller supplies factor=10; offset from default
assert power(7) == 7             # caller supplies power=7

text = gin.operative_config_str()
lines = [l for l in text.splitlines() if l and not l.startswith('#')]
assert 'scale.offset = 0' in lines, text
assert not any(l.startswith('scale.factor') for l in lines), (
    "the caller supplied `factor` (=10) in the only call, yet the operative "
    'config lists it with the unused default:\n' + text)
assert not any(l.startswith('power.power') for l in lines), (
    "the caller supplied `power` (=7) in the only call, yet the operative "
    'config lists it with the unused default:\n' + text)
print('PASS')
