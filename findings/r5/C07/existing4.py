"""C07, pre-existing violation 4: interactive-mode re-registration makes a used
binding disappear from the operative config.

In interactive mode a configurable may be registered again.  A reference parsed
before keeps pointing at the old registration (and still works: Gin supplies
its result).  `_format_value` decides representability by re-parsing
`repr(value)` and comparing with `==`; `ConfigurableReference.__eq__`
(gin/config.py) compares the `Configurable` records, and the re-parsed `@g()`
resolves to the *new* registration, so the comparison fails and the parameter
is silently dropped from the text.  Because `op_cfg.update(...)` replaced the
default by the reference, not even the default is listed.

Property: Gin supplied `f.x` from a binding whose value (`@g()`) is literally
representable, so it must be listed; the replay must give the same arguments.
"""
import gin

gin.enter_interactive_mode()


@gin.configurable
def g():
  return 1


@gin.configurable
def f(x=0):
  return x


gin.parse_config('f.x = @g()')


@gin.configurable('g')  # Re-run of the notebook cell defining g.
def g_again():
  return 1


first = f()
assert first == 1
text = gin.operative_config_str()
assert any(l.startswith('f.x = ') for l in text.splitlines()), (
    'Gin supplied f.x (= @g(), from a binding) but the operative config does '
    'not list it:\n' + text)
gin.clear_config()
gin.parse_config(text)
assert f() == first
assert gin.operative_config_str() == text
print('PASS')
