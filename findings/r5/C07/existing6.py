"""C07, pre-existing violation 6: a constant defined after parsing hides a used
macro binding from the operative config.

`%LR` is resolved when the binding is parsed: no constant matches, so it is a
macro.  If a constant whose selector matches `LR` is defined later (e.g. by a
module imported afterwards that calls `gin.constant('hparams.LR', ...)` or uses
`@gin.constants_from_enum`), calls still get the macro's value.  But
`_format_value` re-parses `repr(value)` == '%LR', `ParserDelegate.macro` now
resolves it to the constant, the `==` with the stored reference fails and
`_config_str` drops the parameter as "not representable" (gin/config.py).

Property: Gin supplied `f.x` from a binding (`%LR`, representable) so it must be
listed, and the replay must give the same arguments.
"""
import gin


@gin.configurable
def f(x=0):
  return x


gin.parse_config("""
LR = 1
f.x = %LR
""")
gin.constant('hparams.LR', 2)  # Defined later, e.g. by a late import.

first = f()
assert first == 1
text = gin.operative_config_str()
assert any(l.startswith('f.x = ') for l in text.splitlines()), (
    'Gin supplied f.x (= %LR -> 1, from a binding) but the operative config '
    'does not list it:\n' + text)
gin.clear_config()
gin.parse_config(text)
assert f() == first
print('PASS')
