"""C07, pre-existing violation 3: a macro with a dotted name is written as a
statement that does not parse back.

`%a.b` is legal macro syntax (`_maybe_parse_macro` allows periods, as for
constants with a module prefix) and `gin.bind_parameter('%a.b', v)` is the
documented way to define a macro through the API (`parse_scoped_selector`
turns it into `a.b/macro.value`).  `_config_str` (gin/config.py) writes every
used macro as `<name> = <value>`; for this name that is `a.b = 3`, which the
parser reads as "parameter `b` of configurable `a`".  Replaying the operative
config fails with "No configurable matching 'a'" (or silently binds `a.b` if a
configurable called `a` exists).

Property: every value is representable, so clearing, parsing the text and
repeating the calls must give the same arguments and the same text.
"""
import gin


@gin.configurable
def f(x=0):
  return x


gin.bind_parameter('%hparams.width', 3)
gin.parse_config('f.x = %hparams.width')
assert f() == 3

text = gin.operative_config_str()
gin.clear_config()
try:
  gin.parse_config(text)
except Exception as e:  # pylint: disable=broad-except
  raise AssertionError(
      'the operative config does not parse back (%s: %s):\n%s' %
      (type(e).__name__, str(e).splitlines()[0], text))
assert f() == 3
assert gin.operative_config_str() == text
print('PASS')
