"""C07, pre-existing violation 5: a mutable signature default is recorded by
reference.

`_make_gin_wrapper` captures the signature defaults once
(`initial_configurable_defaults`) and every call stores the very same objects
in `_OPERATIVE_CONFIG` (`initial_configurable_defaults.copy()` is shallow;
gin/config.py).  Values coming from bindings are deep-copied before they reach
the function, defaults are not (Python passes the default object itself).  A
function that appends to its default list therefore changes what the operative
config shows: it shows a value that no call received, and replaying the text
gives the first call a different argument.

Property: the text shows the value used (most recently), and replaying it
gives every call the same arguments.
"""
import gin


@gin.configurable
def collect(item, acc=[]):  # pylint: disable=dangerous-default-value
  received = list(acc)
  acc.append(item)
  return received


first = collect('a')
assert first == []                      # the call received acc == []
text = gin.operative_config_str()
assert 'collect.acc = []' in text.splitlines(), (
    'the only call received acc == [] but the operative config shows:\n' + text)
print('PASS')
