"""C07, pre-existing violation 7: with dynamic registration, a called
configurable that is not reachable as `module.attribute` gets a section that
does not parse.

When a parsed file enabled dynamic registration, `ImportManager.minimal_selector`
(gin/config.py) builds the name of a decorator-registered configurable from
`wrapped.__module__` and `wrapped.__qualname__`.  For a configurable defined
inside a function the qualname is `make.<locals>.local_fn`, so the operative
config contains `m.make.<locals>.local_fn.y = 1`, which is a syntax error when
the text is parsed back.

Property: all values are representable, so clearing, parsing the text and
repeating the calls must reproduce arguments and text.
"""
import gin


@gin.configurable
def top(x=0):
  return x


def make():
  @gin.configurable
  def local_fn(y=1):
    return y
  return local_fn


local_fn = make()

gin.parse_config("""
from __gin__ import dynamic_registration
import __main__ as m
m.top.x = 5
""")


def calls():
  return top(), local_fn()


first = calls()
assert first == (5, 1)
text = gin.operative_config_str()
gin.clear_config()
try:
  gin.parse_config(text)
except Exception as e:  # pylint: disable=broad-except
  raise AssertionError(
      'the operative config does not parse back (%s: %s):\n%s' %
      (type(e).__name__, str(e).splitlines()[0], text))
assert calls() == first
assert gin.operative_config_str() == text
print('PASS')
