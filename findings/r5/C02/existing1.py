"""C02, unchanged tree: a lone carriage return used as the line break inside
brackets makes a valid literal unparseable.

Python accepts '\\r' (old Mac line ending) as a line break anywhere a line
break may go; `eval('[1\\r, 2]') == [1, 2]`, `eval('[\\r]') == []`,
`eval('{1\\r: 2}') == {1: 2}`.  Property C02 promises that a literal "with
comments and line breaks inside brackets", in every layout, is stored as the
value Python evaluates it to.

gin rejects these texts with SyntaxError whenever the config reaches the parser
with the '\\r' intact: a config *string* (gin.parse_config(str / list),
gin.config.parse_value), an io.StringIO, or a binary file object (only the
builtin text-mode `open` translates '\\r' to '\\n' first).

Cause: gin/config_parser.py, ConfigParser.__init__ feeds the text to
`tokenize.generate_tokens` through `io.StringIO(string).readline` (lines 187-199)
without universal-newline translation.  On this interpreter (CPython 3.12) the
tokenizer then glues the '\\r' onto the FOLLOWING token's string
(OP '\\r,', OP '\\r]', OP '\\r:'), and every punctuation test in the parser is an
exact string comparison (`self._current_token.string == ','`, `!= close_bracket`
in _maybe_parse_container lines 516-522, `!= ':'` in _parse_dict_item line 376),
so the token is not recognised -> "Expected ',' or ']'." / "Unable to parse
value." / "Expected ':'.".  (When the token after the '\\r' is a number, name or
string the text happens to work, because ast.literal_eval strips the '\\r'.)
"""
import io

import gin
from gin import config


@gin.configurable
def c02_existing1_fn(x=None):
  return x


TEXTS = [
    '[1,\r2]',  # Control: '\r' directly before a NUMBER token happens to work.
    '[\r]',
    '[1\r, 2]',
    '(1,\r)',
    '[1, # one\r 2]',
    '{1\r: 2}',
    '[\r  [1, 2],\r  [3, 4],\r]',
]

failures = []
for text in TEXTS:
  expected = eval(text, {'__builtins__': {}})  # Python accepts all of them.

  def via_parse_value():
    return config.parse_value(text)

  def via_parse_config_str():
    gin.clear_config()
    gin.parse_config('c02_existing1_fn.x = ' + text)
    return gin.query_parameter('c02_existing1_fn.x')

  def via_binary_file():
    gin.clear_config()
    gin.parse_config(io.BytesIO(('c02_existing1_fn.x = ' + text).encode()))
    return gin.query_parameter('c02_existing1_fn.x')

  for engine in (via_parse_value, via_parse_config_str, via_binary_file):
    try:
      got = engine()
    except Exception as e:  # pylint: disable=broad-except
      failures.append('%s(%r): Python gives %r, gin raised %s: %s' %
                      (engine.__name__, text, expected, type(e).__name__,
                       str(e).splitlines()[0]))
      continue
    if got != expected or type(got) is not type(expected):
      failures.append('%s(%r): Python gives %r, gin gave %r' %
                      (engine.__name__, text, expected, got))

gin.clear_config()
assert not failures, (
    'valid literals with a lone CR line break inside brackets are not stored '
    'as the value Python evaluates them to:\n  ' + '\n  '.join(failures))
print('PASS')
