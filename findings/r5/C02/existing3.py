"""C02, unchanged tree (environment dependent): a non-ASCII string literal in a
config FILE is decoded with the process locale's encoding, not as UTF-8.

Python evaluates the text `'é日本'` to that 3-character str, and reads source
files as UTF-8 whatever the locale is.  gin.parse_config_file opens the file
with the bare builtin `open` (gin/config.py line 420:
`_FILE_READERS = [(open, os.path.isfile)]`, used at line 2585
`with reader(config_file_with_prefix) as f`), i.e. text mode with
`locale.getencoding()`.  (ConfigParser itself would decode bytes lines as UTF-8,
config_parser.py lines 193-197, but it is handed an already-decoded text file.)
In a non-UTF-8 locale the same UTF-8 config file therefore either fails with
UnicodeDecodeError (C/POSIX locale without UTF-8 mode: a valid literal is
rejected, and not with a syntax error), or -- in an ISO-8859-x / cp125x locale
-- is silently stored as mojibake ('Ã©æ\x97¥æ\x9c¬'), a different value than
Python evaluates the text to.

The check runs in a child interpreter with LC_ALL=C and UTF-8 mode / locale
coercion switched off; with the default UTF-8 environment the defect is masked.
"""
import os
import subprocess
import sys
import tempfile

CHILD = r'''
import os, sys
import gin

@gin.configurable
def c02_existing3_fn(x=None):
  return x

text = "'\u00e9\u65e5\u672c'"  # The 5 characters  ' e-acute U+65E5 U+672C '
expected = eval(text)
path = sys.argv[1]
with open(path, 'wb') as f:
  f.write(('c02_existing3_fn.x = ' + text + '\n').encode('utf8'))
# Python itself reads the same bytes as UTF-8 source, whatever the locale:
import runpy
assert runpy.run_path(path.replace('.gin', '.py'))['x'] == expected
try:
  gin.parse_config_file(path)
  got = gin.query_parameter('c02_existing3_fn.x')
except Exception as e:
  print('gin raised %s: %s' % (type(e).__name__, e))
  sys.exit(3)
if got != expected:
  print('gin stored %a, Python evaluates the text to %a' % (got, expected))
  sys.exit(4)
print('child ok')
'''

tmp = tempfile.mkdtemp()
gin_path = os.path.join(tmp, 'c.gin')
with open(os.path.join(tmp, 'c.py'), 'wb') as f:
  f.write("x = 'é日本'\n".encode('utf8'))

env = dict(os.environ)
env.update(LC_ALL='C', LANG='C', PYTHONUTF8='0', PYTHONCOERCECLOCALE='0',
           PYTHONIOENCODING='utf8')
proc = subprocess.run([sys.executable, '-c', CHILD, gin_path], env=env,
                      stdout=subprocess.PIPE, stderr=subprocess.STDOUT,
                      universal_newlines=True, encoding='utf8')
assert proc.returncode == 0, (
    'under LC_ALL=C (no UTF-8 mode) the UTF-8 config file with a non-ASCII '
    'string literal is not stored as the value Python evaluates it to: ' +
    proc.stdout.strip())
print('PASS')
