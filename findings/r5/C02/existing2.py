"""C02, unchanged tree (minor): gin.config.parse_value rejects a literal that is
preceded by whitespace, a blank line or a comment line, although it accepts the
very same things AFTER the literal.

`ast.literal_eval(' 1') == eval(' 1') == 1`, and `eval('\\n[1]')`,
`eval('# c\\n[1]')` are `[1]`.  Property C02: a literal, in every layout, is
stored/returned as the value Python evaluates the text to.  parse_value('1 \\n'),
parse_value('1 # c\\n# d\\n') work, but any leading layout raises
"SyntaxError: Unable to parse value."

Cause: gin/config.py parse_value (line 2673-2677) hands the raw text to
ConfigParser.parse_single_value (gin/config_parser.py lines 291-307), which
calls parse_value() on the very first token -- an INDENT, NL or COMMENT token
here -- and only skips NEWLINE/NL/COMMENT/INDENT/DEDENT tokens *after* the
value (lines 301-304), never before it.
"""
import ast

from gin import config

CASES = [
    # (text, must work)
    ('1 ', True), ('1\n', True), ('[1] # c\n# d\n', True),   # Controls.
    (' 1', False), ('\t[1, 2]', False), ('\n1', False), ('\n\n{1: 2}', False),
    ('# the value\n[1]', False), ("  'a' 'b'", False),
]

failures = []
for text, _ in CASES:
  expected = ast.literal_eval(text)
  assert expected == eval(text, {'__builtins__': {}})
  try:
    got = config.parse_value(text)
  except Exception as e:  # pylint: disable=broad-except
    failures.append('parse_value(%r): Python gives %r, gin raised %s: %s' %
                    (text, expected, type(e).__name__, e))
    continue
  if got != expected or type(got) is not type(expected):
    failures.append('parse_value(%r): Python gives %r, gin gave %r' %
                    (text, expected, got))

assert not failures, (
    'literals with leading layout are rejected by parse_value:\n  ' +
    '\n  '.join(failures))
print('PASS')
