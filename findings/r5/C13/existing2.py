"""Existing defect (C13): gin.register / gin.external_configurable are not
transparent for a class with an __init_subclass__ hook (or a registering
metaclass): registration runs the hook and thereby alters the class's state, or
fails outright.

Property clause: "gin.register and gin.external_configurable never alter the
function or class they are given".

Cause (gin/config.py, `_decorate_fn_or_cls`, `avoid_class_mutation` branch):
the configurable version is built with
`decorating_meta(cls.__name__, (cls,), overrides)`, i.e. by really subclassing
the given class, which invokes `cls.__init_subclass__` (and the metaclass's
`__new__`/`__init__`).  The same happens again for every scoped version
(`_decorate_with_scope`).  With the common "plugin registry" idiom the class's
own registry therefore gains Gin's private subclasses; if the hook has required
keyword arguments the registration raises TypeError.
"""
import gin


class Plugin:
  """Base class keeping track of its subclasses (a common idiom)."""
  plugins = []

  def __init_subclass__(cls, **kwargs):
    super().__init_subclass__(**kwargs)
    Plugin.plugins.append(cls)

  def __init__(self, level=1):
    self.level = level


class Concrete(Plugin):
  pass


problems = []
assert Plugin.plugins == [Concrete]
snapshot = list(Plugin.plugins)

assert gin.register(Plugin) is Plugin
if Plugin.plugins != snapshot:
  problems.append(
      'gin.register altered the class it was given: its plugin list went '
      'from %r to %r' % (snapshot, list(Plugin.plugins)))

del Plugin.plugins[len(snapshot):]
gin.external_configurable(Concrete, name='ConcreteExt')
if Plugin.plugins != snapshot:
  problems.append('gin.external_configurable(subclass) altered the base: %r' %
                  list(Plugin.plugins))

# Merely asking for a scoped version must not alter it either.
del Plugin.plugins[len(snapshot):]
gin.get_configurable('some_scope/Plugin')
if Plugin.plugins != snapshot:
  problems.append('building a scoped version altered the class: %r' %
                  list(Plugin.plugins))


class Tagged:

  def __init_subclass__(cls, *, tag, **kwargs):
    super().__init_subclass__(**kwargs)
    cls.tag = tag

  def __init__(self, level=1):
    self.level = level


try:
  gin.register(Tagged)
except TypeError as e:
  problems.append('a legal class shape cannot be registered: %s' % e)

assert not problems, '\n'.join(problems)
print('PASS')
