"""Existing defect (C13): registering a class can silently replace a *different*
object that is already registered under the same full name.

Property clause: "a different object under an existing full name ... [is]
rejected without registering anything; only inside interactive mode ... may an
existing name be re-registered".

Sequence needed: a function registered under the full name
`<module>.Widget.render` (explicit `module=`), a class `Widget` in `<module>`
with a method `render` registered before the class, then registration of the
class.

Cause (gin/config.py, `_find_registered_methods`): when the class is
registered its previously registered methods are renamed from
`<module>.render` to `<module>.Widget.render` with a bare
`_REGISTRY[new_selector] = method_info`; unlike `_make_configurable` it never
checks whether `new_selector` is already taken by another object.  Outside
interactive mode the function is thus silently thrown out of the registry and
`@Widget.render` / bindings for it now refer to the method.
"""
import gin

MOD = __name__


@gin.register('render', module=MOD + '.Widget')
def render_widget(style='plain'):
  return ('function', style)


FULL = MOD + '.Widget.render'
gin.bind_parameter(FULL + '.style', 'fancy')
assert gin.get_configurable(FULL)() == ('function', 'fancy')


class Widget:

  @gin.register
  def render(self, style='plain'):
    return ('method', style)


# Sanity: the ordinary API does reject a different object under that name.
try:
  gin.register('render', module=MOD + '.Widget')(lambda style='x': style)
except ValueError:
  pass
else:
  raise AssertionError('set-up is wrong')

try:
  gin.register(Widget)
  rejected = False
except ValueError:
  rejected = True

still_function = gin.get_configurable(FULL).__wrapped__ is render_widget
assert rejected or still_function, (
    'registering class Widget was accepted and replaced the different object '
    'already registered under the full name %r: it now resolves to %r' %
    (FULL, gin.get_configurable(FULL).__wrapped__))
if rejected:
  # Rejected means: nothing registered.
  try:
    gin.get_configurable(MOD + '.Widget')
  except ValueError:
    pass
  else:
    raise AssertionError('rejected but registered')
print('PASS')
