"""Existing (minor) defect (C13): interactive mode ends while its block is still
running if another interactive-mode block was nested inside it (e.g. in a
helper function).

Property clause: "only inside interactive mode, which ends when its block
exits, may an existing name be re-registered" -- the outer block has not
exited, yet re-registration inside it is refused.

Cause (gin/config.py, `interactive_mode`): the context manager unconditionally
calls `exit_interactive_mode()` (sets the global flag to False) on exit instead
of restoring the state found on entry.  For the same reason a `with
interactive_mode():` block also cancels an earlier explicit
`gin.enter_interactive_mode()`.
"""
import gin
from gin import config


def first():
  return 1


def second():
  return 2


def third():
  return 3


gin.configurable('thing')(first)


def helper_that_also_uses_interactive_mode():
  with config.interactive_mode():
    gin.configurable('thing')(second)


with config.interactive_mode():
  helper_that_also_uses_interactive_mode()
  assert gin.get_configurable('thing')() == 2
  # Still inside the (outer) interactive-mode block.
  try:
    gin.configurable('thing')(third)
  except ValueError as e:
    raise AssertionError(
        'interactive mode ended before its block exited (a nested block '
        'switched it off): %s' % str(e).splitlines()[0])

# Outside of every block re-registration is rejected again.
try:
  gin.configurable('thing')(first)
except ValueError:
  pass
else:
  raise AssertionError('interactive mode did not end with its block')
print('PASS')
