"""Existing defect (C13): unknown names in an allow or deny list are accepted
for a class that defines neither __init__ nor __new__.

Property clause: "unknown names in an allow or deny list ... are rejected
without registering anything" -- for every class shape, under every
registration API.

Cause (gin/config.py, `_might_have_parameter` used by `_validate_parameters`):
for a class the check looks at `_find_class_construction_fn(cls)`, which for
such a class is `object.__init__`; its argspec is `(self, *args, **kwargs)`,
and because of the `**kwargs` every name "might" be a parameter.  The class
itself accepts no arguments at all, so every name is in fact unknown.
"""
import gin


def is_registered(selector):
  try:
    gin.get_configurable(selector)
  except ValueError:
    return False
  return True


def make(name):
  return type(name, (), {'__doc__': 'neither __init__ nor __new__',
                         '__module__': __name__})


accepted = []
apis = {
    'register': lambda cls, **kw: gin.register(**kw)(cls),
    'configurable': lambda cls, **kw: gin.configurable(**kw)(cls),
    'external_configurable': lambda cls, **kw: gin.external_configurable(
        cls, **kw),
}
for api_name, api in apis.items():
  for list_name in ('allowlist', 'denylist'):
    cls = make('Empty_%s_%s' % (api_name, list_name))
    try:
      cls(no_such_parameter=1)
    except TypeError:
      pass  # As expected: `no_such_parameter` is not a parameter.
    else:
      raise AssertionError('test set-up is wrong')
    try:
      api(cls, **{list_name: ['no_such_parameter']})
    except ValueError:
      assert not is_registered(cls.__name__)
    else:
      accepted.append((api_name, list_name, is_registered(cls.__name__)))

assert not accepted, (
    'unknown name accepted in the list (api, list, now registered): %r' %
    accepted)
print('PASS')
