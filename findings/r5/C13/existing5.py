"""Existing defect (C13): a class that inherits a registered method from a class
that has itself been registered (or from an unregistered base shared with an
already registered sibling) cannot be registered at all.

Property: the registration APIs work, transparently, "for every ... class
shape"; a configurable version of the class exists, is a subclass of the
original and constructs instances of it.  Here a perfectly valid registration
(valid name, free full name, no lists) is rejected with a misleading error.

Cause (gin/config.py, `_find_registered_methods`): registered methods are found
with `inspect.getmembers(cls)`, which includes *inherited* ones.  When the
first class is registered the method's `module` is rewritten to that class's
selector; for the second class the test
`method_info.module not in (method.__module__, selector)` then fails and
"was registered with a custom module" is raised, although no module was ever
given.
"""
import gin

problems = []


@gin.register
class Animal:

  def __init__(self, name='rex'):
    self.name = name

  @gin.register
  def speak(self, sound='...'):
    return '%s says %s' % (self.name, sound)


class Dog(Animal):
  """Inherits the registered method `speak`."""


try:
  gin.register(Dog)
except ValueError as e:
  problems.append('subclass of a registered class rejected: %s' %
                  str(e).splitlines()[0])
else:
  gin.bind_parameter('Dog.name', 'fido')
  dog = gin.get_configurable(Dog)()
  assert isinstance(dog, Dog) and dog.name == 'fido'
  assert Dog().name == 'rex'


class Base:

  @gin.register
  def run(self, speed=1):
    return speed


class Left(Base):
  pass


class Right(Base):
  pass


gin.register(Left)
try:
  gin.register(Right)
except ValueError as e:
  problems.append('sibling class rejected: %s' % str(e).splitlines()[0])

assert not problems, '\n'.join(problems)
print('PASS')
