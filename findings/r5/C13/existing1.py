"""Existing defect (C13): gin.configurable changes the signature of a class that
defines neither __init__ nor __new__.

Property clause: "gin.configurable returns an object with the original's name,
docstring and signature" -- quantified over every class shape, including
"neither" (__init__/__new__ both inherited from object).

Cause (gin/config.py): for such a class `_find_class_construction_fn` returns
`object.__init__`; `_decorate_fn_or_cls` (non-`avoid_class_mutation` branch)
wraps it via `_ensure_wrappability` in `lambda *args, **kwargs: ...` with
`__wrapped__ = object.__init__` and *assigns the Gin wrapper as the class's own
`__init__`*.  `inspect.signature(cls)` special-cases a class whose __init__ and
__new__ are both object's (signature `()`); once the class has its own
`__init__` this no longer applies and the signature is derived from
`object.__init__`'s `(self, /, *args, **kwargs)`, i.e. `(*args, **kwargs)`.
"""
import inspect

import gin


def make():

  class Plain:
    """A class with neither __init__ nor __new__."""

    def describe(self):
      return 'plain'

  return Plain


reference = make()  # never touched by Gin
expected = inspect.signature(reference)
assert str(expected) == '()', expected

target = make()
before = inspect.signature(target)
assert before == expected
result = gin.configurable('PlainThing')(target)

assert result is target
assert result.__name__ == reference.__name__
assert result.__doc__ == reference.__doc__
after = inspect.signature(result)
assert after == before, (
    'gin.configurable changed the signature of a class with neither __init__ '
    'nor __new__ from %s to %s' % (before, after))
print('PASS')
