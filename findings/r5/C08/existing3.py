"""Existing defect 3 (C08): two spellings of one reference are equal but hash
differently, so they are different keys.

Property: references treat every unambiguous spelling as the same key.
ConfigurableReference.__eq__ (config.py lines 772-778) compares the resolved
configurable, but __hash__ (line 783-784) is hash(repr(self)) and the repr
contains the spelling given in the config file.  '@foo' == '@sub.foo' is True
while their hashes differ: a dict / set keyed by references (Gin allows
references as dictionary keys) holds "equal" keys twice, and membership tests
with another spelling fail.
"""
import gin
from gin import config


@gin.configurable(module='m1.sub')
def foo(x=0):
  return x


r1 = config.parse_value('@foo')
r2 = config.parse_value('@sub.foo')
r3 = config.parse_value('@m1.sub.foo')
assert r1 == r2 == r3  # one and the same reference
assert r1.config_key == r2.config_key == r3.config_key

assert hash(r1) == hash(r2) == hash(r3), (
    'equal references (spellings of m1.sub.foo) have different hashes')
assert len({r1, r2, r3}) == 1
d = config.parse_value('{@foo: 1, @sub.foo: 2}')
assert len(d) == 1, 'one key spelled twice gave %d dict entries: %r' % (len(d), d)
print('PASS')
