"""Existing defect 1 (C08): a query string containing the component '$' crashes.

Property: a name matching no entry is reported unknown -- for every query
string.  SelectorMap stores the terminal marker of its suffix tree under the
ordinary dict key '$' (selector_map.py: _TERMINAL_KEY, used unguarded in
matching_selectors, lines 147-153).  A query whose next-outer component is
literally '$' walks *into the marker* and continues with the stored string
instead of a tree node, so instead of "unknown" the caller gets an internal
AttributeError ('str' object has no attribute 'copy') or TypeError.
Stored names can never contain '$' (SELECTOR_RE), so such a query matches
nothing and must simply be reported unknown, exactly like '%.b.bar' is.
"""
import gin


@gin.configurable(module='b')
def bar(x=0):
  return x


def outcome(fn):
  try:
    return ('ok', fn())
  except (ValueError, KeyError) as e:  # the documented "unknown" reports
    return ('unknown', type(e).__name__)
  except Exception as e:  # pylint: disable=broad-except
    return ('crash', '%s: %s' % (type(e).__name__, e))


# Reference behaviour with another non-identifier component: reported unknown.
assert outcome(lambda: gin.get_configurable('%.b.bar'))[0] == 'unknown'

problems = []
for query in ['$.b.bar', 'a.$.b.bar', 'b.$.b.bar']:
  for api_name, api in [
      ('get_configurable', lambda q=query: gin.get_configurable(q)),
      ('get_bindings', lambda q=query: gin.get_bindings(q)),
      ('bind_parameter', lambda q=query: gin.bind_parameter(('', q, 'x'), 1)),
  ]:
    res = outcome(api)
    if res[0] != 'unknown':
      problems.append((api_name, query, res))

assert not problems, (
    "names matching no entry must be reported unknown, but: %r" % problems)
print('PASS')
