"""Existing defect 5 (C08): a function registered under two names (alias) can be
addressed by name but no longer by its first configurable object.

Property: an entry is addressed identically through every API.  get_bindings /
get_configurable accept either a selector string or the configurable itself.
_INVERSE_REGISTRY maps the wrapped function to ONE Configurable (config.py line
1800 overwrites it), and _inverse_lookup (lines 462-469) only accepts the
wrapper of that last registration.  After registering an alias 'm.b' for the
function behind 'm.a', the entry 'm.a' still exists, still receives its
bindings when called, is found by name -- but passing the configurable `a`
itself is reported as "Could not find ... in the Gin registry".
"""
import gin


def f(x=0):
  return x


a = gin.external_configurable(f, name='a', module='m')
assert gin.get_bindings(a) == {}  # fine while there is no alias
b = gin.external_configurable(f, name='b', module='m')  # alias of the same fn

gin.bind_parameter('m.a.x', 1)
assert a() == 1 and b() == 0  # two distinct entries, both alive
assert gin.get_bindings('a') == {'x': 1}
assert gin.get_bindings('m.a') == {'x': 1}
try:
  via_object = gin.get_bindings(a)
except ValueError as e:
  raise AssertionError(
      "entry 'm.a' resolves by name but not by its configurable object once "
      'an alias exists: %s' % e)
assert via_object == {'x': 1}
print('PASS')
