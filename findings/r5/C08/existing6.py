"""Existing defect 6 (C08): the shortest name Gin reports for a registered
method is not accepted back by the binding APIs.

Property: the shortest name reported for an entry resolves back to that entry,
identically through every API.  For a registered method 'mod.D.go' the registry's
minimal selector is 'go'.  ImportManager.minimal_selector (config.py lines
2176-2179) knows that methods need 'Class.method' and pads the name, but the
error paths use _REGISTRY.minimal_selector directly: gin_wrapper's "Required
bindings for `go` not provided" (line 1658) and _format_binding_key (line 2952,
used by the finalize hooks).  The reported name 'go' is rejected by
bind_parameter / query_parameter / parse_config ("Method 'go' referenced
without class name 'D'", ParsedBindingKey.parse lines 958-961) although
get_configurable('go') and '@go' do resolve it.
"""
import re
import gin


class D:

  @gin.register
  def go(self, z=gin.REQUIRED):
    return z


D = gin.register(D)

try:
  gin.get_configurable(D)().go()
except RuntimeError as e:
  message = str(e).split('\n')[0]
else:
  raise SystemExit('expected a missing-required-binding error')

reported = re.search(r'`([^`]+)`', message).group(1)  # name Gin tells the user
try:
  gin.bind_parameter(reported + '.z', 7)
except ValueError as e:
  raise AssertionError(
      'Gin reported the entry as %r (%r) but that name is rejected when '
      'binding: %s' % (reported, message, e))
assert gin.get_configurable(D)().go() == 7
print('PASS')
