"""Existing defect 4 (C08): the '%name' shorthand resolves through the partial
name 'macro' in bind_parameter / query_parameter, but through the complete name
'gin.macro' in config files.

Property: names resolve identically through every API.  In a config file,
`x = 1` and `%x` are turned into (x, 'gin.macro', 'value') by parse_config /
ParserDelegate.macro (config.py lines 2462-2464 and 900).  The Python API
instead rewrites '%x' to 'x/macro.value' (config_parser.py,
parse_scoped_selector, line 616), i.e. to the *suffix* 'macro'.  As soon as the
user has any configurable of their own called `macro`, the very same macro can
still be set and used from files but bind_parameter('%x', ...) and
query_parameter('%x') are rejected as ambiguous.
"""
import gin


@gin.configurable(module='user')
def macro(v=0):  # a legal user configurable, complete name 'user.macro'
  return v


@gin.configurable
def consumer(p=None):
  return p


gin.parse_config("""
  x = 1
  consumer.p = %x
""")
assert consumer() == 1
assert gin.query_parameter('x/gin.macro.value') == 1

try:
  got = gin.query_parameter('%x')
except KeyError as e:
  raise AssertionError(
      "'%%x' is usable in config files but query_parameter('%%x') fails: %s" % e)
assert got == 1
gin.bind_parameter('%x', 2)
assert consumer() == 2
print('PASS')
