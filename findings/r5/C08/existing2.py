"""Existing defect 2 (C08): the name reported for a referenced entry does not
resolve back after a later addition -- and config_str() itself crashes.

Property: the shortest name reported for an entry resolves back to that entry
after any history of additions.  Binding keys are printed with a freshly
computed minimal selector, but ConfigurableReference.__repr__ (config.py, lines
786-799: `selector = self.selector`) prints the spelling that was used when the
reference was parsed.  If a configurable registered later makes that spelling
ambiguous, config_str() emits '@foo' for an entry that 'foo' no longer names;
in fact config_str() / operative_config_str() do not even return, because
_format_value re-parses the repr and the KeyError('Ambiguous selector')
escapes.
"""
import gin


@gin.configurable(module='m1')
def foo(x=0):
  return ('m1', x)


@gin.configurable(module='m1')
def bar(f=None):
  return f


gin.parse_config('bar.f = @foo')  # 'foo' is unambiguous here.
before = gin.config_str()
assert 'bar.f = @foo' in before


@gin.configurable(module='m2')  # a later, perfectly legal addition
def foo(x=1):  # pylint: disable=function-redefined
  return ('m2', x)


assert bar()() == ('m1', 0)  # the binding still refers to m1.foo

try:
  after = gin.config_str()
except KeyError as e:
  raise AssertionError(
      'config_str() crashed after a later registration made the stored '
      'spelling of a reference ambiguous: %s' % str(e).split('\n')[0])

# The reported config must resolve back to the same entries.
gin.clear_config()
gin.parse_config(after)
assert bar()() == ('m1', 0), after
print('PASS')
