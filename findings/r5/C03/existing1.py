r"""Pre-existing (unchanged tree): flat form and block form of the same statements
leave DIFFERENT configurations behind when a later statement of the group is bad.

C03 says flat vs block layout of the same statements gives the same
configuration.  The parser itself takes the position that a complete statement
preceding a faulty line is still delivered and applied (see the comment on
`_advance_pending` in ConfigParser.parse_statement: "a tokenizer error on the
following line must not prevent this (complete) statement from being returned
and applied").  That holds for the flat form only:

    f.x = 1            f:
    f.y = @nope          x = 1
                         y = @nope

Both raise the same error for `@nope`, but the flat form has applied `f.x = 1`
and the block form has applied nothing.  Cause: ConfigParser._parse_binding_block
(gin/config_parser.py, the `while ... != DEDENT` loop) parses the *whole* block
eagerly and only afterwards hands its bindings to `_statements_queue`; any error
in a later line of the block (bad value, unknown reference, tokenizer error)
discards the complete bindings that precede it in the block.

NOTE: this is an error-path divergence (the parse raises in both layouts).
"""
import gin


@gin.configurable
def f(x=0, y=0):
  return x, y


def after_failed_parse(text):
  gin.clear_config()
  try:
    gin.parse_config(text)
  except Exception as e:  # pylint: disable=broad-except
    err = type(e).__name__
  else:
    raise AssertionError('expected the parse to fail: %r' % text)
  return err, gin.get_bindings('f')


cases = [
    ('f.x = 1\nf.y = @nope\n', 'f:\n  x = 1\n  y = @nope\n'),   # unknown reference
    ('f.x = 1\nf.y = $\n', 'f:\n  x = 1\n  y = $\n'),           # unparsable value
    ('f.x = 1\nf.y = [\n', 'f:\n  x = 1\n  y = [\n'),           # tokenizer error
]
for flat, block in cases:
  flat_result = after_failed_parse(flat)
  block_result = after_failed_parse(block)
  assert flat_result == block_result, (
      'C03 (flat vs block) violated on the error path: after the same failing '
      'statement, flat layout %r left %r but block layout %r left %r'
      % (flat, flat_result, block, block_result))

print('PASS')
