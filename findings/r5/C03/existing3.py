r"""Pre-existing (unchanged tree), minor: inside brackets a newline / comment is
accepted between any two tokens of a value EXCEPT between the '@' or '%' sigil
and the name that follows it.

parse_config's docstring: values follow "standard Python rules for line
continuation", i.e. inside (), [] and {} line breaks and comments between tokens
are layout only.  The parser honours that everywhere else -- `(-\n 5)`,
`[@g\n()]`, `[@g(\n)]`, `{'k'\n:\n1}` all parse -- and a blank between sigil and
name is fine too (`@ g`, `% m`; tests: "Space after @ ... is ok, if hideous").
But `[@\n g]`, `[%\n m]` and `[@ # c\n g]` are SyntaxErrors ("Unexpected token"),
so these two renderings of the same statement do not give the same result.
Cause: _maybe_parse_configurable_reference and _maybe_parse_macro
(gin/config_parser.py) step over the sigil with `_advance_one_token()` instead
of `_advance()`, so an NL/COMMENT token directly after the sigil reaches
_parse_selector, which demands a NAME.

NOTE: the layout is rejected loudly, not misread; listed for completeness.
"""
import gin


@gin.configurable
def f(x=0, y=0):
  return x, y


@gin.configurable
def g():
  return 'g'


def parsed(text):
  gin.clear_config()
  try:
    gin.parse_config(text)
  except Exception as e:  # pylint: disable=broad-except
    return 'rejected: %s: %s' % (type(e).__name__, str(e).splitlines()[0])
  return gin.config_str()


reference = parsed('m = 3\nf.x = [@g(), @g]\nf.y = [%m, -5]\n')
assert not reference.startswith('rejected'), reference

# Same statements, line breaks / comments between tokens inside the brackets.
accepted_layouts = [
    'm = 3\nf.x = [@g\n(\n)\n,\n@g\n]\nf.y = [\n%m\n,\n-\n5\n]\n',
    'm = 3\nf.x = [@ g ( ), @ g]\nf.y = [% m, - 5]\n',
    'm = 3\nf.x = [@g # c\n(), @g]  # c\nf.y = [%m # c\n, - # c\n 5]\n',
]
for text in accepted_layouts:
  assert parsed(text) == reference, (text, parsed(text))

sigil_layouts = [
    'm = 3\nf.x = [@\n g(), @g]\nf.y = [%m, -5]\n',
    'm = 3\nf.x = [@g(), @g]\nf.y = [%\n m, -5]\n',
    'm = 3\nf.x = [@ # the maker\n g(), @g]\nf.y = [%m, -5]\n',
]
for text in sigil_layouts:
  got = parsed(text)
  assert got == reference, (
      'C03 (layout independence inside a bracketed value) violated: a line '
      'break/comment between the sigil and its name is rejected although the '
      'same break is accepted between every other pair of tokens: %r -> %s'
      % (text, got))
print('PASS')
