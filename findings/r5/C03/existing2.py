r"""Pre-existing (unchanged tree): binding keys given to the API are not validated
like the same names in config text; misplaced separators / whitespace / empty
scope components are silently repaired or stored.

C03: "Scoped names containing internal whitespace, empty components or misplaced
separators are rejected rather than silently repaired."  In config *text* this
holds (`/f.x = 1`, `s//f.x = 1`, ` s /f.x = 1` are all SyntaxErrors).  The very
same scoped names passed as a binding-key string to gin.bind_parameter /
gin.query_parameter go through config_parser.parse_binding_key /
parse_scoped_selector (gin/config_parser.py, bottom of the file), which only
rsplit on '/' and '.', with no format check at all:

  '/f.x'    -> leading separator silently dropped: binds plain f.x
  's//f.x'  -> scope 's/' (empty component) stored; config_str() then prints
               `s//f.x = 1`, which parse_config rejects
  ' s/f.x'  -> scope ' s' (leading blank) stored
  '/s/f.x'  -> scope '/s' stored
  '% m'     -> macro named ' m'

NOTE: strictly this is the programmatic API, not parse_config text; reported
because the property's last sentence is about scoped names in general and the
stored keys leak into config_str() output that cannot be parsed back.
"""
import gin


@gin.configurable
def f(x=0):
  return x


def text_rejects(key):
  gin.clear_config()
  try:
    gin.parse_config('%s = 1' % key)
  except SyntaxError:
    return True
  return False


def api_rejects(key):
  gin.clear_config()
  try:
    gin.bind_parameter(key, 1)
  except (ValueError, SyntaxError):
    return True
  return False


bad_keys = ['/f.x', 's//f.x', '/s/f.x', 's/t//f.x']
for key in bad_keys:
  assert text_rejects(key), key   # config text: rejected (property holds there)
# A leading blank is indentation in config text, but part of the scope name in
# the API (scope ' s', which no config_scope() can ever enter).
bad_keys.append(' s/f.x')

problems = []
for key in bad_keys:
  if not api_rejects(key):
    stored = [l for l in gin.config_str().splitlines() if not l.startswith('#')]
    round_trip = None
    try:
      text = gin.config_str()
      gin.clear_config()
      gin.parse_config(text)
      round_trip = 'config_str() parses back'
    except Exception as e:  # pylint: disable=broad-except
      round_trip = 'config_str() does NOT parse back (%s)' % type(e).__name__
    problems.append('%r accepted, stored as %r; %s' % (key, stored, round_trip))

assert not problems, (
    'Malformed scoped names are rejected in config text but silently '
    'repaired/stored by bind_parameter:\n  ' + '\n  '.join(problems))
print('PASS')
