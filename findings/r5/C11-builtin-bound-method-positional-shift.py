"""Noticed while strengthening C11 (engine builtin-callable-binds); the subject is C01's, not C11's.

For a builtin *bound* callable (int.from_bytes, 'a b'.split, (5).__add__, ...) registered with
gin.external_configurable, inspect.getfullargspec reports a leading 'type' / 'self' parameter
(args=['type', 'bytes', 'byteorder'] for int.from_bytes) that the caller never passes.  Gin matches the
caller's positional arguments against that list, so the first positional argument is taken to be
'type' / 'self', the parameter it really fills ('bytes') still counts as not supplied, and a binding
for it is injected by keyword on top of the positional value: the call dies with TypeError although
the caller passed the parameter himself (C01: "every parameter the caller passes (positionally or by
keyword) reaches the function unchanged").  Plain builtin functions (round, pow) are fine.

Run: PYTHONPATH=/repo /venv/bin/python -B findings/r5/C11-builtin-bound-method-positional-shift.py
Prints DEFECT and exits 1 while the behaviour is present.
"""
import sys

import gin

from_bytes = gin.external_configurable(int.from_bytes, 'from_bytes_fn')
round_fn = gin.external_configurable(round, 'round_fn')

gin.bind_parameter('round_fn.number', 0)        # control: caller's positional value wins
assert round_fn(2.26) == 2

gin.bind_parameter('from_bytes_fn.bytes', b'\x07')
assert from_bytes() == 7                        # the binding is used when the caller passes nothing
try:
  got = from_bytes(b'\x01\x02')                 # the caller passes `bytes` positionally
except TypeError as e:
  print('DEFECT: caller passed `bytes` positionally, Gin injected the bound value as well:', str(e).splitlines()[0])
  sys.exit(1)
assert got == 258, got
print('PASS')
