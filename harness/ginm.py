"""Implementation-side interpreter of Gin-machine programs (the op language of
coq/Model/GinEngine.v) against the real gin imported from /repo, plus the
printers that turn a case into the model's Coq input."""
import re

from harness import common as C
from harness.common import T


# ---------------------------------------------------------------- values
class Ret:
  def __init__(self, sel, n):
    self.sel, self.n = sel, n

  def __deepcopy__(self, memo):
    return self

  def __repr__(self):
    return '<Ret %s %d>' % (self.sel, self.n)


class OnceIter:
  """an iterable that may be walked only by its consumer: iterating it a second time (or before the consumer does) raises,
  like a generator that has been exhausted or a 0-d array.  Binding it must not look inside."""

  def __init__(self):
    self.walked = 0

  def __iter__(self):
    self.walked += 1
    raise TypeError('iteration over a value gin had no business iterating')

  def __deepcopy__(self, memo):
    return self


class AnyEq:
  """compares equal to everything (like unittest.mock.ANY)"""

  def __eq__(self, other):
    return True

  def __ne__(self, other):
    return False

  __hash__ = object.__hash__

  def __deepcopy__(self, memo):
    return self


class Opaque:
  def __init__(self, id_):
    self.id = id_

  def __repr__(self):
    return '<Opaque %s>' % self.id


def val_text(v):
  """gin-text rendering of a JSON value (for the parse path)."""
  t = v[0]
  if t == 'n':
    return 'None'
  if t == 'b':
    return 'True' if v[1] else 'False'
  if t == 'i':
    return repr(v[1])
  if t == 's':
    return repr(v[1])
  if t == 'l':
    return '[' + ', '.join(val_text(x) for x in v[1]) + ']'
  if t == 't':
    return '(' + ', '.join(val_text(x) for x in v[1]) + (',' if len(v[1]) == 1 else '') + ')'
  if t == 'd':
    return '{' + ', '.join(val_text(k) + ': ' + val_text(x) for k, x in v[1]) + '}'
  if t == 'ref':
    return '@' + '/'.join(list(v[1]) + [v[2]]) + ('()' if v[3] else '')
  if t == 'macro':
    return '%' + v[1]
  raise ValueError('no text form for %r' % (v,))


def has_syntax(v):
  t = v[0]
  if t in ('ref', 'macro'):
    return True
  if t in ('l', 't'):
    return any(has_syntax(x) for x in v[1])
  if t == 'd':
    return any(has_syntax(k) or has_syntax(x) for k, x in v[1])
  return False


def textable(v):
  t = v[0]
  if t in ('req', 'obj', 'unk'):
    return False
  if t in ('l', 't'):
    return all(textable(x) for x in v[1])
  if t == 'd':
    return all(textable(k) and textable(x) for k, x in v[1])
  return True


def val_coq(v):
  t = v[0]
  if t == 'n':
    return 'VNone'
  if t == 'b':
    return '(VBool %s)' % C.cbool(v[1])
  if t == 'i':
    return '(VInt %s)' % C.cz(v[1])
  if t == 's':
    return '(VStr %s)' % C.cstr(v[1])
  if t == 'l':
    return '(VList %s)' % C.clist([val_coq(x) for x in v[1]])
  if t == 't':
    return '(VTuple %s)' % C.clist([val_coq(x) for x in v[1]])
  if t == 'd':
    return '(VDict %s)' % C.clist(['(%s, %s)' % (val_coq(k), val_coq(x)) for k, x in v[1]])
  if t == 'ref':
    return '(VRef %s %s %s)' % (C.cstrs(v[1]), C.cstr(v[2]), C.cbool(v[3]))
  if t == 'macro':
    return '(VMacro %s)' % C.cstr(v[1])
  if t == 'req':
    return 'VReq'
  if t == 'obj':
    return '(VObj %s)' % C.cstr(v[1])
  raise ValueError(v)


def sig_coq(sg):
  return ('{| s_args := %s; s_defaults := %s; s_varargs := %s; s_kwonly := %s; s_varkw := %s |}' % (
      C.cstrs(sg['args']), C.clist([val_coq(d) for d in sg['defaults']]), C.cbool(sg['varargs']),
      C.clist(['(%s, %s)' % (C.cstr(n), C.copt(d, val_coq)) for n, d in sg['kwonly']]),
      C.cbool(sg['varkw'])))


def first_param(c):
  shape = c.get('shape', 'fn')
  if c.get('static'):
    return None             # a registered staticmethod takes no self
  return None if shape in ('fn', 'wrapped_fn') else ('self' if (shape.endswith('init') or shape == 'method') else 'cls')


def cfg_coq(c):
  fp = first_param(c)
  is_method = c.get('shape') == 'method'
  if fp:
    c = dict(c, sig=dict(c['sig'], args=[fp] + list(c['sig']['args'])), shape='fn')
  return ('{| c_sel := %s; c_kind := KProbe; c_sig := %s; c_allow := %s; c_deny := %s; c_method := %s |}' % (
      C.cstr(c['sel']), sig_coq(c['sig']), C.cstrs(c.get('allow') or []), C.cstrs(c.get('deny') or []), C.cbool(is_method)))


def scope_arg_coq(a):
  if a is None:
    return 'SNone'
  if isinstance(a, str):
    return '(SStr %s)' % C.cstr(a)
  if isinstance(a, list):
    return '(SList %s)' % C.cstrs(a)
  if isinstance(a, dict) and 'captured' in a:
    return '(SList %s)' % C.cstrs(a['value'])     # the scope an enclosing block yielded: to the model, a list with that value
  return 'SBad'


def kwargs_coq(kw):
  return C.clist(['(%s, %s)' % (C.cstr(k), val_coq(v)) for k, v in kw])


SHAPES = {}


def op_coq(op):
  k = op[0]
  if k in ('call', 'callvia') and SHAPES.get(op[1].split('/')[-1], 'fn') not in ('fn', 'wrapped_fn'):
    op = [k, op[1], [['obj', 'self']] + list(op[2]), op[3]]
  if k == 'bind':
    return '(OBind %s %s)' % (C.cstr(op[1]), val_coq(op[2]))
  if k == 'pbind':
    return '(OParse %s %s)' % (C.cstr(op[1]), val_coq(op[2]))
  if k == 'bindt':
    return '(OBindT %s %s %s %s)' % (C.cstr(op[1]), C.cstr(op[2]), C.cstr(op[3]), val_coq(op[4]))
  if k == 'query':
    return '(OQuery %s)' % C.cstr(op[1])
  if k == 'call':
    return '(OCall %s %s %s)' % (C.cstr(op[1]), C.clist([val_coq(a) for a in op[2]]), kwargs_coq(op[3]))
  if k == 'callvia':
    return '(OCallVia %s %s %s)' % (C.cstr(op[1]), C.clist([val_coq(a) for a in op[2]]), kwargs_coq(op[3]))
  if k == 'with':
    return '(OWith %s %s)' % (scope_arg_coq(op[1]), ops_coq(op[2]))
  if k == 'raise':
    return 'ORaise'
  if k == 'curscope':
    return 'OCurScope'
  if k == 'getbindings':
    return '(OGetBindings %s %s %s)' % (C.cstr(op[1]), C.cbool(op[2]), C.cbool(op[3]))
  if k == 'finalize':
    return 'OFinalize'
  if k == 'unlock':
    return '(OUnlock %s)' % ops_coq(op[1])
  if k == 'clear':
    return '(OClear %s)' % C.cbool(op[1])
  if k == 'locked':
    return 'OLocked'
  if k == 'constant':
    return '(OConstant %s %s)' % (C.cstr(op[1]), val_coq(op[2]))
  if k == 'interactive':
    return '(OInteractive %s)' % ops_coq(op[1])
  if k == 'register':
    return '(ORegister %s)' % cfg_coq(op[1])
  if k == 'hook':
    h = op[1]
    if h[0] == 'raise':
      return '(OHook (HRaise %s))' % C.cstr(h[1])
    return '(OHook (HReturn %s))' % kwargs_coq(h[1])
  if k == 'dumpconfig':
    return 'ODumpConfig'
  if k == 'dumpoper':
    return 'ODumpOperative'
  if k == 'dumpcalls':
    return 'ODumpCalls'
  raise ValueError(op)


def ops_coq(ops):
  return C.clist([op_coq(o) for o in ops])


def case_coq(case):
  SHAPES.clear()
  for c in case['regs']:
    SHAPES[c['sel']] = 'fn' if c.get('static') else c.get('shape', 'fn')
  for o in flatten_ops(case['ops']):
    if o[0] == 'register':
      SHAPES[o[1]['sel']] = o[1].get('shape', 'fn')
  return '(%s, %s)' % (C.clist([cfg_coq(c) for c in case['regs']]), ops_coq(case['ops']))


# ---------------------------------------------------------------- machine
EXC = {'KeyError': KeyError, 'ValueError': ValueError, 'RuntimeError': RuntimeError,
       'TypeError': TypeError, 'ZeroDivisionError': ZeroDivisionError}


class RaisingScope:
  """an invalid scope value whose very inspection raises (like the truth value of an array)"""

  def __bool__(self):
    raise ValueError('truth value of RaisingScope is undefined')


class BaseBoom(BaseException):
  """a non-Exception exception (like KeyboardInterrupt, SystemExit, GeneratorExit) raised by a body"""


class Machine:
  """Runs a program against a fresh gin."""

  def __init__(self, mutate=True):
    self.gin = C.fresh_gin()
    self.cfg = self.gin.config
    self.obs = []
    self.log = []        # (sel, scope, env, n)
    self.counter = 0
    self.wrappers = {}
    self.instances = {}
    self.constants_defined = {}
    self.walk_fails = []
    self.mutate = mutate
    self.trace = []
    self.calls = []      # per top-level/inner 'call' op: context for the P_impl predicates

  # -- canonical form of Python objects
  def canon(self, x):
    cfg = self.cfg
    if x is None or isinstance(x, (bool, int, str)):
      return x
    if isinstance(x, float) and (x != x or x in (float('inf'), float('-inf'))):
      return T('Obj', 'nan' if x != x else ('inf' if x > 0 else '-inf'))
    if x is self.gin.REQUIRED:
      return T('REQUIRED')
    if isinstance(x, list):
      return T('L', *[self.canon(i) for i in x])
    if isinstance(x, tuple):
      return T('T', *[self.canon(i) for i in x])
    if isinstance(x, dict):
      return T('D', *[[self.canon(k), self.canon(v)] for k, v in x.items()])
    if isinstance(x, cfg.ConfigurableReference):
      return T('Ref', list(x.scopes), x.configurable.selector, bool(x.evaluate))
    if isinstance(x, cfg._UnknownConfigurableReference):  # pylint: disable=protected-access
      return T('Unk', x.selector, bool(x.evaluate))
    if isinstance(x, Ret):
      return T('Ret', x.sel, x.n)
    if isinstance(x, AnyEq):
      return T('Obj', 'ANY')
    if isinstance(x, OnceIter):
      return T('Obj', 'ITER')
    if isinstance(x, Opaque):
      return T('Obj', x.id)
    if hasattr(x, '_gin_ret'):
      return self.canon(x._gin_ret)  # pylint: disable=protected-access
    if callable(x):
      c = cfg._inverse_lookup(x, allow_decorators=True)  # pylint: disable=protected-access
      if c is not None:
        return T('H', c.selector)
    return T('Py', type(x).__name__)

  def val(self, v):
    """JSON value -> Python object (references are built by gin's own parser)."""
    if has_syntax(v):
      return self.cfg.parse_value(val_text(v))
    return self.plain(v)

  def plain(self, v):
    t = v[0]
    if t == 'n':
      return None
    if t in ('b', 'i', 's'):
      return v[1]
    if t == 'l':
      return [self.plain(x) for x in v[1]]
    if t == 't':
      return tuple(self.plain(x) for x in v[1])
    if t == 'd':
      return {self.plain(k): self.plain(x) for k, x in v[1]}
    if t == 'req':
      return self.gin.REQUIRED
    if t == 'obj':
      if v[1] in ('inf', '-inf', 'nan'):
        return float(v[1])          # non-finite floats have no literal form: opaque to the model
      return AnyEq() if v[1] == 'ANY' else OnceIter() if v[1] == 'ITER' else Opaque(v[1])
    raise ValueError(v)

  # -- probes
  def _params(self, sg, env, tag):
    """parameter list text of a probe with signature sg; default objects go into env under names unique to tag"""
    dflts, params = [], []
    nd = len(sg['defaults'])
    na = len(sg['args'])
    for i, a in enumerate(sg['args']):
      if i >= na - nd:
        env['gv_d%s%d' % (tag, i)] = self.plain(sg['defaults'][i - (na - nd)])
        dflts.append(env['gv_d%s%d' % (tag, i)])
        params.append('%s=gv_d%s%d' % (a, tag, i))
      else:
        params.append(a)
    if sg['varargs']:
      params.append('*_va')
    elif sg['kwonly']:
      params.append('*')
    for j, (n, d) in enumerate(sg['kwonly']):
      if d is None:
        params.append(n)
      else:
        env['gv_k%s%d' % (tag, j)] = self.plain(d)
        dflts.append(env['gv_k%s%d' % (tag, j)])
        params.append('%s=gv_k%s%d' % (n, tag, j))
    if sg['varkw']:
      params.append('**_kw')
    return params, dflts

  def make_probe(self, c, methods=()):
    sg, sel = c['sig'], c['sel']
    shape = c.get('shape', 'fn')
    name = sel.split('.')[-1]
    env = {'gv_rec': self._record, 'gv_sel': sel}
    params, dflts = self._params(sg, env, '')
    env['gv_dflts'] = dflts
    if shape == 'fn':
      src = 'def %s(%s):\n  return gv_rec(gv_sel, locals(), gv_dflts)\n' % (name, ', '.join(params))
    elif shape == 'wrapped_fn':
      # the registered object is a pass-through decorator (functools.wraps) around the function with the real signature
      src = ('def gv_inner_%s(%s):\n  return gv_rec(gv_sel, locals(), gv_dflts)\n'
             'import functools\n@functools.wraps(gv_inner_%s)\ndef %s(*args, **kwargs):\n  return gv_inner_%s(*args, **kwargs)\n'
             '%s.__name__ = %r\n' % (name, ', '.join(params), name, name, name, name, name))
    elif shape.endswith('init'):
      src = ('class %s(object):\n  def __init__(%s):\n    self._gin_ret = gv_rec(gv_sel, locals(), gv_dflts)\n' %
             (name, ', '.join(['self'] + params)))
      for mi, mc in enumerate(methods):
        # a method registered on its own (@gin.register inside the class body), before the class itself is registered
        mp, md = self._params(mc['sig'], env, 'm%d_' % mi)
        env['gv_msel%d' % mi] = mc['sel']
        env['gv_mdflts%d' % mi] = md
        env['gv_reg%d' % mi] = self.gin.register(allowlist=mc.get('allow') or None, denylist=mc.get('deny') or None)
        src += ('%s  @gv_reg%d\n  def %s(%s):\n    return gv_rec(gv_msel%d, locals(), gv_mdflts%d)\n' %
                ('  @staticmethod\n' if mc.get('static') else '', mi, mc['sel'].split('.')[-1],
                 ', '.join(([] if mc.get('static') else ['self']) + mp), mi, mi))
    else:   # constructed by __new__ only
      src = ('class %s(object):\n  def __new__(%s):\n    gv_l = dict(locals())\n    gv_o = object.__new__(cls)\n'
             '    gv_o._gin_ret = gv_rec(gv_sel, gv_l, gv_dflts)\n    return gv_o\n' % (name, ', '.join(['cls'] + params)))
    if methods:
      self.nmod = getattr(self, 'nmod', 0) + 1
      # class and methods must share a module to count as methods; 'pymod': several classes defined in ONE Python module
      env['__name__'] = c.get('pymod') or 'gvmod%d' % self.nmod
    exec(compile(src, '<probe %s>' % sel, 'exec'), env)  # pylint: disable=exec-used
    fn = env[name]
    if not methods:
      fn.__module__ = None
    return fn, name

  def _mutate(self, x):
    if isinstance(x, list):
      for i in x:
        self._mutate(i)
      x.append('MUTATED')
    elif isinstance(x, dict):
      for i in list(x.values()):
        self._mutate(i)
      x['MUTATED'] = 1
    elif isinstance(x, tuple):
      for i in x:
        self._mutate(i)

  def _record(self, sel, loc, dflts=()):
    env = []
    for k, v in loc.items():
      if k in ('self', 'cls'):
        env.append([k, T('Obj', 'self')])
        continue
      if k == '_va':
        env.append(['*', self.canon(v)])
      elif k == '_kw':
        env.append(['**', self.canon(v)])
      else:
        env.append([k, self.canon(v)])
    n = self.counter
    self.counter += 1
    self.log.append([sel, list(self.gin.current_scope()), env, n])
    if self.mutate:
      for v in loc.values():
        if not any(v is d for d in dflts):   # never mutate the probe's own default objects
          self._mutate(v)
    return Ret(sel, n)

  def register(self, c):
    shape = c.get('shape', 'fn')
    if shape == 'method':
      return None            # registered together with its class (the holder)
    methods = [m for m in getattr(self, 'case_regs', []) if m.get('shape') == 'method' and m.get('holder') == c['sel']]
    fn, name = self.make_probe(c, methods)
    parts = c['sel'].split('.')
    module = '.'.join(parts[:-1]) or None
    kw = dict(module=module, allowlist=c.get('allow') or None, denylist=c.get('deny') or None)
    if methods:
      self.gin.register(name, **kw)(fn)
      w = self.gin.get_configurable(fn)
      inst = object.__new__(w)                    # an instance of the configurable class, built without running __init__
      for m in methods:
        self.wrappers[m['sel']] = getattr(inst, m['sel'].split('.')[-1])
        if not m.get('static'):
          self.instances[m['sel']] = inst          # (a static method is called through the instance, without self)
    elif shape.startswith('ext'):
      w = self.gin.external_configurable(fn, name, **kw)
    else:
      w = self.gin.configurable(name, **kw)(fn)
    self.wrappers[c['sel']] = w
    return w

  # -- ops
  def emit(self, x):
    self.obs.append(x)

  def err(self, e):
    cls = type(e).__name__
    if isinstance(e, BaseBoom):
      cls = 'KeyError'        # the model has one kind of raising body; which Python class left the block is irrelevant to it
    if isinstance(e, RuntimeError):
      m = re.search(r'not provided in config: \[(.*?)\]', str(e))
      if m:
        names = [x.strip().strip('\'"') for x in m.group(1).split(',') if x.strip()]
        cls = 'RuntimeError:' + ','.join(names)
    return T('Err', cls)

  def dump(self, d):
    return [[k[0], k[1], [[p, self.canon(v)] for p, v in pd.items()]] for k, pd in d.items()]

  def snapshot(self):
    cfg = self.cfg
    try:
      scope = list(cfg.current_scope())
    except Exception as e:  # pylint: disable=broad-except
      scope = ['<current_scope() raised %s>' % type(e).__name__]     # the stack itself is broken
    return {'locked': bool(cfg.config_is_locked()), 'scope': scope,
            'config': self.dump(cfg._CONFIG),  # pylint: disable=protected-access
            'registry': sorted(k for k, _ in cfg._REGISTRY.items()),  # pylint: disable=protected-access
            'interactive': bool(cfg._INTERACTIVE_MODE)}  # pylint: disable=protected-access

  def exec_op(self, op, depth=0):
    t = {'op': op if op[0] not in ('with', 'unlock', 'interactive') else [op[0]] + ([op[1]] if op[0] == 'with' else []),
         'kind': op[0], 'depth': depth, 'before': self.snapshot(), 'obs_start': len(self.obs)}
    self.trace.append(t)
    self.depth = depth
    if op[0] in ('bind', 'pbind', 'bindt'):
      try:       # what the value means NOW (a %name resolves against the constants known at this point)
        t['want'] = self.canon(self.val(op[4] if op[0] == 'bindt' else op[2]))
      except Exception:  # pylint: disable=broad-except
        pass
    try:
      self._exec_op(op, depth)
      t['exc'] = None
    except (Exception, BaseBoom) as e:
      t['exc'] = self.err(e).args[0]
      raise
    finally:
      t['after'] = self.snapshot()
      t['obs_end'] = len(self.obs)

  def _exec_op(self, op, depth):
    gin, cfg = self.gin, self.cfg
    k = op[0]
    if k == 'bind':
      v = self.val(op[2])
      try:
        gin.bind_parameter(op[1], v)
      finally:
        if isinstance(v, OnceIter) and v.walked:
          self.walk_fails.append(('bind-walked-the-value', 'bind_parameter(%r, <an iterable only its consumer may walk>) iterated the '
                                  'value (a generator would now be exhausted; a 0-d array raises)' % (op[1],)))
      self.emit(None)
    elif k == 'pbind':
      gin.parse_config('%s = %s' % (op[1], val_text(op[2])))
      self.emit(None)
    elif k == 'bindt':
      gin.bind_parameter((op[1], op[2], op[3]), self.val(op[4]))
      self.emit(None)
    elif k == 'query':
      self.emit(self.canon(gin.query_parameter(op[1])))
    elif k == 'call':
      fn = self.wrappers[op[1]]
      ctx = {'sel': op[1], 'scope': list(gin.current_scope()), 'args': op[2], 'kwargs': op[3],
             'config': self.dump(cfg._CONFIG), 'log_start': len(self.log)}  # pylint: disable=protected-access
      self.calls.append(ctx)
      try:
        r = fn(*[self.val(a) for a in op[2]], **{kk: self.val(v) for kk, v in op[3]})
        ctx['result'] = self.canon(r)
      except Exception as e:
        ctx['error'] = self.err(e).args[0]
        raise
      finally:
        ctx['log_end'] = len(self.log)
        ctx['config_after'] = self.dump(cfg._CONFIG)  # pylint: disable=protected-access
      self.emit(self.canon(r))
    elif k == 'callvia':
      fn = gin.get_configurable(op[1])
      inst = self.instances.get(op[1].split('/')[-1])
      pre = [inst] if inst is not None else []        # a method handle is the plain function: self is passed explicitly
      r = fn(*(pre + [self.val(a) for a in op[2]]), **{kk: self.val(v) for kk, v in op[3]})
      self.emit(self.canon(r))
    elif k == 'with':
      arg = op[1]
      if isinstance(arg, dict) and 'captured' in arg:
        # re-enter the very list OBJECT that the k-th enclosing block yielded (`with config_scope(..) as s: ... config_scope(s)`)
        objs = getattr(self, 'scope_objs', [])
        arg = objs[-1 - arg['captured']] if arg['captured'] < len(objs) else list(arg['value'])
      elif isinstance(arg, dict):   # SBad
        arg = RaisingScope() if arg.get('raises') else 5
      with gin.config_scope(arg) as sc:
        self.emit(list(sc))
        self.scope_objs = getattr(self, 'scope_objs', []) + [sc]
        try:
          for o in op[2]:
            self.exec_op(o, depth + 1)
        finally:
          self.scope_objs = self.scope_objs[:-1]
    elif k == 'raise':
      if len(op) > 1 and op[1] == 'base':
        raise BaseBoom('boom')       # leaves every enclosing block like KeyboardInterrupt / SystemExit / GeneratorExit would
      raise KeyError('boom')
    elif k == 'curscope':
      self.emit(list(gin.current_scope()))
    elif k == 'getbindings':
      b = gin.get_bindings(op[1], resolve_references=op[2], inherit_scopes=op[3])
      self.emit([[kk, self.canon(v)] for kk, v in b.items()])
    elif k == 'finalize':
      gin.finalize()
      self.emit(None)
    elif k == 'unlock':
      with gin.unlock_config():
        for o in op[1]:
          self.exec_op(o, depth + 1)
    elif k == 'clear':
      gin.clear_config(clear_constants=op[1])
      self.emit(None)
    elif k == 'locked':
      self.emit(bool(gin.config_is_locked()))
    elif k == 'constant':
      gin.constant(op[1], self.plain(op[2]))
      self.constants_defined[op[1]] = self.canon(self.plain(op[2]))
      self.emit(None)
    elif k == 'interactive':
      with gin.config.interactive_mode():
        for o in op[1]:
          self.exec_op(o, depth + 1)
    elif k == 'register':
      self.register(op[1])
      self.emit(None)
    elif k == 'hook':
      h = op[1]
      if h[0] == 'raise':
        exc = EXC[h[1]]

        def hook(config, exc=exc):
          raise exc('hook failed')
      else:
        vals = {kk: self.plain(v) for kk, v in h[1]}

        def hook(config, vals=vals):
          return dict(vals)
      gin.config.register_finalize_hook(hook)
      self.emit(None)
    elif k == 'dumpconfig':
      self.emit(self.dump(cfg._CONFIG))  # pylint: disable=protected-access
    elif k == 'dumpoper':
      self.emit(self.dump(cfg._OPERATIVE_CONFIG))  # pylint: disable=protected-access
    elif k == 'dumpcalls':
      self.emit([list(x) for x in self.log])
    else:
      raise AssertionError(op)

  def constant_fails(self):
    """what consumers did to the values they received has not changed any constant"""
    fails = []
    for name, want in self.constants_defined.items():
      try:
        got = self.canon(self.cfg._CONSTANTS[name])  # pylint: disable=protected-access
      except Exception:  # pylint: disable=broad-except
        continue          # cleared
      if not C.strict_eq(got, want):
        fails.append(('constant-changed-by-consumer', 'constant %r was defined as %r; after the calls it is %r' % (name, want, got)))
    return fails[:1]

  def readback_fails(self):
    """independent of gin's own bookkeeping: after every bind that did not raise, the store holds, under the scope and
    a selector the key spells, exactly the value that was bound (same type, same reference scopes)"""
    fails = []
    for t in self.trace:
      if t['kind'] not in ('bind', 'pbind', 'bindt') or t.get('exc') is not None:
        continue
      op = t['op']
      try:
        if t['kind'] == 'bindt':
          scope, sel, param, v = op[1], op[2], op[3], op[4]
        else:
          parts = op[1].split('/')
          v = op[2]
          if '.' in parts[-1]:
            scope = '/'.join(parts[:-1])
            sel, param = parts[-1].rsplit('.', 1)
          else:
            scope, sel, param = op[1], 'gin.macro', 'value'      # a macro definition
        want = t['want']
      except Exception:  # pylint: disable=broad-except
        continue
      cands = [(q, dict((p, x) for p, x in pd)) for s, q, pd in t['after']['config'] if s == scope]
      exact = [c for c in cands if c[0] == sel]
      cands = exact or [c for c in cands if c[0].endswith('.' + sel)]
      got = [c[1][param] for c in cands if param in c[1]]
      if not got:
        fails.append(('bound-value-not-stored', 'after %r the store has no value for parameter %r of %r under scope %r: %r' %
                      (op, param, sel, scope, t['after']['config'])))
      elif not any(C.strict_eq(g, want) for g in got):
        fails.append(('bound-value-not-stored', 'after %r the store holds %r for parameter %r of %r under scope %r, not the '
                      'bound value %r' % (op, got, param, sel, scope, want)))
    return self.walk_fails[:1] + fails[:2]

  def run(self, case):
    self.case_regs = case['regs']
    for c in case['regs']:
      try:
        self.register(c)
      except Exception:  # the model ignores a failed setup registration too
        pass
    for op in case['ops']:
      try:
        self.exec_op(op)
      except (Exception, BaseBoom) as e:  # pylint: disable=broad-except
        self.emit(self.err(e))
    return self.obs


def flatten_ops(ops):
  for o in ops:
    yield o
    if o[0] in ('with',):
      yield from flatten_ops(o[2])
    elif o[0] in ('unlock', 'interactive'):
      yield from flatten_ops(o[1])


def shrink_ops(ops):
  """Candidates: drop one op, or replace a block by its body."""
  for i in range(len(ops)):
    yield ops[:i] + ops[i + 1:]
  for i, o in enumerate(ops):
    if o[0] == 'with':
      yield ops[:i] + o[2] + ops[i + 1:]
      for b in shrink_ops(o[2]):
        yield ops[:i] + [[o[0], o[1], b]] + ops[i + 1:]
    elif o[0] in ('unlock', 'interactive'):
      yield ops[:i] + o[1] + ops[i + 1:]
      for b in shrink_ops(o[1]):
        yield ops[:i] + [[o[0], b]] + ops[i + 1:]


def shrink_case(case):
  for ops in shrink_ops(case['ops']):
    yield {'regs': case['regs'], 'ops': ops}
  used = {o[1] for o in flatten_ops(case['ops']) if o[0] == 'call'}
  holders = {c.get('holder') for c in case['regs'] if c.get('shape') == 'method'}
  for i in range(len(case['regs'])):
    if case['regs'][i]['sel'] not in used and case['regs'][i]['sel'] not in holders:     # a method needs its class
      yield {'regs': case['regs'][:i] + case['regs'][i + 1:], 'ops': case['ops']}


# ---------------------------------------------------------------- generation
SELS = ['f', 'm.f', 'n.m.g', 'm.g', 'pkg.h', 'k', 'n.f']
PARAMS = ['a', 'b', 'c', 'd']
SCOPES = ['s1', 's2', 's3']


def gen_plain(rng, depth=2):
  r = rng.random()
  if depth <= 0 or r < 0.55:
    return rng.choice([['i', rng.randint(-3, 9)], ['s', rng.choice(['x', 'y', ''])], ['n'],
                       ['b', rng.random() < 0.5], ['i', 0]])
  if r < 0.75:
    return ['l', [gen_plain(rng, depth - 1) for _ in range(rng.randint(0, 3))]]
  if r < 0.88:
    return ['t', [gen_plain(rng, depth - 1) for _ in range(rng.randint(0, 3))]]
  keys, out = set(), []
  for _ in range(rng.randint(0, 2)):
    k = rng.choice([['s', 'k1'], ['s', 'k2'], ['i', 1], ['i', 2]])
    if repr(k) not in keys:
      keys.add(repr(k))
      out.append([k, gen_plain(rng, depth - 1)])
  return ['d', out]


def gen_pydict(rng, unhashable=0.15):
  """a dict literal whose KEYS are equal in Python under different spellings (1 / True, 0 / False, equal strings, equal
  tuples, None): dict(...) makes them ONE entry (the earlier key and place, the later value); now and then a key that cannot
  be hashed (TypeError)"""
  fam = rng.choice([[['i', 1], ['b', True]], [['i', 0], ['b', False]], [['s', 'k'], ['s', 'k']], [['n'], ['n']],
                    [['t', [['i', 1], ['s', 'a']]], ['t', [['b', True], ['s', 'a']]]]])
  keys = [rng.choice(fam) for _ in range(rng.randint(2, 3))] + ([['i', 7]] if rng.random() < 0.5 else [])
  rng.shuffle(keys)
  if rng.random() < unhashable:
    keys.insert(rng.randrange(len(keys) + 1), rng.choice([['l', [['i', 1]]], ['d', []], ['t', [['i', 1], ['l', []]]]]))
  return ['d', [[k, gen_plain(rng, 0)] for k in keys]]


def has_unhashable_key(v):
  def unh(k):
    return k[0] in ('l', 'd') or (k[0] == 't' and any(unh(x) for x in k[1]))
  if v[0] in ('l', 't'):
    return any(has_unhashable_key(x) for x in v[1])
  if v[0] == 'd':
    return any(unh(k) or has_unhashable_key(k) or has_unhashable_key(x) for k, x in v[1])
  return False


def gen_sig(rng, allow_req=True, rich=True):
  n = rng.choice([0, 1, 2, 2, 3, 3, 4]) if rich else rng.choice([1, 2, 3])
  args = PARAMS[:n]
  nd = rng.randint(0, n)

  def dflt():
    if allow_req and rng.random() < 0.2:
      return ['req']
    if rng.random() < 0.1:
      return ['obj', 'o%d' % rng.randint(0, 2)]
    return gen_plain(rng, 1)
  defaults = [dflt() for _ in range(nd)]
  varargs = rich and rng.random() < 0.25
  kwonly = []
  if rich and rng.random() < 0.4:
    for nm in rng.sample(['k1', 'k2', 'k3'], rng.randint(1, 2)):
      kwonly.append([nm, dflt() if rng.random() < 0.6 else None])
  varkw = rich and rng.random() < 0.25
  return {'args': args, 'defaults': defaults, 'varargs': varargs, 'kwonly': kwonly, 'varkw': varkw}


def sig_names(sg):
  return list(sg['args']) + [n for n, _ in sg['kwonly']]


SHAPE_CHOICES = ['fn', 'fn', 'fn', 'cls_init', 'cls_new', 'ext_init', 'ext_new']


def gen_regs(rng, n=None, lists=0.3, allow_req=True, rich=True, sels=None, shapes=False, methods=0):
  sels = rng.sample(sels or SELS, n or rng.randint(1, 4))
  regs = []
  for sel in sels:
    sg = gen_sig(rng, allow_req, rich)
    names = sig_names(sg)
    c = {'sel': sel, 'sig': sg, 'allow': [], 'deny': []}
    if shapes:
      c['shape'] = rng.choice(SHAPE_CHOICES)
    if names and rng.random() < lists:
      sub = rng.sample(names, rng.randint(1, len(names)))
      c['allow' if rng.random() < 0.5 else 'deny'] = sub
    # registration must succeed for setup: signature-level REQUIRED must be configurable
    reqd = [a for a, d in zip(sg['args'][len(sg['args']) - len(sg['defaults']):], sg['defaults']) if d == ['req']]
    reqd += [n for n, d in sg['kwonly'] if d == ['req']]
    if any(r in c['deny'] for r in reqd) or (c['allow'] and any(r not in c['allow'] for r in reqd)):
      c['allow'], c['deny'] = [], []
    regs.append(c)
  if methods and rng.random() < methods:
    # a class (a cls_init probe) with one or two methods registered on their own before the class is
    holder = rng.choice(['m.Kls', 'pkg.Kls', 'n.m.Other'])
    if all(c['sel'] != holder for c in regs):
      regs.append({'sel': holder, 'sig': gen_sig(rng, allow_req, rich), 'allow': [], 'deny': [], 'shape': 'cls_init'})
      for mname in rng.sample(['run', 'go'], rng.randint(1, 2)):
        sg = gen_sig(rng, allow_req, rich)
        m = {'sel': holder + '.' + mname, 'sig': sg, 'allow': [], 'deny': [], 'shape': 'method', 'holder': holder}
        if rng.random() < 0.3:
          m['static'] = True       # @staticmethod over @gin.register: called through an instance, receives no self
        names = sig_names(sg)
        reqd = [a for a, d in zip(sg['args'][len(sg['args']) - len(sg['defaults']):], sg['defaults']) if d == ['req']]
        reqd += [n for n, d in sg['kwonly'] if d == ['req']]
        if names and rng.random() < lists and not reqd:
          m['allow' if rng.random() < 0.5 else 'deny'] = rng.sample(names, rng.randint(1, len(names)))
        regs.append(m)
      if rng.random() < 0.4:
        # a second class of the SAME Python module with a method of the same name (the two methods had the same
        # selector before their classes were registered)
        other = rng.choice([h for h in ['m.Kls', 'pkg.Kls', 'n.m.Other', 'pkg.sub.Wrk'] if h != holder and all(c['sel'] != h for c in regs)])
        first = [c for c in regs if c.get('holder') == holder]
        for c in regs:
          if c['sel'] == holder:
            c['pymod'] = 'gvshared'
        regs.append({'sel': other, 'sig': gen_sig(rng, allow_req, rich), 'allow': [], 'deny': [], 'shape': 'cls_init', 'pymod': 'gvshared'})
        regs.append({'sel': other + '.' + first[0]['sel'].split('.')[-1], 'sig': gen_sig(rng, allow_req, rich), 'allow': [], 'deny': [],
                     'shape': 'method', 'holder': other})
  return regs


def spellings(sel, regs):
  """unambiguous spellings of sel among the registered selectors"""
  parts = sel.split('.')
  outs = []
  alls = [c['sel'] for c in regs] + ['gin.macro', 'gin.constant', 'gin.singleton']
  for i in range(len(parts)):
    s = '.'.join(parts[i:])
    m = [x for x in alls if x == s] or [x for x in alls if x.endswith('.' + s)]
    if m == [sel]:
      outs.append(s)
  return outs or [sel]


def gen_scope(rng, maxdepth=3):
  return [rng.choice(SCOPES) for _ in range(rng.choice(list(range(maxdepth + 1))))]
