"""Writes MANIFEST.json from the table below (kept in one place so it stays valid)."""
import json, os
V = os.path.dirname(os.path.dirname(os.path.abspath(__file__)))
BASE = "cd /repo && /venv/bin/python -m pytest -ra -q -p no:cacheprovider --timeout=900 --continue-on-collection-errors tests"
TECH = "Coq proof over an executable Gallina model + model/implementation correspondence (vm_compute inside coqc) + independent P_impl predicate on the implementation"
NOTE = "Trusted: Coq 8.16.1 kernel (no axioms: Print Assumptions closed), the hand-written Gallina model, the Python correspondence harness. See DESIGN.md section 4."
CLAIMED = {
 'C01': dict(text="Coq theorems for every store, scope depth, signature shape and argument split: the overlay loop computes the longest-prefix rule, non-prefix scopes never apply, positionally supplied names are dropped, and what Python's own binding hands to the function is the caller's value / the applicable binding / the default (C01_injection). Model tied to /repo by differential runs of generated Gin-machine programs and an independent longest-prefix predicate evaluated on what the real probes received.",
   note=NOTE + " inspect.getfullargspec / functools.wraps are not modelled.", design="5/C01"),
 'C02': dict(text="Coq theorem C02_complete: for EVERY tree of the literal grammar (any nesting, trailing commas, one-tuples, parenthesised values, leading minus, runs of adjacent strings) in EVERY layout (any NL/COMMENT tokens after any token inside brackets) the model parser returns exactly Python's value and consumes exactly the literal; plus the one-tuple rule. Model tied to /repo by generated literal texts in random layouts and near-miss texts (model evaluated inside coqc on the real tokenizer's tokens), with the independent oracle ast.literal_eval on the whole text (accepted => equal value of the same type; grammar text => accepted).",
   note=NOTE + " CPython's tokenizer and ast.literal_eval on one atom are not modelled (observed / oracle table); soundness (rejection of every non-literal) is checked by the correspondence and the near-miss stream, not proved.", design="5/C02"),
 'C03': dict(category='translation_validation', text="Executable Gallina model of the statement parser (bindings, macro form, blocks, four import forms, includes, selector adjacency re-check) compared with the implementation on generated statement lists rendered in two independent layouts plus a malformed stream (incl. continuation-aligned scoped names); independent predicate: both layouts yield exactly the generated statements. Proved in Coq: accepted scoped names are spelled by adjacent tokens and match the pattern (never repaired), a detached separator is never accepted, key splitting inverts joining. The full statement round-trip over all layouts is not proved, hence translation validation.",
   note=NOTE + " CPython's tokenizer is not modelled.", design="5/C03"),
 'C13': dict(category='translation_validation', text="PARTIAL. Proved in Coq: the registration state machine (a rejected registration changes nothing; an accepted one writes exactly one entry last and follows the return conventions of configurable / register / external_configurable; locked / duplicate-outside-interactive / invalid name or module are rejected; instance-class decision). Model tied to /repo by generated registration sequences over 11 callable / class shapes x 3 APIs x scoped / unscoped (outcome class and registry keys after every op). Checked on the implementation only (CPython's type machinery is not modelled): direct calls of the original receive nothing while registry handles inject, name / doc / signature / module preserved, subclass relation, type(instance) is the original class, pickling, Class.method addressing.",
   note=NOTE + " Partial: transparency of the wrappers is observed, not proved.", design="5/C13"),
 'C14': dict(category='translation_validation', text="Executable Gallina model of parse_config_file / include handling (location-major, reader-minor resolution, absolute names, IOError, returned include/import tree) and of parse_config_files_and_bindings, compared with the implementation on generated file universes (1-4 locations x 1-3 readers, copies of one name with different contents, missing files, conflicting bindings around includes), the entry points being called with their defaults omitted; independent oracle: a fresh gin parsing the harness's own textual flattening, plus which physical file each instrumented reader opened.",
   note=NOTE + " os.path / open / importlib are not modelled (in-memory readers + per-case temp dir). The in-place-inclusion theorem over the model is not proved yet.", design="5/C14"),
 'C15': dict(category='translation_validation', text="Executable Gallina model of _should_skip, the parser delegate's placeholder rule and the three skip sites, compared with the implementation on generated texts x every form of skip_unknown; independent oracle: a statement-level reference interpreter written from the property text; placeholders are additionally required to raise on use and at finalize.",
   note=NOTE + " Static registration only; import side effects are modelled as a fixed set of importable modules.", design="5/C15"),
 'C16': dict(text="Coq theorems over the statement-consumer model: C16_stream_eq (for include-free configs, parsing-and-applying statement by statement equals parsing the whole stream into groups and consuming them in order up to the first failure, for every fault position and kind), the prefix theorems for groups and for statements inside a group, a failed parse records no imports and touches neither lock, registry nor constants, provenance of a bind, and the location-chain algebra. Tied to /repo by generated configs with one injected fault (14 kinds, any include depth / block member); independent oracle: a second fresh gin given only the statements preceding the fault; error class and (file, line) chain checked against the generator's own line bookkeeping. One known finding (F11) is recorded.",
   note=NOTE + " Tokenizer, ast.literal_eval per atom and the file system are not modelled; the streaming theorem is proved for include-free configs (includes are covered by the correspondence).", design="5/C16"),
 'C04': dict(text="Coq theorems: a parameter the caller supplies (positionally or by keyword) has no entry among the bindings that are deep-copied, i.e. its reference is never evaluated (refutation theorem for the code before the repair); evaluation / calls of any nesting never change the store, registry, lock or constants and restore the scope stack (frame theorems by mutual fuel induction). Model tied to /repo by generated programs with nested scoped/unscoped, evaluated/unevaluated references and MUTATING probes; independent predicate: the exact sequence of (configurable, scope) body executions predicted from the store snapshot, delivery shape, freshness, and store equality across every call.",
   note=NOTE + " copy.deepcopy on plain containers is CPython; container isolation is checked by the mutating probes, not proved (the model's values are immutable).", design="5/C04"),
 'C05': dict(category='translation_validation', text="The Gin-machine model (macros as references to gin.macro under the macro's scope, constants through the suffix map, parse-time resolution of %name) compared with the implementation on generated programs with definitions / uses / re-definitions in every order across parse phases, scope-like macro names, macros bound to @g() and to other macros, constants with shared suffixes; independent predicate from the op list: each use receives the LAST definition, k uses of a macro bound to @g() run g k times, a constant use delivers the stored object, invalid / duplicate / ambiguous constant names are errors. Finalize checks are covered by C12's theorems.",
   note=NOTE + " No macro-specific Coq theorem yet (the frame and lock theorems of the machine apply).", design="5/C05"),
 'C07': dict(category='translation_validation', text="The Gin-machine model's operative record (defaults filtered by lists and representability, overlaid by bindings, minus caller-supplied names, merged per (scope, selector)) compared with the implementation after generated call sequences; independent predicate: key set = pairs called, per-key parameter sets and most-recent values recomputed from the calls, and a replay: a second fresh gin parses operative_config_str() and repeats the calls, which must receive the same arguments and reproduce the text.",
   note=NOTE + " The replay theorem over the model is not proved.", design="5/C07"),
 'C06': dict(category='translation_validation', text="Executable Gallina model of the serialiser at line level (import manager with dedupe / re-aliasing, macro section, sections sorted by the lower-cased reversed key with the repaired tie-break, parameter sort, representability filter, single-line vs continuation decision by code-point length, markdown), compared line by line with config_str() and markdown() on generated stores x widths x indents; pprint.pformat / repr / representability are measured per value and handed to the model. Independent predicates: the text parses in a fresh gin, re-parsing restores every representable binding with equal value and type, re-serialising is identical, a permuted binding order gives the identical text, parameters sorted, markdown verbatim. One known finding (F18) is recorded; two defects were repaired.",
   note=NOTE + " pprint.pformat, repr and the representability test are oracle inputs to the model. No Coq theorem about the serialiser is proved yet.", design="5/C06"),
 'C08': dict(text="Coq proof (for every history of set/pop/clear/copy and every query, over unbounded name sets) that the suffix-tree model refines a finite map, that matching = exact-match-else-all-suffix-matches, and that the reported minimal selector resolves back and no shorter suffix does; model tied to /repo by a differential run of generated histories plus an independent brute-force statement of the property evaluated on the implementation.",
   note=NOTE + " ASCII selectors only.", design="5/C08"),
 'C09': dict(text="Coq theorem C09_restored: every op of the Gin-machine language (config_scope blocks of any depth, raising bodies, scoped references, nested calls) leaves the scope stack exactly as found on both exits; composition and invalid-scope theorems. Thread half: per-thread-stack model compared with 2-4 real threads stepped by a central scheduler on generated (thorough: exhaustively enumerated) schedules, with an independent 'what the thread sees alone' predicate.",
   note=NOTE + " Thread half is partial: atomic steps are API calls; preemption inside a step is not modelled.", design="5/C09"),
 'C10': dict(text="Coq theorems for every signature and marker placement: the marker never reaches the function, markers are filled in place, other arguments keep position and value, unfilled markers always raise before the body runs and the error lists them in signature order; correspondence + independent predicate on generated calls with markers; registration-time rejection checked on the implementation.",
   note=NOTE, design="5/C10"),
 'C11': dict(text="Coq theorems: accept-iff for a binding, rejected bindings leave the whole state unchanged through every binding op, and the store invariant (only configurable parameters of registered configurables are ever stored) is preserved by every op over every history (side condition proved necessary); correspondence + independent accept predicate over all API paths.",
   note=NOTE, design="5/C11"),
 'C12': dict(text="Coq theorems over the Gin-machine: locked => every mutation raises and changes nothing; unlock_config restores the lock on every exit path; finalize atomicity, finalize-twice, hook-conflict rejection for any two spellings, built-in hooks; correspondence on generated histories + an independent lock automaton written from the property text.",
   note=NOTE + " finalize is modelled with an empty active scope.", design="5/C12"),
 'C17': dict(category='translation_validation', text="PARTIAL. Model of the proxy's attribute resolution (type-level data descriptor before instance dict before __getattr__) over the measured slot table of each class; proved: with the repaired code every public attribute reads the same, instance-dict attributes were always forwarded, non-Exception exceptions pass through, and a refutation for the code before the repair. Tied to /repo by raising EVERY builtin exception class (enumerated at run time) and generated user classes at depths 1-3 and inside reference evaluation; checked on the implementation: same class (isinstance, name, module), traceback reaches the raising frame, message extended, every public attribute equal.",
   note=NOTE + " Partial: CPython's constructors and exception struct layouts are measured, not modelled.", design="5/C17"),
 'C18': dict(text="Coq theorems over an interleaving semantics with arbitrary schedules, thread counts and programs: mutual exclusion invariant, no call or read ever fails because of another thread, every completed read is a snapshot of the record, look-ups in the final record are schedule-independent (= sequential), singletons are constructed at most once per name and every use receives that object; refutation theorem with a concrete schedule for the original unlocked singleton_value and a sanity theorem that a read can fail without the lock. Tied to /repo by REAL threads driven deterministically at source-line granularity (sys.settrace tracer, preemption lines taken from the AST of the current gin/config.py, cooperative lock wrappers): exceptions per thread, every read text parses, final record vs a sequential run, constructions and identities per singleton; the model is compared on the schedule-independent observations.",
   note=NOTE + " Partial on granularity: atomic steps are source lines; bytecode-level interleavings and CPython dict internals are outside the model.", design="5/C18"),
 'C20': dict(text="Coq theorems: clear_config is total and yields an empty store / operative record / singleton cache, an unlocked config and the same registry, and after ANY history from any registrations keeps every constant; refutation theorem for the code before the repair. Correspondence on generated histories + comparison with a freshly imported gin given the same registrations.",
   note=NOTE, design="5/C20"),
}
for _k in CLAIMED:
  CLAIMED[_k].setdefault('technique', TECH)
NOT_YET = {}
def main():
  props = [json.loads(l) for l in open(os.path.join(V, 'properties.jsonl'))]
  checks, na = [], []
  for p in props:
    pid = p['id']
    if pid in CLAIMED:
      c = CLAIMED[pid]
      checks.append({
        'property_id': pid,
        'quick_cmd': './check %s --tier quick' % pid,
        'thorough_cmd': './check %s --tier thorough' % pid,
        'evidence_file': 'evidence/%s.json' % pid,
        'replay_cmd_template': './check %s --replay {path}' % pid,
        'engine': 'coq+harness',
        'level_claimed': {'category': c.get('category', 'proof'), 'text': c['text'], 'design_ref': c['design']},
        'level_note': c['note'],
        'technique': c['technique'],
      })
    else:
      na.append({'property_id': pid, 'reason': NOT_YET.get(pid, 'not claimed yet: model and proof under construction (see DESIGN.md section 8 build order); no check is registered for it at this commit')})
  m = {
   'version': 1,
   'setup_cmd': 'cd coq && coq_makefile -f _CoqProject -o Makefile && timeout 3000 make -j16',
   'hooks': {'guard': 'GIN_CONFIG_VERIF', 'enable': 'no hooks exist in /repo; the guard name is reserved',
             'baseline_off_cmd': BASE, 'source_commits': [], 'add_only': True},
   'engines': [{'name': 'coq+harness', 'path': 'harness/main.py', 'serves_properties': sorted(CLAIMED),
                'kind_free_text': 'Coq 8.16 development coq/ (models, proofs, Props/Cnn.v) + Python differential harness evaluating the model inside coqc'}],
   'checks': checks,
   'not_applicable': na,
   'notes': 'Genuine defects repaired in /repo are listed in known_findings.json (fixed:). See DESIGN.md.',
  }
  json.dump(m, open(os.path.join(V, 'MANIFEST.json'), 'w'), indent=1)
if __name__ == '__main__':
  main()
