"""Writes MANIFEST.json from the table below (kept in one place so it stays valid)."""
import json, os
V = os.path.dirname(os.path.dirname(os.path.abspath(__file__)))
BASE = "cd /repo && /venv/bin/python -m pytest -ra -q -p no:cacheprovider --timeout=900 --continue-on-collection-errors tests"
CLAIMED = {
 'C08': dict(
   text="Coq proof (for every history of set/pop/clear/copy and every query, over unbounded name sets) that the suffix-tree model refines a finite map, that matching = exact-match-else-all-suffix-matches, and that the reported minimal selector resolves back and no shorter suffix does; model tied to /repo by a differential run of generated histories (model evaluated in coqc) plus an independent brute-force statement of the property evaluated on the implementation.",
   note="Trusted: Coq kernel, the hand-written model coq/Model/SelectorMap.v, the Python correspondence harness (harness/props/c08.py). ASCII selectors only. No axioms.",
   technique="Coq proof over an executable Gallina model + model/implementation correspondence (vm_compute) + independent P_impl",
   design="5/C08"),
}
NOT_YET = {}
def main():
  props = [json.loads(l) for l in open(os.path.join(V, 'properties.jsonl'))]
  checks, na = [], []
  for p in props:
    pid = p['id']
    if pid in CLAIMED:
      c = CLAIMED[pid]
      checks.append({
        'property_id': pid,
        'quick_cmd': './check %s --tier quick' % pid,
        'thorough_cmd': './check %s --tier thorough' % pid,
        'evidence_file': 'evidence/%s.json' % pid,
        'replay_cmd_template': './check %s --replay {path}' % pid,
        'engine': 'coq+harness',
        'level_claimed': {'category': c.get('category', 'proof'), 'text': c['text'], 'design_ref': c['design']},
        'level_note': c['note'],
        'technique': c['technique'],
      })
    else:
      na.append({'property_id': pid, 'reason': NOT_YET.get(pid, 'not claimed yet: model and proof under construction (see DESIGN.md section 8 build order); no check is registered for it at this commit')})
  m = {
   'version': 1,
   'setup_cmd': 'cd coq && coq_makefile -f _CoqProject -o Makefile && timeout 3000 make -j16',
   'hooks': {'guard': 'GIN_CONFIG_VERIF', 'enable': 'no hooks exist in /repo; the guard name is reserved',
             'baseline_off_cmd': BASE, 'source_commits': [], 'add_only': True},
   'engines': [{'name': 'coq+harness', 'path': 'harness/main.py', 'serves_properties': sorted(CLAIMED),
                'kind_free_text': 'Coq 8.16 development coq/ (models, proofs, Props/Cnn.v) + Python differential harness evaluating the model inside coqc'}],
   'checks': checks,
   'not_applicable': na,
   'notes': 'Genuine defects repaired in /repo are listed in known_findings.json (fixed:). See DESIGN.md.',
  }
  json.dump(m, open(os.path.join(V, 'MANIFEST.json'), 'w'), indent=1)
if __name__ == '__main__':
  main()
