"""Writes MANIFEST.json from the table below (kept in one place so it stays valid)."""
import json, os
V = os.path.dirname(os.path.dirname(os.path.abspath(__file__)))
BASE = "cd /repo && /venv/bin/python -m pytest -ra -q -p no:cacheprovider --timeout=900 --continue-on-collection-errors tests"
TECH = "Coq proof over an executable Gallina model + model/implementation correspondence (vm_compute inside coqc) + independent P_impl predicate on the implementation"
NOTE = "Trusted: Coq 8.16.1 kernel (no axioms: Print Assumptions closed), the hand-written Gallina model, the Python correspondence harness. See DESIGN.md section 4."
CLAIMED = {
 'C01': dict(text="Coq theorems for every store, scope depth, signature shape and argument split: the overlay loop computes the longest-prefix rule, non-prefix scopes never apply, positionally supplied names are dropped, and what Python's own binding hands to the function is the caller's value / the applicable binding / the default (C01_injection). Model tied to /repo by differential runs of generated Gin-machine programs and an independent longest-prefix predicate evaluated on what the real probes received.",
   note=NOTE + " inspect.getfullargspec / functools.wraps are not modelled.", design="5/C01"),
 'C02': dict(category='translation_validation', text="Executable Gallina model of the recursive-descent value parser over the real tokenizer's token stream, compared with the implementation on generated literal texts in random layouts and on near-miss texts; independent oracle ast.literal_eval on the whole text. The completeness theorem (every tree of the literal grammar in every layout parses to Python's value) is being proved (coq/Model/ParserSpec.v); until it is in Props/C02.v the level claimed is model-vs-code agreement.",
   note=NOTE + " CPython's tokenizer and ast.literal_eval on one atom are not modelled (observed / oracle table).", design="5/C02"),
 'C03': dict(category='translation_validation', text="Executable Gallina model of the statement parser (bindings, macro form, blocks, four import forms, includes, selector adjacency re-check) compared with the implementation on generated statement lists rendered in two independent layouts plus a malformed stream; independent predicate: both layouts yield exactly the generated statements.",
   note=NOTE + " CPython's tokenizer is not modelled.", design="5/C03"),
 'C08': dict(text="Coq proof (for every history of set/pop/clear/copy and every query, over unbounded name sets) that the suffix-tree model refines a finite map, that matching = exact-match-else-all-suffix-matches, and that the reported minimal selector resolves back and no shorter suffix does; model tied to /repo by a differential run of generated histories plus an independent brute-force statement of the property evaluated on the implementation.",
   note=NOTE + " ASCII selectors only.", design="5/C08"),
 'C09': dict(text="Coq theorem C09_restored: every op of the Gin-machine language (config_scope blocks of any depth, raising bodies, scoped references, nested calls) leaves the scope stack exactly as found on both exits; composition and invalid-scope theorems. Thread half: per-thread-stack model compared with 2-4 real threads stepped by a central scheduler on generated (thorough: exhaustively enumerated) schedules, with an independent 'what the thread sees alone' predicate.",
   note=NOTE + " Thread half is partial: atomic steps are API calls; preemption inside a step is not modelled.", design="5/C09"),
 'C10': dict(text="Coq theorems for every signature and marker placement: the marker never reaches the function, markers are filled in place, other arguments keep position and value, unfilled markers always raise before the body runs and the error lists them in signature order; correspondence + independent predicate on generated calls with markers; registration-time rejection checked on the implementation.",
   note=NOTE, design="5/C10"),
 'C11': dict(text="Coq theorems: accept-iff for a binding, rejected bindings leave the whole state unchanged through every binding op, and the store invariant (only configurable parameters of registered configurables are ever stored) is preserved by every op over every history (side condition proved necessary); correspondence + independent accept predicate over all API paths.",
   note=NOTE, design="5/C11"),
 'C12': dict(text="Coq theorems over the Gin-machine: locked => every mutation raises and changes nothing; unlock_config restores the lock on every exit path; finalize atomicity, finalize-twice, hook-conflict rejection for any two spellings, built-in hooks; correspondence on generated histories + an independent lock automaton written from the property text.",
   note=NOTE + " finalize is modelled with an empty active scope.", design="5/C12"),
 'C20': dict(text="Coq theorems: clear_config is total and yields an empty store / operative record / singleton cache, an unlocked config and the same registry, and after ANY history from any registrations keeps every constant; refutation theorem for the code before the repair. Correspondence on generated histories + comparison with a freshly imported gin given the same registrations.",
   note=NOTE, design="5/C20"),
}
for _k in CLAIMED:
  CLAIMED[_k].setdefault('technique', TECH)
NOT_YET = {}
def main():
  props = [json.loads(l) for l in open(os.path.join(V, 'properties.jsonl'))]
  checks, na = [], []
  for p in props:
    pid = p['id']
    if pid in CLAIMED:
      c = CLAIMED[pid]
      checks.append({
        'property_id': pid,
        'quick_cmd': './check %s --tier quick' % pid,
        'thorough_cmd': './check %s --tier thorough' % pid,
        'evidence_file': 'evidence/%s.json' % pid,
        'replay_cmd_template': './check %s --replay {path}' % pid,
        'engine': 'coq+harness',
        'level_claimed': {'category': c.get('category', 'proof'), 'text': c['text'], 'design_ref': c['design']},
        'level_note': c['note'],
        'technique': c['technique'],
      })
    else:
      na.append({'property_id': pid, 'reason': NOT_YET.get(pid, 'not claimed yet: model and proof under construction (see DESIGN.md section 8 build order); no check is registered for it at this commit')})
  m = {
   'version': 1,
   'setup_cmd': 'cd coq && coq_makefile -f _CoqProject -o Makefile && timeout 3000 make -j16',
   'hooks': {'guard': 'GIN_CONFIG_VERIF', 'enable': 'no hooks exist in /repo; the guard name is reserved',
             'baseline_off_cmd': BASE, 'source_commits': [], 'add_only': True},
   'engines': [{'name': 'coq+harness', 'path': 'harness/main.py', 'serves_properties': sorted(CLAIMED),
                'kind_free_text': 'Coq 8.16 development coq/ (models, proofs, Props/Cnn.v) + Python differential harness evaluating the model inside coqc'}],
   'checks': checks,
   'not_applicable': na,
   'notes': 'Genuine defects repaired in /repo are listed in known_findings.json (fixed:). See DESIGN.md.',
  }
  json.dump(m, open(os.path.join(V, 'MANIFEST.json'), 'w'), indent=1)
if __name__ == '__main__':
  main()
