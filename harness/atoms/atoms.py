#!/venv/bin/python
"""Differential harness: Model/StrLit.v against CPython 3.12 (repr / ast.literal_eval of ONE atom text).

  /venv/bin/python harness_new/atoms.py [--seed N ...] [--n N] [--coq DIR] [--work DIR] [--keep]

For every seed it generates
  * values          str / bytes / int          -> expected repr(x); the model must write the same text AND read it back
  * literal texts   str / bytes / int literals, valid and malformed -> expected ast.literal_eval(text) (any exception,
                    or a result of another type, is None); the model decoder must agree
  * adjacent pieces ['ab', "cd", ...]          -> expected literal_eval(' '.join(pieces)); decode_str_literals must agree
writes Coq files of <= 500 cases (a list of (index, bool) evaluated by vm_compute; the answer is the list of indices
whose boolean is false), runs coqc on them and prints counts, distributions and the disagreeing cases.
Exit status 0 iff there is no disagreement.

`printable` of a case is the finite list of the printable code points (str.isprintable) occurring in the case.
"""
import argparse
import ast
import collections
import io
import os
import random
import re
import subprocess
import sys
import tokenize
import warnings
from concurrent.futures import ThreadPoolExecutor

warnings.simplefilter('ignore')
HERE = os.path.dirname(os.path.abspath(__file__))
CHUNK = 500
INT_LIMIT = sys.get_int_max_str_digits()


# ---------------------------------------------------------------------------- Coq printing
def nlist(cps):
  cps = list(cps)
  return '[' + '; '.join(str(c) for c in cps) + ']' if cps else '(@nil N)'


def cps(s):
  return [ord(c) for c in s]


def opt_nlist(v):
  return 'None' if v is None else '(Some %s)' % nlist(v)


def printable_fun(points):
  pr = sorted({c for c in points if chr(c).isprintable()})
  return '(fun c => existsb (N.eqb c) %s)' % nlist(pr)


def cz(n):
  if abs(n) >= 1 << 4000:          # beyond Python's own decimal conversion limit: a hexadecimal Coq numeral
    return '(%s0x%x)%%Z' % ('-' if n < 0 else '', abs(n))
  return '(%d)%%Z' % n


HEADER = '''From Coq Require Import List NArith ZArith Bool.
From GinV Require Import Model.StrLit.
Import ListNotations.
Open Scope N_scope.
Definition leqb (a b : list N) : bool := list_N_eqb a b.
Definition oeqb (a b : option (list N)) : bool :=
  match a, b with Some x, Some y => leqb x y | None, None => true | _, _ => false end.
Definition zeqb (a b : option Z) : bool :=
  match a, b with Some x, Some y => Z.eqb x y | None, None => true | _, _ => false end.
Definition mismatches (cases : list (N * bool)) : list N := map fst (filter (fun p => negb (snd p)) cases).
'''


# ---------------------------------------------------------------------------- CPython side
def lit_eval(text):
  try:
    return ('ok', ast.literal_eval(text))
  except BaseException as e:          # SyntaxError, ValueError, UnicodeEncodeError, MemoryError, ...
    return ('err', type(e).__name__)


def string_tokens(text):
  """texts of the STRING tokens if the text consists of STRING tokens only, else None"""
  try:
    toks = list(tokenize.generate_tokens(io.StringIO(text).readline))
  except BaseException:
    return None
  out = []
  for t in toks:
    if t.type in (tokenize.NEWLINE, tokenize.NL, tokenize.ENDMARKER, tokenize.COMMENT, tokenize.INDENT, tokenize.DEDENT):
      continue
    if t.type != tokenize.STRING:
      return None
    out.append(t.string)
  return out


def has_named_escape(text):
  """a backslash-N escape (not a doubled backslash followed by N) -- outside the model in a non-raw str literal"""
  i = 0
  while i < len(text):
    if text[i] == '\\':
      if i + 1 < len(text) and text[i + 1] == 'N':
        return True
      i += 2
    else:
      i += 1
  return False


# ---------------------------------------------------------------------------- generators
ASCII_LETTERS = 'abfnrtuvxUNZq09 _-.:#%{}[]()'
CONTROLS = [0, 1, 7, 8, 9, 10, 11, 12, 13, 27, 31, 127]
LATIN1 = [0x80, 0x85, 0x9f, 0xa0, 0xa1, 0xad, 0xb5, 0xe9, 0xff]
BMP_PRINTABLE = [0x100, 0x3b1, 0x4e2d, 0x20ac, 0xfffd, 0xd7ff, 0xe000 + 0x1000 * 0, 0xff21]
BMP_NONPRINTABLE = [0x378, 0x200b, 0x2028, 0x2029, 0xfeff, 0xffff, 0x3000, 0x1680, 0xe000, 0x061c]
SURROGATES = [0xd800, 0xdbff, 0xdc00, 0xdfff, 0xd83d]
ASTRAL = [0x10000, 0x1f600, 0x1d11e, 0x2000b, 0xe0001, 0xf0000, 0x10ffff, 0x10fffe, 0x1fffe, 0x30000]


def gen_char(rng):
  k = rng.random()
  if k < 0.30: return ord(rng.choice(ASCII_LETTERS))
  if k < 0.40: return 39
  if k < 0.48: return 34
  if k < 0.56: return 92
  if k < 0.66: return rng.choice(CONTROLS)
  if k < 0.70: return rng.randrange(0, 128)
  if k < 0.76: return rng.choice(LATIN1)
  if k < 0.79: return rng.randrange(0x80, 0x100)
  if k < 0.84: return rng.choice(BMP_PRINTABLE)
  if k < 0.89: return rng.choice(BMP_NONPRINTABLE)
  if k < 0.91: return rng.randrange(0x100, 0x10000)
  if k < 0.94: return rng.choice(SURROGATES)
  if k < 0.98: return rng.choice(ASTRAL)
  return rng.randrange(0x10000, 0x110000)


def gen_len(rng):
  k = rng.random()
  if k < 0.05: return 0
  if k < 0.85: return rng.randrange(1, 13)
  if k < 0.97: return rng.randrange(13, 60)
  return rng.randrange(60, 300)


def gen_str(rng):
  n = gen_len(rng)
  mode = rng.random()
  if mode < 0.15:          # pure ASCII
    return ''.join(chr(rng.randrange(0, 128)) for _ in range(n))
  if mode < 0.25:          # quote heavy
    return ''.join(rng.choice('\'"\\ab') for _ in range(n))
  return ''.join(chr(gen_char(rng)) for _ in range(n))


def gen_bytes(rng):
  n = gen_len(rng)
  mode = rng.random()
  if mode < 0.25:
    return bytes(rng.choice(b'\'"\\ab\n\t\r') for _ in range(n))
  if mode < 0.5:
    return bytes(rng.randrange(0, 256) for _ in range(n))
  return bytes(rng.choice([39, 34, 92, 9, 10, 13, 0, 31, 32, 126, 127, 128, 255, 65, 97, 120]) for _ in range(n))


def gen_int(rng):
  k = rng.random()
  if k < 0.2: return rng.randrange(0, 20)
  if k < 0.4: return rng.randrange(-20, 0)
  if k < 0.6: return rng.randrange(-10**6, 10**6)
  if k < 0.8: return rng.randrange(-2**70, 2**70)
  if k < 0.9: return rng.choice([1, -1]) * 10 ** rng.randrange(0, 40) + rng.choice([0, 0, -1, 1])
  if k < 0.97: return rng.choice([1, -1]) * rng.randrange(0, 10 ** rng.randrange(1, 400))
  return rng.choice([1, -1]) * rng.randrange(0, 2 ** rng.randrange(1, 3000))


HEXD = '0123456789abcdefABCDEF'


def hexs(rng, n):
  return ''.join(rng.choice(HEXD) for _ in range(n))


def gen_body_piece(rng, q, tags):
  """one piece of a literal body and its tag"""
  k = rng.random()
  def t(tag, s):
    tags[tag] += 1
    return s
  if k < 0.22: return t('plain', rng.choice('abxuUN019 _{}'))
  if k < 0.27: return t('own-quote', q[0])
  if k < 0.32: return t('other-quote', '"' if q[0] == "'" else "'")
  if k < 0.42: return t('esc-simple', '\\' + rng.choice('\\\'"abfnrtv'))
  if k < 0.50: return t('esc-octal', '\\' + ''.join(rng.choice('01234567') for _ in range(rng.randrange(1, 5))))
  if k < 0.52: return t('esc-8-9', '\\' + rng.choice('89'))
  if k < 0.58: return t('esc-x', '\\x' + hexs(rng, 2))
  if k < 0.61: return t('esc-x-bad', '\\x' + rng.choice(['', hexs(rng, 1), 'g1', hexs(rng, 1) + 'g', hexs(rng, 1) + q[0]]))
  if k < 0.66: return t('esc-u', '\\u' + hexs(rng, 4))
  if k < 0.68: return t('esc-u-bad', '\\u' + rng.choice([hexs(rng, rng.randrange(0, 4)), hexs(rng, 3) + 'g']))
  if k < 0.73: return t('esc-U', '\\U' + rng.choice(['0000', '0001', '0010', '000f', '0002']) + hexs(rng, 4))
  if k < 0.76: return t('esc-U-bad', '\\U' + rng.choice(['0011' + hexs(rng, 4), hexs(rng, 8), hexs(rng, rng.randrange(0, 8)),
                                                            'ffffffff', '00110000']))
  if k < 0.78: return t('esc-N', '\\N' + rng.choice(['{DIGIT ONE}', '{LATIN SMALL LETTER A}', '', '{', '{}', '{NO SUCH NAME}']))
  if k < 0.83: return t('esc-unknown', '\\' + rng.choice('qzcdeghijklmopswyAXT .(%é中\U0001f600'))
  if k < 0.86: return t('esc-newline', '\\\n')
  if k < 0.875: return t('esc-cr', '\\' + rng.choice(['\r', '\r\n']))
  if k < 0.90: return t('raw-newline', '\n')
  if k < 0.915: return t('raw-cr', rng.choice(['\r', '\r\n', '\r\r', '\n\r']))
  if k < 0.93: return t('raw-tab', rng.choice('\t\x0c\x0b\x1a\x7f\x01'))
  if k < 0.97: return t('raw-nonascii', rng.choice('é\xa0\xad中\u200b\u2028\ufeff\U0001f600\U0010ffff\u0378'))
  if k < 0.98: return t('raw-nul', '\x00')
  if k < 0.99: return t('raw-surrogate', rng.choice('\ud800\udfff'))
  return t('trailing-backslash', '\\')


PREFIXES = ['', '', '', '', 'u', 'U', 'r', 'R', 'b', 'B', 'b', 'br', 'rb', 'Rb', 'bR', 'BR', 'rB', 'f', 'ur', 'bu', 'x', 'rr']


def gen_literal_text(rng, tags):
  k = rng.random()
  if k < 0.2:          # random soup over a small alphabet: the quote / backslash logic
    tags['soup'] += 1
    alphabet = rng.choice(['\'"\\a', '\'"\\ab rx0\n', '\'\\', '"\'', "'\\\nb", '\'"\\ \t#'])
    return ''.join(rng.choice(alphabet) for _ in range(rng.randrange(0, 10)))
  pfx = rng.choice(PREFIXES)
  q = rng.choice(["'", '"', "'", '"', "'''", '"""'])
  body = ''.join(gen_body_piece(rng, q, tags) for _ in range(rng.choice([0, 1, 1, 2, 2, 3, 4, 6, 10])))
  e = rng.random()
  if e < 0.80: close = q
  elif e < 0.84: close = ''
  elif e < 0.88: close = q[0]
  elif e < 0.91: close = q + 'x'
  elif e < 0.94: close = q + q[0]
  elif e < 0.96: close = q + ' ' + q + 'z' + q
  elif e < 0.98: close = '"' if q == "'" else "'"
  else: close = q + q
  tags['prefix:' + pfx] += 1
  tags['quote:' + q] += 1
  if close != q: tags['bad-close'] += 1
  return pfx + q + body + close


def gen_int_text(rng, tags):
  k = rng.random()
  def digits(alpha, n, under):
    out = []
    for i in range(n):
      out.append(rng.choice(alpha))
      if under and rng.random() < 0.25: out.append('_' if rng.random() < 0.85 else '__')
    return ''.join(out)
  if k < 0.25:
    tags['int-soup'] += 1
    return ''.join(rng.choice('0011123456789__xXoObBaAfFeE.jJlL') for _ in range(rng.randrange(1, 9)))
  if k < 0.45:
    tags['int-decimal'] += 1
    return rng.choice('123456789') + digits('0123456789', rng.randrange(0, 12), True)
  if k < 0.55:
    tags['int-zeros'] += 1
    return '0' + digits(rng.choice(['0', '0', '01', '09']), rng.randrange(0, 6), True)
  if k < 0.70:
    tags['int-hex'] += 1
    return '0' + rng.choice('xX') + rng.choice(['', '', '_', '__']) + digits(HEXD + 'g', rng.randrange(0, 10), True)
  if k < 0.80:
    tags['int-oct'] += 1
    return '0' + rng.choice('oO') + rng.choice(['', '', '_']) + digits('012345678', rng.randrange(0, 10), True)
  if k < 0.90:
    tags['int-bin'] += 1
    return '0' + rng.choice('bB') + rng.choice(['', '', '_']) + digits('0101012', rng.randrange(0, 12), True)
  if k < 0.97:
    tags['int-long'] += 1
    return rng.choice('123456789') + digits('0123456789', rng.randrange(20, 200), rng.random() < 0.5)
  tags['int-limit'] += 1
  n = INT_LIMIT + rng.choice([-2, -1, 0, 1, 2])
  r = rng.random()
  if r < 0.4: return rng.choice('123456789') + '0' * (n - 1)
  if r < 0.6: return rng.choice('123456789') + '_' + '7' * (n - 1)
  if r < 0.8: return '0' * n
  return '0x' + 'f' * n


# ---------------------------------------------------------------------------- cases
class Case:
  def __init__(self, kind, coq, show, expected):
    self.kind, self.coq, self.show, self.expected = kind, coq, show, expected


def build_cases(seed, n):
  rng = random.Random(seed)
  cases, stats = [], collections.Counter()
  tags = collections.Counter()
  lengths = collections.Counter()
  esc = collections.Counter()

  def bucket(k):
    return '0' if k == 0 else '1-12' if k <= 12 else '13-59' if k < 60 else '60+'

  # --- values: repr and read back
  for _ in range(n):
    s = gen_str(rng)
    text = repr(s)
    assert ast.literal_eval(text) == s
    pr = printable_fun(cps(s))
    coq = 'leqb (py_repr_str %s %s) %s && oeqb (decode_str_literal %s) (Some %s)' % (
        pr, nlist(cps(s)), nlist(cps(text)), nlist(cps(text)), nlist(cps(s)))
    cases.append(Case('repr-str', coq, ascii(s), ascii(text)))
    lengths['str ' + bucket(len(s))] += 1
    for m in re.finditer(r'\\(.)', text):
      esc['repr-str \\' + m.group(1)] += 1
    if any(ord(c) > 127 for c in text): esc['repr-str raw non-ASCII'] += 1
    esc['repr-str quote ' + text[0]] += 1
  for _ in range(n // 2):
    b = gen_bytes(rng)
    text = repr(b)
    assert ast.literal_eval(text) == b
    coq = 'leqb (py_repr_bytes %s) %s && oeqb (decode_bytes_literal %s) (Some %s)' % (
        nlist(b), nlist(cps(text)), nlist(cps(text)), nlist(b))
    cases.append(Case('repr-bytes', coq, ascii(b), text))
    lengths['bytes ' + bucket(len(b))] += 1
    for m in re.finditer(r'\\(.)', text):
      esc['repr-bytes \\' + m.group(1)] += 1
    esc['repr-bytes quote ' + text[1]] += 1
  for _ in range(n // 2):
    z = gen_int(rng)
    text = repr(z)
    if z >= 0:
      coq = 'leqb (py_repr_int %s) %s && zeqb (decode_int_literal %s) (Some %s)' % (cz(z), nlist(cps(text)), nlist(cps(text)), cz(z))
    else:
      coq = 'leqb (py_repr_int %s) %s && leqb (py_repr_int %s) (45 :: py_repr_int %s)' % (cz(z), nlist(cps(text)), cz(z), cz(-z))
    cases.append(Case('repr-int', coq, str(z)[:60], text[:60]))
    lengths['int digits ' + bucket(len(text))] += 1
  for c, name in (('CTrue', True), ('CFalse', False), ('CNone', None)):
    text = repr(name)
    cases.append(Case('repr-const', 'leqb (py_repr_bool_none %s) %s && match decode_name_literal %s with Some %s => true | _ => false end'
                      % (c, nlist(cps(text)), nlist(cps(text)), c), text, text))

  # --- literal texts
  for _ in range(n):
    text = gen_literal_text(rng, tags)
    res = lit_eval(text)
    pieces = None
    if res[0] == 'ok':
      t2 = text.replace('\r\n', '\n').replace('\r', '\n')
      toks = string_tokens(t2)
      if toks is not None and toks != [t2]:
        if '\r' in text:
          stats['skipped (several tokens, CR)'] += 1
          continue
        pieces = toks
    if pieces is not None:
      if isinstance(res[1], str) and not any(has_named_escape(p) for p in pieces):
        coq = 'oeqb (decode_str_literals %s) (Some %s)' % ('[' + '; '.join(nlist(cps(p)) for p in pieces) + ']', nlist(cps(res[1])))
        cases.append(Case('lit-concat', coq, ascii(pieces), ascii(res[1])))
        stats['lit-concat'] += 1
      else:
        stats['skipped (several tokens, not str)'] += 1
      # and the whole text is no single token: both decoders refuse it -- unless it is one token and blanks / a comment
      continue
    exp_str = cps(res[1]) if res[0] == 'ok' and isinstance(res[1], str) else None
    exp_bytes = list(res[1]) if res[0] == 'ok' and isinstance(res[1], bytes) else None
    outside = False
    if res[0] == 'ok' and isinstance(res[1], str) and has_named_escape(text) and not text.lstrip('uU').startswith(('r', 'R')):
      exp_str, outside = None, True       # \N{...}: the model answers None = outside the model
    coq = 'oeqb (decode_str_literal %s) %s && oeqb (decode_bytes_literal %s) %s' % (
        nlist(cps(text)), opt_nlist(exp_str), nlist(cps(text)), opt_nlist(exp_bytes))
    cases.append(Case('lit-text', coq, ascii(text), ascii(res[1]) if res[0] == 'ok' else res[1]))
    stats['lit-text -> ' + ('str' if exp_str is not None else 'bytes' if exp_bytes is not None else
                            'outside (\\N)' if outside else 'None')] += 1
    lengths['literal text ' + bucket(len(text))] += 1
  # --- adjacent literals made of repr texts and of valid literals
  for _ in range(n // 4):
    k = rng.randrange(1, 5)
    pieces = []
    for _ in range(k):
      if rng.random() < 0.6:
        pieces.append(repr(gen_str(rng)))
      else:
        for _ in range(20):
          t = gen_literal_text(rng, collections.Counter())
          r = lit_eval(t)
          if r[0] == 'ok' and isinstance(r[1], str) and '\r' not in t and string_tokens(t) == [t] and not has_named_escape(t):
            pieces.append(t)
            break
        else:
          pieces.append("''")
    res = lit_eval(' '.join(pieces))
    exp = cps(res[1]) if res[0] == 'ok' and isinstance(res[1], str) else None
    coq = 'oeqb (decode_str_literals %s) %s' % ('[' + '; '.join(nlist(cps(p)) for p in pieces) + ']', opt_nlist(exp))
    cases.append(Case('lit-pieces', coq, ascii(pieces), ascii(res[1]) if res[0] == 'ok' else res[1]))
    stats['lit-pieces of %d' % k] += 1
  # --- integer literal texts
  for _ in range(n // 2):
    text = gen_int_text(rng, tags)
    res = lit_eval(text)
    exp = res[1] if res[0] == 'ok' and type(res[1]) is int else None
    coq = 'zeqb (decode_int_literal %s) %s' % (nlist(cps(text)), 'None' if exp is None else '(Some %s)' % cz(exp))
    cases.append(Case('lit-int', coq, text[:70], (hex(exp)[:40] if exp is not None else (res[1] if res[0] == 'err' else 'not an int'))))
    stats['lit-int -> ' + ('int' if exp is not None else 'None')] += 1
  # the digit limit, both directions, once per seed
  for d in (INT_LIMIT - 1, INT_LIMIT, INT_LIMIT + 1):
    text = '1' + '0' * (d - 1)
    res = lit_eval(text)
    exp = res[1] if res[0] == 'ok' else None
    coq = 'zeqb (decode_int_literal %s) %s' % (nlist(cps(text)), 'None' if exp is None else '(Some %s)' % cz(exp))
    cases.append(Case('lit-int', coq, '1 and %d zeros' % (d - 1), 'int' if exp is not None else res[1]))
    stats['lit-int limit -> ' + ('int' if exp is not None else 'None')] += 1
    try:
      r = repr(10 ** (d - 1))
      cases.append(Case('repr-int', 'leqb (py_repr_int %s) %s' % (cz(10 ** (d - 1)), nlist(cps(r))), '10**%d' % (d - 1), 'text'))
    except ValueError:
      stats['repr-int raises beyond the limit (not compared)'] += 1
  for c in cases:
    stats['kind ' + c.kind] += 1
  return cases, stats, tags, lengths, esc


# ---------------------------------------------------------------------------- running coqc
def run_chunk(args):
  coq, path = args
  p = subprocess.run(['timeout', '900', 'coqc', '-Q', coq, 'GinV', path], capture_output=True, text=True)
  return path, p.returncode, p.stdout, p.stderr


def main():
  ap = argparse.ArgumentParser()
  ap.add_argument('--seed', type=int, action='append')
  ap.add_argument('--n', type=int, default=1200, help='base count per seed (strings; other kinds are fractions of it)')
  ap.add_argument('--coq', default=os.path.dirname(HERE))
  ap.add_argument('--work', default=os.path.join(HERE, 'work_atoms'))
  ap.add_argument('--keep', action='store_true')
  a = ap.parse_args()
  seeds = a.seed if a.seed else [0, 1, 2]
  os.makedirs(a.work, exist_ok=True)
  total_bad = 0
  for seed in seeds:
    cases, stats, tags, lengths, esc = build_cases(seed, a.n)
    jobs = []
    for k in range(0, len(cases), CHUNK):
      chunk = cases[k:k + CHUNK]
      path = os.path.join(a.work, 'cases_s%d_%03d.v' % (seed, k // CHUNK))
      with open(path, 'w') as f:
        f.write(HEADER)
        f.write('Definition cases : list (N * bool) := [\n')
        f.write(';\n'.join('  (%d, %s)' % (k + i, c.coq) for i, c in enumerate(chunk)))
        f.write('\n].\nEval vm_compute in (mismatches cases).\n')
      jobs.append((a.coq, path))
    bad = []
    with ThreadPoolExecutor(max_workers=min(8, os.cpu_count() or 2)) as ex:
      for path, rc, out, err in ex.map(run_chunk, jobs):
        if rc != 0:
          print('coqc FAILED on %s (exit %d):\n%s' % (path, rc, err[-2000:]))
          total_bad += 1
          continue
        m = re.search(r'=\s*(\[.*?\]|nil)\s*:\s*list N', out, re.S)
        if not m:
          print('cannot read the answer of %s:\n%s' % (path, out[-500:]))
          total_bad += 1
          continue
        bad += [int(x) for x in re.findall(r'\d+', m.group(1))]
    print('seed %d: %d cases in %d files, %d disagreements' % (seed, len(cases), len(jobs), len(bad)))
    for title, ctr in (('kinds / outcomes', stats), ('lengths', lengths), ('escapes written by repr', esc),
                       ('literal generator pieces', tags)):
      print('  %s: %s' % (title, ', '.join('%s=%d' % kv for kv in sorted(ctr.items()))))
    for i in bad:
      c = cases[i]
      print('  DISAGREE #%d %s: %s  expected %s' % (i, c.kind, c.show, c.expected))
    total_bad += len(bad)
    if not a.keep and not bad:
      for _, path in jobs:
        base = path[:-2]
        for ext in ('.v', '.vo', '.vok', '.vos', '.glob'):
          if os.path.exists(base + ext): os.remove(base + ext)
        aux = os.path.join(os.path.dirname(path), '.' + os.path.basename(base) + '.aux')
        if os.path.exists(aux): os.remove(aux)
  print('TOTAL disagreements: %d' % total_bad)
  return 1 if total_bad else 0


if __name__ == '__main__':
  sys.exit(main())
