"""Tokenisation, oracle tables, Coq printers and the implementation-side runner
for the parser model (coq/Model/Parser.v)."""
import ast
import io
import tokenize
import warnings

from harness import common as C
from harness.common import T

TYPES = {tokenize.NAME: 'NAME', tokenize.NUMBER: 'NUMBER', tokenize.STRING: 'STRING', tokenize.OP: 'OP',
         tokenize.NEWLINE: 'NEWLINE', tokenize.NL: 'NL', tokenize.COMMENT: 'COMMENT', tokenize.INDENT: 'INDENT',
         tokenize.DEDENT: 'DEDENT', tokenize.ENDMARKER: 'ENDMARKER', tokenize.ERRORTOKEN: 'ERRORTOKEN'}
SKIPPABLE = ('NL', 'COMMENT', 'INDENT', 'DEDENT')


def tokens_of(text):
  """[type, string, srow, scol, erow, ecol] as the real tokenizer yields them, then a TERR entry
  if it raised."""
  out = []
  try:
    for t in tokenize.generate_tokens(io.StringIO(text).readline):
      out.append([TYPES.get(t.type, 'OTHER'), t.string, t.start[0], t.start[1], t.end[0], t.end[1]])
  except Exception as e:  # pylint: disable=broad-except
    cls = type(e).__name__
    line = getattr(e, 'lineno', None) or 0
    out.append(['TERR', 'TokenError' if cls == 'TokenError' else cls, line, 0, line, 0])
  return out


def canon_lit(v):
  if v is None:
    return T('none')
  if isinstance(v, bool):
    return T('bool', str(v))
  if isinstance(v, int):
    return T('int', str(v))
  if isinstance(v, float):
    return T('float', v.hex() if v == v else 'nan')
  if isinstance(v, complex):
    # both parts exactly (the model compares numbers by value: 0j == 0 == False is one dict key)
    return T('complex', v.real.hex() if v.real == v.real else 'nan', v.imag.hex() if v.imag == v.imag else 'nan')
  if isinstance(v, str):
    return T('str', v.encode('unicode_escape').decode('ascii'))
  if isinstance(v, bytes):
    return T('bytes', v.hex())
  if isinstance(v, list):
    return T('L', *[canon_lit(x) for x in v])
  if isinstance(v, tuple):
    return T('T', *[canon_lit(x) for x in v])
  if isinstance(v, dict):
    return T('D', *[[canon_lit(k), canon_lit(x)] for k, x in v.items()])
  if isinstance(v, (set, frozenset)):
    return T('set', *sorted((canon_lit(x) for x in v), key=repr))
  if v is Ellipsis:
    return T('ellipsis')
  return T('py', type(v).__name__)


def lit_eval(text):
  try:
    with warnings.catch_warnings():
      warnings.simplefilter('ignore')
      return canon_lit(ast.literal_eval(text))
  except Exception:  # pylint: disable=broad-except
    return None


def oracle_for(toks):
  """every text the parser may hand to ast.literal_eval: each basic token, runs of adjacent
  STRING tokens (skippable tokens in between), each with and without a leading '-'."""
  table = {}
  basic = [i for i, t in enumerate(toks) if t[0] in ('NAME', 'NUMBER', 'STRING')]
  for i in basic:
    acc = accs = ''
    j = i
    while True:
      acc += toks[j][1]                                  # glued (original code)
      accs += (' ' if accs else '') + toks[j][1]          # blank-separated (repaired code)
      for pre in ('', '-'):
        for a in (acc, accs):
          if pre + a not in table:
            table[pre + a] = lit_eval(pre + a)
      if toks[j][0] != 'STRING':
        break
      k = j + 1
      while k < len(toks) and toks[k][0] in SKIPPABLE:
        k += 1
      if k < len(toks) and toks[k][0] == 'STRING' and len(acc) < 4000:
        j = k
      else:
        break
  return table


def coq_input(text):
  toks = tokens_of(text)
  orc = oracle_for(toks)
  o = C.clist(['(%s, %s)' % (C.cstr(k), 'None' if v is None else '(Some %s)' % C.out(v)) for k, v in orc.items()])
  t = C.clist(['{| ty := %s; text := %s; srow := %d; scol := %d; erow := %d; ecol := %d |}' %
               (x[0], C.cstr(x[1]), x[2], x[3], x[4], x[5]) for x in toks])
  return '(%s, %s)' % (o, t)


def coq_safe(text):
  """texts the Coq string literal printer can carry (bytes are compared as UTF-8)"""
  return '\x00' not in text and '\r' not in text


def run_statements(gin, text):
  """Iterate the real ConfigParser with a recording delegate; returns the canonical statement list
  (same shape as Parser.stmt_out) ending with the error, if any."""
  cp = gin.config_parser

  class Delegate(cp.ParserDelegate):
    def configurable_reference(self, scoped_configurable_name, evaluate):
      return T('Ref', scoped_configurable_name, bool(evaluate))

    def macro(self, macro_name):
      return T('Macro', macro_name)

  def canon(v):
    if isinstance(v, T):
      return v
    if isinstance(v, list):
      return T('L', *[canon(x) for x in v])
    if isinstance(v, tuple):
      return T('T', *[canon(x) for x in v])
    if isinstance(v, dict):
      return T('D', *[[canon(k), canon(x)] for k, x in v.items()])
    return canon_lit(v)
  out = []
  warnings.simplefilter('ignore')
  try:
    parser = cp.ConfigParser(text, Delegate())
    for st in parser:
      if isinstance(st, cp.BindingStatement):
        out.append(T('Bind', st.scope, st.selector, st.arg_name, canon(st.value), st.location.line_num))
      elif isinstance(st, cp.BlockDeclaration):
        out.append(T('Block', st.scope, st.selector, st.location.line_num))
      elif isinstance(st, cp.ImportStatement):
        out.append(T('Import', st.module, bool(st.is_from), st.alias, st.location.line_num))
      elif isinstance(st, cp.IncludeStatement):
        out.append(T('Include', canon(st.filename), st.location.line_num))
  except SyntaxError as e:
    out.append(T('SyntaxError', e.lineno or 0))
  except Exception as e:  # pylint: disable=broad-except
    out.append(T('Err', type(e).__name__))
  return out
