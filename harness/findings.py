"""Classifiers for known findings: decide whether a failing case is the SAME finding
(same call site, same mechanism) as a recorded one.  Anything a classifier does not
match is still reported as a VIOLATION."""


def _partial_path(imp):
  _, module, is_from, alias = imp
  if alias:
    return '.'.join(module.split('.')[:-1] + [alias])
  return module if is_from else module.split('.')[0]


def _bound(imp):
  _, module, is_from, alias = imp
  if alias:
    return alias
  parts = module.split('.')
  return parts[-1] if is_from else parts[0]


def _resolve(table, sel):
  """(universe path, registration prefix) of a dotted name under the file's own imports, or None"""
  first, _, rest = sel.partition('.')
  if first not in table:
    return None
  imp = table[first]
  _, module, is_from, alias = imp
  base = module if (is_from or alias) else module.split('.')[0]
  return (base + ('.' + rest if rest else ''), _partial_path(imp))


def _walk(case):
  """yields (statement, table) for the bind / block statements of every call"""
  if isinstance(case, dict):
    case = case['calls']
  for call in case:
    table, dyn = {}, False
    for st in call:
      if st[0] == 'import':
        if st[1] == '__gin__.dynamic_registration':
          dyn = True
        else:
          table[_bound(st)] = st
      elif dyn:
        yield st, dict(table)


def class_respelled_via_method(kind, detail, case):
  """F22 (C19): a class already registered through one import spelling has a method configured through a
  spelling with a different registration prefix (e.g. 'from pkgb import util' then 'import pkgb.util as u'):
  the class is registered a second time under the new prefix, so one class ends up with two configurables."""
  try:
    seen = {}
    for st, table in _walk(case):
      names = [st[2]] + ([st[4][1]] if st[0] == 'bind' and not isinstance(st[4], int) else [])
      for n in names:
        r = _resolve(table, n)
        if not r:
          continue
        path, prefix = r
        parts = path.split('.')
        # a method of class P: P was seen before under another prefix
        for k in range(len(parts) - 1, 0, -1):
          cls_path = '.'.join(parts[:k])
          if cls_path in seen and seen[cls_path] != prefix and k < len(parts):
            return True
        seen.setdefault(path, prefix)
        for k in range(1, len(parts)):
          seen.setdefault('.'.join(parts[:k]), prefix)
  except Exception:  # pylint: disable=broad-except
    return False
  return False
