"""Classifiers for known findings: decide whether a failing case is the SAME finding
(same call site, same mechanism) as a recorded one.  Anything a classifier does not
match is still reported as a VIOLATION."""


def _partial_path(imp):
  _, module, is_from, alias = imp
  if alias:
    return '.'.join(module.split('.')[:-1] + [alias])
  return module if is_from else module.split('.')[0]


def _bound(imp):
  _, module, is_from, alias = imp
  if alias:
    return alias
  parts = module.split('.')
  return parts[-1] if is_from else parts[0]


def _resolve(table, sel):
  """(universe path, registration prefix) of a dotted name under the file's own imports, or None"""
  first, _, rest = sel.partition('.')
  if first not in table:
    return None
  imp = table[first]
  _, module, is_from, alias = imp
  base = module if (is_from or alias) else module.split('.')[0]
  return (base + ('.' + rest if rest else ''), _partial_path(imp))


def _walk_json(x):
  yield x
  if isinstance(x, dict):
    for v in x.values():
      yield from _walk_json(v)
  elif isinstance(x, (list, tuple)):
    for v in x:
      yield from _walk_json(v)


def subclass_with_base_repr(kind, detail, case):
  """F55 (C06): the case binds an instance of a subclass of int / str / float that inherits the base type's repr
  (harness value kinds intplain / strplain / floatplain): its text is the base literal, so it is emitted and restored
  as the base type."""
  try:
    return any(isinstance(x, list) and len(x) >= 2 and x[0] == 'eqv' and x[1] in ('intplain', 'strplain', 'floatplain')
               for x in _walk_json(case))
  except Exception:  # pylint: disable=broad-except
    return False


def _unorderable_key(k):
  return isinstance(k, list) and k and k[0] in ('ref', 'dref', 'macro', 'complex', 'c', 't', 'tuple', 'eqv')


def unorderable_dict_keys(kind, detail, case):
  """F56 (C06): the case holds a dict with two or more keys that Python cannot order among themselves (references,
  macros, complex numbers, tuples of mixed types): pprint falls back to ordering them by id(), i.e. by allocation order."""
  try:
    if isinstance(case, dict) and case.get('kind') == 'keys':
      return len(case.get('items', [])) >= 2
    for x in _walk_json(case):
      if isinstance(x, list) and len(x) == 2 and x[0] == 'd' and isinstance(x[1], list):
        keys = [it[0] for it in x[1] if isinstance(it, list) and len(it) == 2]
        if sum(1 for k in keys if _unorderable_key(k)) >= 2:
          return True
  except Exception:  # pylint: disable=broad-except
    pass
  return False
