"""Confirm and evaluate seeded mutants.
  python3 harness/seed_eval.py collect <PID> <k>      copy /tmp/wt/<PID>/out/{mutk.diff,demok.py,metak.json} to seeded/<PID>-m<k>/  (optional: worktree name, target index)
  python3 harness/seed_eval.py confirm <id>           in a scratch worktree: suite unchanged, demo fails with / passes without
  python3 harness/seed_eval.py run <id> [checks...]   apply to /repo, run the quick checks, revert; records the outcome
"""
import json
import os
import re
import shutil
import subprocess
import sys

V = os.path.dirname(os.path.dirname(os.path.abspath(__file__)))
PY = '/venv/bin/python'


def sh(cmd, cwd=None, env=None, timeout=3000):
  e = dict(os.environ)
  e.update(env or {})
  p = subprocess.run(cmd, shell=True, cwd=cwd, env=e, capture_output=True, text=True, timeout=timeout)
  return p.returncode, p.stdout + p.stderr


def suite(wt):
  rc, out = sh('%s -m pytest -q -p no:cacheprovider --continue-on-collection-errors -rA tests/ 2>&1 | grep -E "^(PASSED|FAILED|ERROR|SKIPPED) tests/" | sort' % PY,
               cwd=wt, env={'PYTHONPATH': wt})
  return out


def collect(pid, k, wt=None, as_k=None):
  src = '/tmp/wt/%s/out' % (wt or pid)
  d = os.path.join(V, 'seeded', '%s-m%s' % (pid, as_k or k))
  os.makedirs(d, exist_ok=True)
  shutil.copy(os.path.join(src, 'mut%s.diff' % k), os.path.join(d, 'patch.diff'))
  shutil.copy(os.path.join(src, 'demo%s.py' % k), os.path.join(d, 'demo.py'))
  meta = json.load(open(os.path.join(src, 'meta%s.json' % k)))
  meta['property'] = pid
  json.dump(meta, open(os.path.join(d, 'meta.json'), 'w'), indent=1)
  print('collected', d)


def confirm(mid):
  d = os.path.join(V, 'seeded', mid)
  wt = '/tmp/wt/confirm_' + mid
  sh('git -C /repo worktree remove --force %s' % wt)
  rc, out = sh('git -C /repo worktree add -q --detach %s HEAD' % wt)
  assert rc == 0, out
  res = {}
  try:
    base = suite(wt)
    rc, out = sh('%s %s' % (PY, os.path.join(d, 'demo.py')), cwd=wt, env={'PYTHONPATH': wt})
    res['demo_passes_without'] = (rc == 0)
    rc, out = sh('git apply %s' % os.path.join(d, 'patch.diff'), cwd=wt)
    res['applies_to_head'] = (rc == 0)
    if rc != 0:
      res['apply_error'] = out[-500:]
    else:
      mut = suite(wt)
      res['suite_unchanged'] = (mut == base)
      if mut != base:
        res['suite_diff'] = [l for l in mut.split('\n') if l not in base.split('\n')][:5]
      rc, out = sh('%s %s' % (PY, os.path.join(d, 'demo.py')), cwd=wt, env={'PYTHONPATH': wt})
      res['demo_fails_with'] = (rc != 0)
      res['demo_output_with'] = out[-400:]
  finally:
    sh('git -C /repo worktree remove --force %s' % wt)
  meta = json.load(open(os.path.join(d, 'meta.json')))
  meta['confirmed'] = res
  json.dump(meta, open(os.path.join(d, 'meta.json'), 'w'), indent=1)
  print(mid, res)
  return res


def run(mid, checks):
  d = os.path.join(V, 'seeded', mid)
  meta = json.load(open(os.path.join(d, 'meta.json')))
  checks = checks or [meta['property']]
  rc, out = sh('git -C /repo status --porcelain')
  assert out.strip() == '', 'repo not clean: ' + out
  rc, out = sh('git -C /repo apply %s' % os.path.join(d, 'patch.diff'))
  assert rc == 0, out
  results = {}
  try:
    for c in checks:
      rc, out = sh('./check %s --tier quick' % c, cwd=V, env={'VERIF_KEEP_EVIDENCE': '1'})
      lines = [l for l in out.split('\n') if l.startswith(('VIOLATION', 'KNOWN-FINDING'))]
      results[c] = {'exit': rc, 'lines': lines[:6], 'tail': out.strip().split('\n')[-1][:300]}
      for l in lines:
        m = re.search(r'replay=(\S+)', l)
        if m and os.path.exists(os.path.join(V, m.group(1))):
          os.makedirs(os.path.join(d, 'replays'), exist_ok=True)
          shutil.copy(os.path.join(V, m.group(1)), os.path.join(d, 'replays'))
  finally:
    sh('git -C /repo checkout -- .')
  meta.setdefault('checks', {}).update(results)
  meta['detected_by'] = sorted(c for c, r in meta['checks'].items() if r['exit'] == 1)
  json.dump(meta, open(os.path.join(d, 'meta.json'), 'w'), indent=1)
  print(mid, {c: (r['exit'], r['lines'][:2]) for c, r in results.items()})


def prun(mid, checks):
  """like run, but on a scratch copy of /repo's working tree (GIN_REPO) with private work / evidence dirs, so
  that several mutants can be evaluated at once; /repo itself is not touched."""
  d = os.path.join(V, 'seeded', mid)
  meta = json.load(open(os.path.join(d, 'meta.json')))
  checks = checks or [meta['property']]
  scratch = '/tmp/gr-' + mid
  shutil.rmtree(scratch, ignore_errors=True)
  os.makedirs(scratch)
  rc, out = sh('git -C /repo archive HEAD | tar -x -C %s' % scratch)
  assert rc == 0, out
  rc, out = sh('git init -q . && git apply %s' % os.path.join(d, 'patch.diff'), cwd=scratch)
  assert rc == 0, out
  results = {}
  try:
    for c in checks:
      rc, out = sh('./check %s --tier quick' % c, cwd=V,
                   env={'GIN_REPO': scratch, 'VERIF_WORK': scratch + '/.work', 'VERIF_EVIDENCE_DIR': scratch + '/.evidence'})
      lines = [l for l in out.split('\n') if l.startswith(('VIOLATION', 'KNOWN-FINDING'))]
      results[c] = {'exit': rc, 'lines': lines[:6], 'tail': out.strip().split('\n')[-1][:300]}
      for l in lines:
        m = re.search(r'replay=(\S+)', l)
        if m and os.path.exists(os.path.join(V, m.group(1))):
          os.makedirs(os.path.join(d, 'replays'), exist_ok=True)
          shutil.copy(os.path.join(V, m.group(1)), os.path.join(d, 'replays'))
  finally:
    shutil.rmtree(scratch, ignore_errors=True)
  meta.setdefault('checks', {}).update(results)
  meta['detected_by'] = sorted(c for c, r in meta['checks'].items() if r['exit'] == 1)
  json.dump(meta, open(os.path.join(d, 'meta.json'), 'w'), indent=1)
  print(mid, {c: (r['exit'], r['lines'][:2]) for c, r in results.items()})


if __name__ == '__main__':
  cmd = sys.argv[1]
  if cmd == 'collect':
    collect(*sys.argv[2:6])
  elif cmd == 'confirm':
    confirm(sys.argv[2])
  elif cmd == 'run':
    run(sys.argv[2], sys.argv[3:])
  elif cmd == 'prun':
    prun(sys.argv[2], sys.argv[3:])
