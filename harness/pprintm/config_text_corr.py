#!/venv/bin/python
"""Correspondence of coq Model/ConfigText.v:config_text with the text gin.config_str() returns, character for character.

  PYTHONPATH=/repo /venv/bin/python -B config_text_corr.py [--seeds 0,1,2] [--n 300] [--coq /tmp/coqpp] [--jobs 6]

Per case: a fresh gin (from /repo) with 1-4 registered configurables (functions in modules, classes with registered
methods), 1-6 bindings under scopes '', a, a/b, ... with literal values (nested lists / tuples / dicts over ints, floats,
bools, None, ASCII strs and bytes that pprint does not split), some opaque objects and non-finite floats (not literally
representable: omitted by gin), some macros (name/gin.macro.value, also in the root scope), no imports.  The store
gin holds (_CONFIG, in dict order; is_method from the registry; the registry's selectors) is handed to the model;
  String.eqb (config_text registry entries maxlen indent) "<gin.config_str(maxlen, indent)>"
is evaluated by vm_compute.  Also checked per case (in Python, on the real side): parsing the text in a fresh gin restores
the representable bindings.
"""
import argparse
import os
import pprint
import random
import sys
import tempfile

REPO = os.environ.get('GIN_REPO', '/repo')

sys.path.insert(0, os.path.dirname(os.path.abspath(__file__)))
import pprint_corr as PC  # pylint: disable=wrong-import-position

SELS = ['m.f', 'n.g', 'pkg.sub.h', 'k', 'n.sub.h', 'm.Foo', 'm.foo', 'other.pkg.f', 'Zed.g']
CLASSES = [['cluster.local', 'Worker', ['run']], ['cluster.remote', 'Worker', ['run', 'stop']], ['m', 'Solo', ['go']]]
SCOPES = ['', '', 'a', 'a/b', 'Train', 'eval/inner_1', 'x/y/z']
PARAMS = ['a', 'b', 'c', 'lr', 'x_1', 'Name', '_private', 'value']
MACROS = ['mm', 'nn', 'A_macro', 'grp/mm']
# stdlib modules imported by the generated configs, in the four forms (static registration: the import only records)
IMPORT_MODS = ['math', 'os.path', 'json.decoder', 'collections.abc', 'xml.dom', 'email.utils', 'json', 'os', 'string']
ALIASES = ['al', 'np', 'path', 'json', 'x_1']


def gen_imports(rng):
  lines = []
  for _ in range(rng.choice([0, 0, 1, 2, 3, 5])):
    m = rng.choice(IMPORT_MODS)
    k = rng.random()
    if k < 0.35 or '.' not in m and k < 0.6:
      lines.append('import ' + m)
    elif k < 0.6:
      lines.append('import %s as %s' % (m, rng.choice(ALIASES)))
    elif '.' in m:
      a, b = m.rsplit('.', 1)
      lines.append('from %s import %s' % (a, b) + (' as ' + rng.choice(ALIASES) if rng.random() < 0.4 else ''))
    else:
      lines.append('import %s as %s' % (m, rng.choice(ALIASES)))
  return lines



class Opaque:
  def __repr__(self):
    return '<Opaque object>'


def fresh_gin():
  for m in [m for m in sys.modules if m == 'gin' or m.startswith('gin.')]:
    del sys.modules[m]
  if REPO not in sys.path:
    sys.path.insert(0, REPO)
  import logging  # pylint: disable=import-outside-toplevel
  logging.disable(logging.CRITICAL)
  import gin  # pylint: disable=import-outside-toplevel
  assert os.path.realpath(gin.__file__).startswith(os.path.realpath(REPO) + '/'), gin.__file__
  return gin


def register(gin, sels, classes):
  for sel in sels:
    name = sel.split('.')[-1]
    env = {}
    exec('def %s(a=None, b=None, c=None, **kw):\n  return None\n' % name, env)  # pylint: disable=exec-used
    fn = env[name]
    fn.__module__ = None
    gin.configurable(name, module='.'.join(sel.split('.')[:-1]) or None)(fn)
  for i, (module, name, methods) in enumerate(classes):
    src = 'class %s:\n  def __init__(self, a=None, b=None, c=None, **kw):\n    pass\n' % name
    for m in methods:
      src += '  @gin.register\n  def %s(self, a=None, b=None, c=None, **kw):\n    return None\n' % m
    env = {'gin': gin, '__name__': 'ctcls%d' % i}
    exec(src, env)  # pylint: disable=exec-used
    gin.register(name, module=module)(env[name])


def has_nonfinite(v):
  if isinstance(v, float):
    return v != v or v in (float('inf'), float('-inf'))
  if isinstance(v, (list, tuple)):
    return any(has_nonfinite(x) for x in v)
  if isinstance(v, dict):
    return any(has_nonfinite(k) or has_nonfinite(x) for k, x in v.items())
  return False


def has_opaque(v):
  if isinstance(v, Opaque):
    return True
  if isinstance(v, (list, tuple)):
    return any(has_opaque(x) for x in v)
  if isinstance(v, dict):
    return any(has_opaque(x) for x in v.values())
  return False


def gen_case(rng):
  sels = rng.sample(SELS, rng.randint(1, 4))
  classes = rng.sample(CLASSES, rng.choice([0, 0, 1, 2]))
  targets = list(sels)
  for module, name, methods in classes:
    targets.append(module + '.' + name)
    targets += [module + '.' + name + '.' + m for m in methods]
  binds = []
  for _ in range(rng.randint(1, 6)):
    r = rng.random()
    if r < 0.08:
      v = Opaque()
    elif r < 0.12:
      v = [1, Opaque()]
    else:
      v = PC.gen_value(rng, rng.choice([0, 0, 1, 2, 2, 3]), top=rng.random() < 0.5)
    k = rng.random()
    if k < 0.2:
      key = rng.choice(MACROS) + '/gin.macro.value'
    elif k < 0.24:
      key = 'gin.macro.value'
    else:
      scope = rng.choice(SCOPES)
      key = (scope + '/' if scope else '') + rng.choice(targets) + '.' + rng.choice(PARAMS)
    binds.append((key, v))
  return {'sels': sels, 'classes': classes, 'imports': gen_imports(rng), 'binds': binds, 'maxlen': rng.choice([20, 40, 80, 120]), 'indent': rng.choice([0, 2, 4, 8])}


def cvalue_coq(v):
  if has_opaque(v) or has_nonfinite(v):
    return 'COpaque'
  return '(CLit %s)' % PC.pv_coq(v)


def measure(case):
  """(registry, entries, text) of the real gin, or None when the case is outside the class"""
  gin = fresh_gin()
  cfg = gin.config
  register(gin, case['sels'], case['classes'])
  if case.get('imports'):
    gin.parse_config('\n'.join(case['imports']) + '\n')
  for key, v in case['binds']:
    try:
      gin.bind_parameter(key, v)
    except Exception as e:  # pylint: disable=broad-except
      return 'bind-error:' + type(e).__name__
  text = gin.config_str(max_line_length=case['maxlen'], continuation_indent=case['indent'])
  w = case['maxlen'] - case['indent']
  entries = []
  for (s, q), d in cfg._CONFIG.items():  # pylint: disable=protected-access
    params = []
    for p, v in d.items():
      if not (has_opaque(v) or has_nonfinite(v)):
        if pprint.pformat(v, width=w) != PC.NoSplit(width=w).pformat(v):
          return 'split'
        assert cfg._is_literally_representable(v), v  # pylint: disable=protected-access
      else:
        assert not cfg._is_literally_representable(v), v  # pylint: disable=protected-access
      params.append((p, v))
    entries.append((s, q, bool(cfg._REGISTRY[q].is_method), params))  # pylint: disable=protected-access
  if not PC.ascii_ok(text):
    return 'ascii'
  registry = [k for k, _ in cfg._REGISTRY.items()]  # pylint: disable=protected-access
  imports = sorted([[st.module, bool(st.is_from), st.alias] for st in cfg._IMPORTS], key=repr)  # pylint: disable=protected-access
  # the real side: the text parses in a fresh gin and restores the representable bindings
  store = {(s, q): {p: v for p, v in params if not (has_opaque(v) or has_nonfinite(v))} for s, q, _, params in entries}
  gin2 = fresh_gin()
  register(gin2, case['sels'], case['classes'])
  gin2.parse_config(text)
  got = {k: dict(d) for k, d in gin2.config._CONFIG.items()}  # pylint: disable=protected-access
  want = {k: d for k, d in store.items() if d}
  assert {k: d for k, d in got.items() if d} == want, (got, want)
  return registry, entries, text, imports


def case_expr(case, m):
  registry, entries, text, imports = m
  ents = PC.clist(['{| c_scope := %s; c_sel := %s; c_method := %s; c_params := %s |}' % (
      PC.cstr(s), PC.cstr(q), 'true' if meth else 'false',
      PC.clist(['(%s, %s)' % (PC.cstr(p), cvalue_coq(v)) for p, v in params]))
                   for s, q, meth, params in entries])
  reg = PC.clist([PC.cstr(r) for r in registry])
  imps = PC.clist(['{| i_module := %s; i_from := %s; i_alias := %s |}' % (
      PC.cstr(mo), 'true' if fr else 'false', 'None' if al is None else '(Some %s)' % PC.cstr(al)) for mo, fr, al in imports]) if imports else '(@nil simport)'
  return 'String.eqb (config_text_imports %s %s %s %d %d) %s' % (reg, imps, ents, case['maxlen'], case['indent'], PC.cstr(text))


def main():
  ap = argparse.ArgumentParser()
  ap.add_argument('--seeds', default='0,1,2')
  ap.add_argument('--n', type=int, default=300)
  ap.add_argument('--coq', default='/tmp/coqpp')
  ap.add_argument('--jobs', type=int, default=6)
  a = ap.parse_args()
  PC.HEADER = PC.HEADER.replace('Model.PPrint.', 'Model.PPrint Model.Serial Model.ConfigText Model.ConfigTextImports.')
  bad_total = 0
  for seed in [int(s) for s in a.seeds.split(',')]:
    rng = random.Random(seed)
    cases, skipped = [], {}
    while len(cases) < a.n:
      case = gen_case(rng)
      m = measure(case)
      if isinstance(m, str):
        skipped[m] = skipped.get(m, 0) + 1
        continue
      cases.append((case, m))
    with tempfile.TemporaryDirectory(prefix='config_text_corr_') as wd:
      oks = PC.evaluate(a.coq, [case_expr(c, m) for c, m in cases], wd, 'ct', a.jobs)
      bad = [(c, m) for (c, m), ok in zip(cases, oks) if not ok]
      model = (PC.evaluate(a.coq, [case_expr(c, m).split(') "', 1)[0][len('String.eqb ('):] for c, m in bad], wd, 'ctbad', a.jobs, 'string')
               if bad else [])
    stats = {'imports': 0, 'from-imports': 0, 'aliased imports': 0, 'macro section': 0, 'root macro': 0, 'continuation': 0, 'none section': 0, 'omitted value': 0, 'methods': 0, 'scoped': 0}
    nbind = 0
    for c, (registry, entries, text, imports) in cases:
      stats['macro section'] += '# Macros:' in text
      stats['imports'] += bool(imports)
      stats['from-imports'] += any(fr for _, fr, _ in imports)
      stats['aliased imports'] += any(al for _, _, al in imports)
      stats['root macro'] += any(s == '' and q == 'gin.macro' for s, q, _, _ in entries)
      stats['continuation'] += ' = \\\n' in text
      stats['none section'] += '# None.' in text
      stats['omitted value'] += any(has_opaque(v) or has_nonfinite(v) for _, _, _, ps in entries for _, v in ps)
      stats['methods'] += any(meth for _, _, meth, _ in entries)
      stats['scoped'] += any(s for s, _, _, _ in entries)
      nbind += text.count(' = ')
    print('seed %d: cases %d (skipped %s); binding lines ~%d; with %s; DISAGREE %d' % (seed, len(cases), skipped, nbind, stats, len(bad)))
    for (c, (registry, entries, text, imports)), mtext in zip(bad, model):
      print('  DISAGREE maxlen=%d indent=%d entries=%r\n    gin:   %r\n    model: %r' % (c['maxlen'], c['indent'], entries, text, mtext))
    bad_total += len(bad)
  print('TOTAL DISAGREEMENTS: %d' % bad_total)
  return 1 if bad_total else 0


if __name__ == '__main__':
  sys.exit(main())
