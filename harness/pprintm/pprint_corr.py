#!/venv/bin/python
"""Correspondence of coq Model/PPrint.v with CPython 3.12.1 pprint.pformat and gin's format_binding, text for text.

  /venv/bin/python pprint_corr.py [--seeds 0,1,2] [--n 3000] [--nbind 400] [--coq /tmp/coqpp] [--jobs 8]

For every generated (value, width): the Coq side evaluates, by vm_compute,
    String.eqb (pformat width <pv tree of value>) "<pprint.pformat(value, width=width)>"
and for every generated (key, value, max_line_length, continuation_indent):
    String.eqb (format_binding maxlen indent key <pv>) "<what gin.config_str writes for the binding>".
The pv tree: atoms are the tokens of repr(atom) (as harness/props/c06.py:pv_coq_ builds them); dict items in pprint's
order (sorted by pprint._safe_tuple), recursively.
Class of values: nested lists / tuples / dicts (depth <= 4) over ints, floats, True / False / None, ASCII strs and
bytes, and such that pprint splits no str / bytes atom (checked per case against a PrettyPrinter without the str / bytes
dispatch entries; cases outside are counted and skipped).
"""
import argparse
import concurrent.futures
import io
import os
import pprint
import random
import re
import subprocess
import sys
import tempfile
import tokenize

REPO = os.environ.get('GIN_REPO', '/repo')

WIDTHS = [1, 5, 10, 20, 40, 76, 80, 120]
TYPES = {tokenize.NAME: 'NAME', tokenize.NUMBER: 'NUMBER', tokenize.STRING: 'STRING', tokenize.OP: 'OP',
         tokenize.NEWLINE: 'NEWLINE', tokenize.NL: 'NL', tokenize.ENDMARKER: 'ENDMARKER'}
STRS = ['', 'a', 'alpha', 'beta', "it's", 'q"uote', "b'oth\"", 'back\\slash', '#nocomment', '{brace}', '%s', '@ref', '%macro',
        'x' * 12, 'y' * 30, 'z' * 90, 'a b', 'two words here', ' ', 'tab\there', 'new\nline', 'one two three four five six seven eight nine ten']
BYTES = [b'', b'a', b'ab', b'\x00\xff', b"it's", b'abcd', b'\\', b'"q"', b'a b']


class NoSplit(pprint.PrettyPrinter):
  """pprint without the str / bytes splitting: to detect the cases in which the real one splits"""
  _dispatch = dict(pprint.PrettyPrinter._dispatch)
  del _dispatch[str.__repr__]
  del _dispatch[bytes.__repr__]


def gen_atom(rng):
  k = rng.random()
  if k < 0.3:
    return rng.choice([0, 1, -1, 7, -12, 255, 10 ** 6, -10 ** 18, 2 ** 70, rng.randint(-1000, 1000)])
  if k < 0.45:
    return rng.choice([0.0, -0.0, 1.5, -2.25, 1e+30, 1e-7, -3.0e+22, 0.1, 123456.789, float('inf'), float('-inf'), float('nan')])
  if k < 0.55:
    return rng.random() < 0.5
  if k < 0.62:
    return None
  if k < 0.7:
    return rng.choice(BYTES)
  return rng.choice(STRS)


def gen_key(rng):
  k = rng.random()
  if k < 0.45:
    return rng.choice(['k', 'key', 'name', 'a_long_key_name', "it's", 'x' * 20]) + str(rng.randint(0, 9))
  if k < 0.7:
    return rng.randint(-5, 50)
  if k < 0.8:
    return (rng.randint(0, 3), rng.choice(['k', 'kk']))
  if k < 0.85:
    return ()
  if k < 0.9:
    return rng.choice([True, None, 2.5, -1.0, b'k'])
  return (rng.randint(0, 3),)


def gen_value(rng, depth, top=False):
  r = rng.uniform(0.3, 1.0) if top else rng.random()      # at the top: a container unless depth = 0
  if depth <= 0 or r < 0.3:
    return gen_atom(rng)
  if r < 0.55:
    n = rng.choice([0, 1, 2, 3, 5, 8, 30])
    if n == 30:
      return [rng.randint(0, 10 ** rng.choice([1, 3, 6])) for _ in range(n)]
    return [gen_value(rng, depth - 1) for _ in range(n)]
  if r < 0.77:
    return tuple(gen_value(rng, depth - 1) for _ in range(rng.choice([0, 1, 1, 2, 3, 6])))
  d = {}
  for _ in range(rng.choice([0, 1, 2, 3, 6])):
    d[gen_key(rng)] = gen_value(rng, depth - 1)
  return d


def depth_of(v):
  if isinstance(v, (list, tuple)):
    return 1 + max([depth_of(x) for x in v], default=0)
  if isinstance(v, dict):
    return 1 + max([max(depth_of(k), depth_of(x)) for k, x in v.items()], default=0)
  return 0


def ascii_ok(text):
  return all(c == '\n' or 32 <= ord(c) <= 126 for c in text)


def cstr(s):
  return '"' + s.replace('"', '""') + '"'


def tok_coq(t):
  return '{| ty := %s; text := %s; srow := %d; scol := %d; erow := %d; ecol := %d |}' % (
      TYPES[t.type], cstr(t.string), t.start[0], t.start[1], t.end[0], t.end[1])


class Unmodelled(Exception):
  pass


def clist(items):
  return '[' + '; '.join(items) + ']'


def pv_coq(v):
  """the value tree of Model/Repr.v; dict items in pprint's order"""
  if isinstance(v, list):
    return '(PList %s)' % clist([pv_coq(x) for x in v])
  if isinstance(v, tuple):
    return '(PTuple %s)' % clist([pv_coq(x) for x in v])
  if isinstance(v, dict):
    items = sorted(v.items(), key=pprint._safe_tuple)  # pylint: disable=protected-access
    return '(PDict %s)' % clist(['(%s, %s)' % (pv_coq(k), pv_coq(x)) for k, x in items])
  toks = [t for t in tokenize.generate_tokens(io.StringIO(repr(v)).readline)
          if t.type not in (tokenize.NEWLINE, tokenize.ENDMARKER, tokenize.NL)]
  if len(toks) == 1 and toks[0].type in (tokenize.NAME, tokenize.NUMBER):
    return '(PAtom %s)' % tok_coq(toks[0])
  if len(toks) == 1 and toks[0].type == tokenize.STRING:
    return '(PStr %s)' % tok_coq(toks[0])
  if len(toks) == 2 and toks[0].string == '-' and toks[1].type in (tokenize.NAME, tokenize.NUMBER):
    return '(PNeg %s)' % tok_coq(toks[1])
  raise Unmodelled(repr(v))


HEADER = '''From Coq Require Import List String ZArith Bool Arith Ascii.
From GinV Require Import Model.Parser Model.ParserSpec Model.Repr Model.ReprText Model.PPrint.
Import ListNotations.
Open Scope string_scope. Open Scope list_scope. Open Scope nat_scope.
'''


def run_shard(args):
  coq, path = args
  p = subprocess.run(['timeout', '1500', 'coqc', '-Q', coq, 'GinV', '-w', '-notation-overridden', path],
                     capture_output=True, text=True, check=False)
  if p.returncode != 0:
    return path, None, p.stderr[-2000:]
  return path, p.stdout, ''


def evaluate(coq, exprs, workdir, tag, jobs, what='bool'):
  """exprs: Coq terms; returns their vm_compute values (bools, or strings when what == 'string')"""
  shards = [exprs[i:i + 300] for i in range(0, len(exprs), 300)]
  paths = []
  for i, sh in enumerate(shards):
    path = os.path.join(workdir, '%s_%d.v' % (tag, i))
    with open(path, 'w') as f:
      f.write(HEADER)
      if what == 'bool':
        f.write('Definition cases : list bool :=\n  [%s].\n' % ';\n   '.join(sh))
        f.write('Eval vm_compute in cases.\n')
      else:
        for e in sh:
          f.write('Eval vm_compute in (%s).\n' % e)
    paths.append(path)
  results = {}
  with concurrent.futures.ThreadPoolExecutor(max_workers=jobs) as ex:
    for path, out, err in ex.map(run_shard, [(coq, p) for p in paths]):
      if out is None:
        raise RuntimeError('coqc failed on %s:\n%s' % (path, err))
      results[path] = out
  vals = []
  for path, sh in zip(paths, shards):
    out = results[path]
    if what == 'bool':
      got = re.findall(r'\b(true|false)\b', out.split(': list bool')[0])
      if len(got) != len(sh):
        raise RuntimeError('shard %s: %d answers for %d cases' % (path, len(got), len(sh)))
      vals += [g == 'true' for g in got]
    else:
      got = re.findall(r'= "((?:[^"]|"")*)"\s*:\s*string', out)
      if len(got) != len(sh):
        raise RuntimeError('shard %s: %d answers for %d cases' % (path, len(got), len(sh)))
      vals += [g.replace('""', '"') for g in got]
  return vals


def gen_pformat_cases(rng, n):
  cases, skipped_split, skipped_ascii = [], 0, 0
  while len(cases) < n:
    v = gen_value(rng, rng.choice([0, 1, 1, 2, 2, 3, 3, 4, 4]), top=True)
    w = rng.choice(WIDTHS)
    real = pprint.pformat(v, width=w)
    if real != NoSplit(width=w).pformat(v):
      skipped_split += 1          # pprint split a str / bytes atom: outside the model's class
      continue
    if not ascii_ok(real):
      skipped_ascii += 1
      continue
    cases.append((v, w, real))
  return cases, skipped_split, skipped_ascii


def gin_binding_text(gin, key, v, maxlen, indent):
  """what gin.config_str writes for the binding key = v (None: omitted, i.e. not literally representable)"""
  gin.clear_config()
  gin.bind_parameter(key, v)
  text = gin.config_str(max_line_length=maxlen, continuation_indent=indent)
  lines = text.split('\n')
  start = [i for i, l in enumerate(lines) if l.startswith(key + ' = ')]
  if not start:
    return None
  i = start[0]
  out = [lines[i]]
  j = i + 1
  while j < len(lines) and lines[j] != '' and not lines[j].startswith('# '):
    out.append(lines[j])
    j += 1
  # the section ends with an empty line; a value text never contains an empty line
  return '\n'.join(out)


_GIN = []


def load_gin():
  """gin from /repo with the probe configurable registered (once)"""
  if not _GIN:
    sys.path.insert(0, REPO)
    import gin  # pylint: disable=import-outside-toplevel

    @gin.configurable
    def probe(x=None):  # pylint: disable=unused-variable
      return x
    assert os.path.realpath(gin.__file__).startswith(os.path.realpath(REPO) + '/'), gin.__file__
    _GIN.append(gin)
  return _GIN[0]


def gen_binding_cases(rng, n):
  gin = load_gin()

  cases, skipped = [], {'split': 0, 'omitted': 0, 'ascii': 0}
  while len(cases) < n:
    v = gen_value(rng, rng.choice([0, 1, 2, 2, 3, 3, 4]), top=True)
    indent = rng.choice([0, 2, 4, 8])
    maxlen = rng.choice([12, 20, 40, 80, 120])
    key = rng.choice(['', 'a/', 'scope/', 'a_rather_long_scope_name/inner/']) + 'probe.x'
    w = maxlen - indent
    if pprint.pformat(v, width=w) != NoSplit(width=w).pformat(v):
      skipped['split'] += 1
      continue
    real = gin_binding_text(gin, key, v, maxlen, indent)
    if real is None:
      skipped['omitted'] += 1
      continue
    if not ascii_ok(real):
      skipped['ascii'] += 1
      continue
    cases.append((key, v, maxlen, indent, real))
  gin.clear_config()
  return cases, skipped


def main():
  ap = argparse.ArgumentParser()
  ap.add_argument('--seeds', default='0,1,2')
  ap.add_argument('--n', type=int, default=3000)
  ap.add_argument('--nbind', type=int, default=400)
  ap.add_argument('--coq', default='/tmp/coqpp')
  ap.add_argument('--jobs', type=int, default=8)
  a = ap.parse_args()
  assert sys.version_info[:3] == (3, 12, 1), sys.version
  bad_total = 0
  for seed in [int(s) for s in a.seeds.split(',')]:
    rng = random.Random(seed)
    cases, sk_split, sk_ascii = gen_pformat_cases(rng, a.n)
    bcases, bskipped = gen_binding_cases(rng, a.nbind)
    with tempfile.TemporaryDirectory(prefix='pprint_corr_') as wd:
      exprs = ['String.eqb (pformat %d %s) %s' % (w, pv_coq(v), cstr(real)) for v, w, real in cases]
      oks = evaluate(a.coq, exprs, wd, 'cases', a.jobs)
      bexprs = ['String.eqb (format_binding %d %d %s %s) %s' % (m, i, cstr(k), pv_coq(v), cstr(real)) for k, v, m, i, real in bcases]
      boks = evaluate(a.coq, bexprs, wd, 'bind', a.jobs)
      bad = [c for c, ok in zip(cases, oks) if not ok]
      bbad = [c for c, ok in zip(bcases, boks) if not ok]
      model = evaluate(a.coq, ['pformat %d %s' % (w, pv_coq(v)) for v, w, _ in bad], wd, 'bad', a.jobs, 'string') if bad else []
      bmodel = (evaluate(a.coq, ['format_binding %d %d %s %s' % (m, i, cstr(k), pv_coq(v)) for k, v, m, i, _ in bbad], wd, 'bbad', a.jobs, 'string')
                if bbad else [])
    by_depth, by_width, multi = {}, {}, 0
    for v, w, real in cases:
      by_depth[depth_of(v)] = by_depth.get(depth_of(v), 0) + 1
      by_width[w] = by_width.get(w, 0) + 1
      multi += '\n' in real
    print('seed %d: pformat cases %d (skipped: %d split by pprint, %d non-ASCII); multi-line %d; by depth %s; by width %s; DISAGREE %d' %
          (seed, len(cases), sk_split, sk_ascii, multi, dict(sorted(by_depth.items())), dict(sorted(by_width.items())), len(bad)))
    bmulti = sum(1 for c in bcases if '\n' in c[4])
    print('seed %d: format_binding cases %d (skipped %s); continuation form %d; one-line %d; DISAGREE %d' %
          (seed, len(bcases), bskipped, bmulti, len(bcases) - bmulti, len(bbad)))
    for (v, w, real), m in zip(bad, model):
      print('  DISAGREE pformat width=%d value=%r\n    cpython: %r\n    model:   %r' % (w, v, real, m))
    for (k, v, mx, i, real), m in zip(bbad, bmodel):
      print('  DISAGREE format_binding key=%r maxlen=%d indent=%d value=%r\n    gin:   %r\n    model: %r' % (k, mx, i, v, real, m))
    bad_total += len(bad) + len(bbad)
  print('TOTAL DISAGREEMENTS: %d' % bad_total)
  return 1 if bad_total else 0


if __name__ == '__main__':
  sys.exit(main())
