#!/venv/bin/python
"""Correspondence of coq Model/ConfigTextStr.v:config_text_s with gin.config_str(), character for character, on stores
whose values may contain long strs that pprint splits: NO case is skipped because of a split str.

  /venv/bin/python -B config_text_str_corr.py [--seeds 0,1,2] [--n 300] [--coq /tmp/coqpp] [--jobs 4]

Stores as in config_text_corr.py (no imports), values as in pprint_str_corr.py (strs with blanks, tabs, line boundaries).
"""
import argparse
import os
import pprint
import random
import sys
import tempfile

sys.path.insert(0, os.path.dirname(os.path.abspath(__file__)))
import pprint_corr as PC  # pylint: disable=wrong-import-position
import pprint_str_corr as PS  # pylint: disable=wrong-import-position
import config_text_corr as CT  # pylint: disable=wrong-import-position


def gen_case(rng):
  sels = rng.sample(CT.SELS, rng.randint(1, 3))
  binds = []
  for _ in range(rng.randint(1, 5)):
    r = rng.random()
    v = CT.Opaque() if r < 0.08 else PS.gen_value(rng, rng.choice([0, 0, 0, 1, 2]), top=rng.random() < 0.4)
    k = rng.random()
    if k < 0.2:
      key = rng.choice(CT.MACROS) + '/gin.macro.value'
    else:
      scope = rng.choice(CT.SCOPES)
      key = (scope + '/' if scope else '') + rng.choice(sels) + '.' + rng.choice(CT.PARAMS)
    binds.append((key, v))
  return {'sels': sels, 'classes': [], 'binds': binds, 'maxlen': rng.choice([20, 40, 80, 120]), 'indent': rng.choice([0, 2, 4, 8])}


def measure(case):
  gin = CT.fresh_gin()
  cfg = gin.config
  CT.register(gin, case['sels'], case['classes'])
  for key, v in case['binds']:
    gin.bind_parameter(key, v)
  text = gin.config_str(max_line_length=case['maxlen'], continuation_indent=case['indent'])
  w = case['maxlen'] - case['indent']
  entries, nsplit = [], 0
  for (s, q), d in cfg._CONFIG.items():  # pylint: disable=protected-access
    params = []
    for p, v in d.items():
      if not (CT.has_opaque(v) or CT.has_nonfinite(v)):
        if pprint.pformat(v, width=w) != PS.NoBytesSplit(width=w).pformat(v):
          return 'bytes-split'
        nsplit += pprint.pformat(v, width=w) != PC.NoSplit(width=w).pformat(v)
      params.append((p, v))
    entries.append((s, q, bool(cfg._REGISTRY[q].is_method), params))  # pylint: disable=protected-access
  if not PC.ascii_ok(text):
    return 'ascii'
  registry = [k for k, _ in cfg._REGISTRY.items()]  # pylint: disable=protected-access
  store = {(s, q): {p: v for p, v in params if not (CT.has_opaque(v) or CT.has_nonfinite(v))} for s, q, _, params in entries}
  gin2 = CT.fresh_gin()
  CT.register(gin2, case['sels'], case['classes'])
  gin2.parse_config(text)             # the real side: the text (split strings included) restores the bindings
  got = {k: dict(d) for k, d in gin2.config._CONFIG.items() if d}  # pylint: disable=protected-access
  assert got == {k: d for k, d in store.items() if d}, (got, store)
  return registry, entries, text, nsplit


def case_expr(case, m):
  registry, entries, text, _ = m
  def cv(v):
    return 'CSOpaque' if CT.has_opaque(v) or CT.has_nonfinite(v) else '(CSLit %s)' % PS.sv_coq(v)
  ents = PC.clist(['{| cs_scope := %s; cs_sel := %s; cs_method := %s; cs_params := %s |}' % (
      PC.cstr(s), PC.cstr(q), 'true' if meth else 'false', PC.clist(['(%s, %s)' % (PC.cstr(p), cv(v)) for p, v in params]))
                   for s, q, meth, params in entries])
  return 'String.eqb (config_text_s %s %s %d %d) %s' % (PC.clist([PC.cstr(r) for r in registry]), ents, case['maxlen'], case['indent'], PC.cstr(text))


def main():
  ap = argparse.ArgumentParser()
  ap.add_argument('--seeds', default='0,1,2')
  ap.add_argument('--n', type=int, default=300)
  ap.add_argument('--coq', default='/tmp/coqpp')
  ap.add_argument('--jobs', type=int, default=4)
  a = ap.parse_args()
  PC.HEADER = PC.HEADER.replace('From Coq Require Import List String ZArith Bool Arith Ascii.', 'From Coq Require Import List String ZArith NArith Bool Arith Ascii.')
  PC.HEADER = PC.HEADER.replace('Model.PPrint.', 'Model.PPrint Model.Serial Model.ConfigText Model.PPrintStr Model.ConfigTextStr.')
  bad_total = 0
  for seed in [int(s) for s in a.seeds.split(',')]:
    rng = random.Random(seed)
    cases, skipped = [], {}
    while len(cases) < a.n:
      case = gen_case(rng)
      m = measure(case)
      if isinstance(m, str):
        skipped[m] = skipped.get(m, 0) + 1
        continue
      cases.append((case, m))
    with tempfile.TemporaryDirectory(prefix='config_text_str_corr_') as wd:
      oks = PC.evaluate(a.coq, [case_expr(c, m) for c, m in cases], wd, 'cts', a.jobs)
    bad = [(c, m) for (c, m), ok in zip(cases, oks) if not ok]
    print('seed %d: cases %d (skipped %s; 0 skipped for split strs); stores with a split str %d; continuation form %d; DISAGREE %d' % (
        seed, len(cases), skipped, sum(1 for _, m in cases if m[3]), sum(' = \\\n' in m[2] for _, m in cases), len(bad)))
    for c, m in bad[:5]:
      print('  DISAGREE maxlen=%d indent=%d entries=%r\n    gin: %r' % (c['maxlen'], c['indent'], m[1], m[2]))
    bad_total += len(bad)
  print('TOTAL DISAGREEMENTS: %d' % bad_total)
  return 1 if bad_total else 0


if __name__ == '__main__':
  sys.exit(main())
