#!/venv/bin/python
"""Correspondence of coq Model/PPrintStr.v:pformat_s (pprint.pformat WITH the splitting of long strs) with CPython 3.12.1.

  /venv/bin/python -B pprint_str_corr.py [--seeds 0,1,2] [--n 1500] [--coq /tmp/coqpp] [--jobs 6]

Values as in pprint_corr.py, but NO case is skipped because pprint split a str: string atoms are handed to the model by
content (SStr [code points]); extra strings with blanks, tabs, all ASCII line boundaries (\\n \\r \\r\\n \\v \\f \\x1c-\\x1e),
\\x1f, quotes of both kinds.  Only bytes that pprint splits (longer than 4) and non-ASCII texts are outside.
Per case: String.eqb (pformat_s width <sv tree>) "<pprint.pformat(value, width=width)>" by vm_compute.
Also checked per case in Python: ast.literal_eval of the text gives the value back (adjacent literals concatenate).
"""
import argparse
import ast
import io
import pprint
import random
import sys
import tempfile
import tokenize
import os

sys.path.insert(0, os.path.dirname(os.path.abspath(__file__)))
import pprint_corr as PC  # pylint: disable=wrong-import-position

WORDS = ['alpha', 'beta', "it's", 'q"uote', 'x', 'lorem', 'ipsum', 'dolor', '#no', 'back\\slash', '%s', 'a' * 25, 'zz']
SEPS = [' ', ' ', ' ', '  ', '\t', '\n', '\r\n', '\r', '\x0b', '\x0c', '\x1c', '\x1d', '\x1e', '\x1f', ' \n ', '\n\n']


def gen_str(rng):
  n = rng.choice([1, 2, 3, 5, 8, 12, 20])
  s = ''
  for i in range(n):
    s += rng.choice(WORDS)
    if i < n - 1 or rng.random() < 0.2:
      s += rng.choice(SEPS)
  if rng.random() < 0.1:
    s = rng.choice(SEPS) + s
  return s


class NoBytesSplit(pprint.PrettyPrinter):
  _dispatch = dict(pprint.PrettyPrinter._dispatch)
  del _dispatch[bytes.__repr__]


def gen_value(rng, depth, top=False):
  r = rng.uniform(0.25, 1.0) if top else rng.random()
  if depth <= 0 or r < 0.3:
    return gen_str(rng) if rng.random() < 0.6 else PC.gen_atom(rng)
  if r < 0.55:
    return [gen_value(rng, depth - 1) for _ in range(rng.choice([0, 1, 2, 3, 5]))]
  if r < 0.77:
    return tuple(gen_value(rng, depth - 1) for _ in range(rng.choice([0, 1, 1, 2, 3])))
  d = {}
  for _ in range(rng.choice([0, 1, 2, 3])):
    d[PC.gen_key(rng)] = gen_value(rng, depth - 1)
  return d


def sv_coq(v):
  if isinstance(v, list):
    return '(SList %s)' % PC.clist([sv_coq(x) for x in v])
  if isinstance(v, tuple):
    return '(STuple %s)' % PC.clist([sv_coq(x) for x in v])
  if isinstance(v, dict):
    items = sorted(v.items(), key=pprint._safe_tuple)  # pylint: disable=protected-access
    return '(SDict %s)' % PC.clist(['(%s, %s)' % (sv_coq(k), sv_coq(x)) for k, x in items])
  if isinstance(v, str):
    return '(SStr [%s]%%N)' % '; '.join(str(ord(c)) for c in v)
  toks = [t for t in tokenize.generate_tokens(io.StringIO(repr(v)).readline)
          if t.type not in (tokenize.NEWLINE, tokenize.ENDMARKER, tokenize.NL)]
  if len(toks) == 1 and toks[0].type in (tokenize.NAME, tokenize.NUMBER):
    return '(SAtom %s)' % PC.tok_coq(toks[0])
  if len(toks) == 1 and toks[0].type == tokenize.STRING:
    return '(SRaw %s)' % PC.tok_coq(toks[0])
  if len(toks) == 2 and toks[0].string == '-' and toks[1].type in (tokenize.NAME, tokenize.NUMBER):
    return '(SNeg %s)' % PC.tok_coq(toks[1])
  raise PC.Unmodelled(repr(v))


def check_oracle_agrees(text):
  """oracle_agrees_with_decode, on the real side: for every prefix of every run of adjacent str literals in the text,
  ast.literal_eval of the blank-joined texts (what gin's parser asks) is the concatenation of the separately decoded
  literals (StrLit.decode_str_literals).  Returns the number of prefixes checked."""
  runs, cur = [], []
  for t in tokenize.generate_tokens(io.StringIO(text).readline):
    if t.type == tokenize.STRING and t.string[0] not in 'bB':
      cur.append(t.string)
    elif t.type in (tokenize.NL, tokenize.COMMENT):
      continue
    else:
      if cur:
        runs.append(cur)
      cur = []
  n = 0
  for run in runs:
    for k in range(1, len(run) + 1):
      assert ast.literal_eval(' '.join(run[:k])) == ''.join(ast.literal_eval(x) for x in run[:k]), run[:k]
      n += 1
  return n


def has_nan(v):
  if isinstance(v, float):
    return v != v or v in (float('inf'), float('-inf'))
  if isinstance(v, (list, tuple)):
    return any(has_nan(x) for x in v)
  if isinstance(v, dict):
    return any(has_nan(k) or has_nan(x) for k, x in v.items())
  return False


def main():
  ap = argparse.ArgumentParser()
  ap.add_argument('--seeds', default='0,1,2')
  ap.add_argument('--n', type=int, default=1500)
  ap.add_argument('--coq', default='/tmp/coqpp')
  ap.add_argument('--jobs', type=int, default=6)
  a = ap.parse_args()
  PC.HEADER = PC.HEADER.replace('From Coq Require Import List String ZArith Bool Arith Ascii.', 'From Coq Require Import List String ZArith NArith Bool Arith Ascii.')
  PC.HEADER = PC.HEADER.replace('Model.PPrint.', 'Model.PPrint Model.PPrintStr.')
  bad_total = 0
  for seed in [int(s) for s in a.seeds.split(',')]:
    rng = random.Random(seed)
    cases, sk_bytes, sk_ascii, nsplit, nparen, nruns = [], 0, 0, 0, 0, 0
    while len(cases) < a.n:
      v = gen_value(rng, rng.choice([0, 0, 1, 1, 2, 2, 3]), top=True)
      w = rng.choice(PC.WIDTHS)
      real = pprint.pformat(v, width=w)
      if real != NoBytesSplit(width=w).pformat(v):
        sk_bytes += 1
        continue
      if not PC.ascii_ok(real):
        sk_ascii += 1
        continue
      if not has_nan(v):
        assert ast.literal_eval(real) == v, (v, real)          # adjacent literals concatenate to the value
      nruns += check_oracle_agrees(real)
      split = real != PC.NoSplit(width=w).pformat(v)
      nsplit += split
      nparen += split and isinstance(v, str)
      cases.append((v, w, real))
    with tempfile.TemporaryDirectory(prefix='pprint_str_corr_') as wd:
      oks = PC.evaluate(a.coq, ['String.eqb (pformat_s %d %s) %s' % (w, sv_coq(v), PC.cstr(real)) for v, w, real in cases], wd, 'cases', a.jobs)
      bad = [c for c, ok in zip(cases, oks) if not ok]
      model = PC.evaluate(a.coq, ['pformat_s %d %s' % (w, sv_coq(v)) for v, w, _ in bad], wd, 'bad', a.jobs, 'string') if bad else []
    print('seed %d: cases %d (skipped: %d bytes split, %d non-ASCII; 0 skipped for split strs); with a split str %d (of which top-level, parenthesised %d); multi-line %d; oracle_agrees_with_decode checked on %d run prefixes; DISAGREE %d' %
          (seed, len(cases), sk_bytes, sk_ascii, nsplit, nparen, sum('\n' in r for _, _, r in cases), nruns, len(bad)))
    for (v, w, real), m in zip(bad[:10], model[:10]):
      print('  DISAGREE width=%d value=%r\n    cpython: %r\n    model:   %r' % (w, v, real, m))
    bad_total += len(bad)
  print('TOTAL DISAGREEMENTS: %d' % bad_total)
  return 1 if bad_total else 0


if __name__ == '__main__':
  sys.exit(main())
