"""Source-drift anchors (DESIGN 2.4): a normalised-AST hash of every function / method of gin/*.py, recorded for the
tree the models were last validated against (harness/anchors.json).  A changed hash is NOT a violation: it says that
the code the hand-written models describe has been edited since, and makes the quick tier explore more generated cases
(budget x SCALE) for that run; the drifted functions are written into the evidence.

  /venv/bin/python -B harness/anchors.py --update      record the current /repo as the anchored tree (after fix: commits)
"""
import ast
import hashlib
import json
import os
import sys

HERE = os.path.dirname(os.path.abspath(__file__))
PATH = os.path.join(HERE, 'anchors.json')
FILES = ['gin/config.py', 'gin/config_parser.py', 'gin/selector_map.py', 'gin/utils.py', 'gin/resource_reader.py']
SCALE = 2.5
# checks whose quick tier is already long are not scaled
NO_SCALE = ('C02', 'C03', 'C06')


def _functions(tree, prefix=''):
  for node in ast.iter_child_nodes(tree):
    if isinstance(node, (ast.FunctionDef, ast.AsyncFunctionDef, ast.ClassDef)):
      name = prefix + node.name
      if not isinstance(node, ast.ClassDef):
        yield name, node
      yield from _functions(node, name + '.')


def _strip_docstrings(node):
  for n in ast.walk(node):
    body = getattr(n, 'body', None)
    if isinstance(body, list) and body and isinstance(body[0], ast.Expr) and isinstance(getattr(body[0], 'value', None), ast.Constant) \
       and isinstance(body[0].value.value, str):
      n.body = body[1:] or [ast.Pass()]
  return node


def current(repo):
  out = {}
  for f in FILES:
    p = os.path.join(repo, f)
    try:
      tree = ast.parse(open(p).read())
    except (OSError, SyntaxError):
      out[f + ':<unreadable>'] = 'x'
      continue
    for name, node in _functions(tree):
      out['%s:%s' % (f, name)] = hashlib.sha1(ast.dump(_strip_docstrings(node)).encode()).hexdigest()[:16]
    top = [n for n in tree.body if not isinstance(n, (ast.FunctionDef, ast.AsyncFunctionDef, ast.ClassDef))]
    out[f + ':<module level>'] = hashlib.sha1(ast.dump(_strip_docstrings(ast.Module(body=top, type_ignores=[]))).encode()).hexdigest()[:16]
  return out


def drift(repo):
  """names of the functions whose normalised AST differs from the anchored tree (added, removed or changed)"""
  try:
    want = json.load(open(PATH))
  except (OSError, ValueError):
    return ['<no anchors recorded>']
  got = current(repo)
  return sorted(k for k in set(want) | set(got) if want.get(k) != got.get(k))


if __name__ == '__main__':
  if '--update' in sys.argv:
    json.dump(current(os.environ.get('GIN_REPO', '/repo')), open(PATH, 'w'), indent=0, sort_keys=True)
    print('anchored', len(json.load(open(PATH))), 'functions')
  else:
    print(drift(os.environ.get('GIN_REPO', '/repo')))
