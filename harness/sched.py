"""Deterministic scheduling of REAL threads running gin code: a sys.settrace line
tracer pauses a worker at every source line of gin/config.py that touches one of
the shared records; a central scheduler lets exactly one worker run between two
pauses, following a given schedule.  The two locks are replaced, from the
harness, by cooperative wrappers with the same interface so that a worker that
would block reports 'blocked' instead of hanging the scheduler."""
import ast
import os
import sys
import threading

WHOLE = ('_config_str', 'operative_config_str', 'singleton_value', '_is_literally_representable', '_format_value')
SHARED = ('_OPERATIVE_CONFIG', '_OPERATIVE_CONFIG_LOCK', '_SINGLETONS', '_SINGLETONS_LOCK')


def preemption_lines(path):
  """lines of config.py (inside function bodies) that mention a shared record, found from the AST"""
  tree = ast.parse(open(path).read())
  lines = set()
  for fn in ast.walk(tree):
    if isinstance(fn, (ast.FunctionDef,)):
      for node in ast.walk(fn):
        if isinstance(node, ast.Name) and node.id in SHARED:
          lines.add(node.lineno)
      if fn.name in WHOLE:       # the serialiser iterates the record through a parameter: every statement of it
        for node in ast.walk(fn):
          if isinstance(node, ast.stmt) and node is not fn:
            lines.add(node.lineno)
  return lines


class CoopLock:
  """RLock-like; never blocks the OS thread without telling the scheduler"""

  def __init__(self, sched):
    self.sched = sched
    self.owner = None
    self.depth = 0
    self.log = []

  def acquire(self, blocking=True, timeout=-1):
    me = threading.get_ident()
    while True:
      if self.owner is None or self.owner == me:
        self.owner = me
        self.depth += 1
        return True
      self.sched.pause(blocked=True)

  def release(self):
    self.depth -= 1
    if self.depth == 0:
      self.owner = None

  def __enter__(self):
    self.acquire()
    return self

  def __exit__(self, *a):
    self.release()

  def locked(self):
    return self.owner is not None


class Scheduler:
  def __init__(self, config_module, programs, schedule):
    self.cfg = config_module
    self.path = os.path.realpath(config_module.__file__)
    self.lines = preemption_lines(self.path)
    self.schedule = list(schedule)
    self.n = len(programs)
    self.programs = programs
    self.go = [threading.Semaphore(0) for _ in programs]
    self.parked = threading.Semaphore(0)
    self.state = ['new'] * self.n          # new / paused / blocked / done
    self.ident = {}
    self.errors = [None] * self.n
    self.trace = []
    self.threads = []

  # ---- worker side
  def tracer(self, frame, event, arg):
    if event == 'call' and os.path.realpath(frame.f_code.co_filename) == self.path:
      return self.local
    return None

  def local(self, frame, event, arg):
    if event == 'line' and frame.f_lineno in self.lines:
      self.pause()
    return self.local

  def pause(self, blocked=False):
    i = self.ident.get(threading.get_ident())
    if i is None:
      return
    self.state[i] = 'blocked' if blocked else 'paused'
    self.parked.release()
    self.go[i].acquire()
    self.state[i] = 'running'

  def worker(self, i):
    self.ident[threading.get_ident()] = i
    self.state[i] = 'paused'
    self.parked.release()
    self.go[i].acquire()
    self.state[i] = 'running'
    sys.settrace(self.tracer)
    try:
      self.programs[i]()
    except BaseException as e:  # pylint: disable=broad-except
      self.errors[i] = e
    finally:
      sys.settrace(None)
      self.state[i] = 'done'
      self.parked.release()

  # ---- scheduler side
  def run(self):
    for i in range(self.n):
      t = threading.Thread(target=self.worker, args=(i,), daemon=True, name='w')
      self.threads.append(t)
      t.start()
    for _ in range(self.n):
      self.parked.acquire()
    sched = list(self.schedule)
    steps = 0
    rr = 0
    while any(s != 'done' for s in self.state) and steps < 20000:
      steps += 1
      if sched:
        want = sched.pop(0) % self.n
      else:
        want = rr
        rr = (rr + 1) % self.n
      order = [(want + k) % self.n for k in range(self.n)]
      pick = None
      for i in order:
        if self.state[i] == 'paused':
          pick = i
          break
      if pick is None:
        for i in order:
          if self.state[i] == 'blocked':
            pick = i
            break
      if pick is None:
        break
      self.trace.append(pick)
      self.go[pick].release()
      if not self.parked.acquire(timeout=30):
        self.errors[pick] = TimeoutError('worker %d did not reach a preemption point' % pick)
        break
    return self.errors
