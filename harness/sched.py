"""Deterministic scheduling of REAL threads running gin code: a sys.settrace line
tracer pauses a worker at every source line of gin/config.py that touches one of
the shared records; a central scheduler lets exactly one worker run between two
pauses, following a given schedule.  The two locks are replaced, from the
harness, by cooperative wrappers with the same interface so that a worker that
would block reports 'blocked' instead of hanging the scheduler."""
import ast
import os
import re
import sys
import threading

WHOLE = ('_config_str', 'operative_config_str', 'singleton_value', '_is_literally_representable', '_format_value')
# the shared records the property names, and whatever a change calls the things that guard them
SHARED_RE = re.compile(r'^_(OPERATIVE_CONFIG|SINGLETON)')


_LINES = {}


def preemption_lines(path):
  """the preemption lines of the file at `path` (computed once per content of the file and process)"""
  st = os.stat(path)
  key = (path, st.st_mtime_ns, st.st_size)
  if key not in _LINES:
    _LINES.clear()
    _LINES[key] = frozenset(_preemption_lines(path))
  return _LINES[key]


def _preemption_lines(path):
  """lines of config.py at which a worker can be preempted, found from the AST of the current file: every statement
  of every function that mentions a shared record (the operative record, the singleton cache, their locks under
  whatever name), and of the serialiser functions, which iterate the record through a parameter"""
  tree = ast.parse(open(path).read())
  lines = set()
  for fn in ast.walk(tree):
    if isinstance(fn, (ast.FunctionDef,)):
      mentions = any(isinstance(node, ast.Name) and SHARED_RE.match(node.id) for node in ast.walk(fn))
      if mentions or fn.name in WHOLE:
        for node in ast.walk(fn):
          if isinstance(node, ast.stmt) and node is not fn:
            lines.add(node.lineno)
  return lines


_LOCK_TYPES = (type(threading.Lock()), type(threading.RLock()))


class _Threading:
  """stands in for the module `threading` inside gin/config.py: locks created at run time are cooperative too"""

  def __init__(self, sched):
    self._sched = sched

  def Lock(self):  # pylint: disable=invalid-name
    return CoopLock(self._sched)

  def RLock(self):  # pylint: disable=invalid-name
    return CoopLock(self._sched)

  def __getattr__(self, name):
    return getattr(threading, name)


def install(cfg, sched):
  """every lock object held in a module global of gin/config.py (whatever its name) becomes cooperative, and so does
  every lock the module creates from now on; dicts of locks included"""
  for name, val in list(vars(cfg).items()):
    if isinstance(val, _LOCK_TYPES):
      setattr(cfg, name, CoopLock(sched))
    elif isinstance(val, dict) and val and all(isinstance(v, _LOCK_TYPES) for v in val.values()):
      for k in list(val):
        val[k] = CoopLock(sched)
  if getattr(cfg, 'threading', None) is threading:
    cfg.threading = _Threading(sched)


class CoopLock:
  """RLock-like; never blocks the OS thread without telling the scheduler"""

  def __init__(self, sched):
    self.sched = sched
    self.owner = None
    self.depth = 0
    self.log = []

  def acquire(self, blocking=True, timeout=-1):
    me = threading.get_ident()
    while True:
      if self.owner is None or self.owner == me:
        self.owner = me
        self.depth += 1
        return True
      self.sched.pause(blocked=True)

  def release(self):
    self.depth -= 1
    if self.depth == 0:
      self.owner = None

  def __enter__(self):
    self.acquire()
    return self

  def __exit__(self, *a):
    self.release()

  def locked(self):
    return self.owner is not None


class Scheduler:
  def __init__(self, config_module, programs, schedule):
    self.cfg = config_module
    self.path = os.path.realpath(config_module.__file__)
    self.lines = preemption_lines(self.path)
    self.schedule = list(schedule)
    self.n = len(programs)
    self.programs = programs
    self.go = [threading.Semaphore(0) for _ in programs]
    self.parked = threading.Semaphore(0)
    self.state = ['new'] * self.n          # new / paused / blocked / done
    self.ident = {}
    self.errors = [None] * self.n
    self.trace = []
    self.threads = []

  # ---- worker side
  def tracer(self, frame, event, arg):
    if event == 'call' and os.path.realpath(frame.f_code.co_filename) == self.path:
      return self.local
    return None

  def local(self, frame, event, arg):
    if event == 'line' and frame.f_lineno in self.lines:
      self.pause()
    return self.local

  def pause(self, blocked=False):
    i = self.ident.get(threading.get_ident())
    if i is None:
      return
    self.state[i] = 'blocked' if blocked else 'paused'
    self.parked.release()
    self.go[i].acquire()
    self.state[i] = 'running'

  def worker(self, i):
    self.ident[threading.get_ident()] = i
    self.state[i] = 'paused'
    self.parked.release()
    self.go[i].acquire()
    self.state[i] = 'running'
    sys.settrace(self.tracer)
    try:
      self.programs[i]()
    except BaseException as e:  # pylint: disable=broad-except
      self.errors[i] = e
    finally:
      sys.settrace(None)
      self.state[i] = 'done'
      self.parked.release()

  # ---- scheduler side
  def run(self):
    for i in range(self.n):
      t = threading.Thread(target=self.worker, args=(i,), daemon=True, name='w')
      self.threads.append(t)
      t.start()
    for _ in range(self.n):
      self.parked.acquire()
    sched = list(self.schedule)
    steps = 0
    rr = 0
    while any(s != 'done' for s in self.state) and steps < 20000:
      steps += 1
      if sched:
        want = sched.pop(0) % self.n
      else:
        want = rr
        rr = (rr + 1) % self.n
      order = [(want + k) % self.n for k in range(self.n)]
      pick = None
      for i in order:
        if self.state[i] == 'paused':
          pick = i
          break
      if pick is None:
        for i in order:
          if self.state[i] == 'blocked':
            pick = i
            break
      if pick is None:
        break
      self.trace.append(pick)
      self.go[pick].release()
      if not self.parked.acquire(timeout=10):
        self.errors[pick] = TimeoutError('worker %d did not reach a preemption point' % pick)
        break
    return self.errors
