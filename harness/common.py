"""Shared machinery: Coq literal printing, model runs inside coqc, fresh gin
imports, proof step, evidence, known findings, VIOLATION protocol."""
import hashlib
import importlib
import json
import os
import random
import re
import shutil
import subprocess
import sys
import time
from concurrent.futures import ProcessPoolExecutor

VERIF = os.path.dirname(os.path.dirname(os.path.abspath(__file__)))
COQ = os.path.join(VERIF, 'coq')
WORK = os.environ.get('VERIF_WORK') or os.path.join(VERIF, 'work')   # override: parallel runs on scratch copies of /repo (seed_eval prun)
REPO = os.environ.get('GIN_REPO', '/repo')
NCPU = min(16, os.cpu_count() or 4)
FORBIDDEN = re.compile(
    r'\b(Admitted|admit|Axiom|Axioms|Parameter|Parameters|Conjecture|Hypothesis|'
    r'Variable|Unset\s+Guard|bypass_check|Admit\s+Obligations|type-in-type|'
    r'impredicative-set|native_compute)\b')


# ----------------------------------------------------------------------------
# Python value -> Coq term text
class T:
  """Tagged tuple, printed as `OT "tag" [args]`."""

  def __init__(self, tag, *args):
    self.tag, self.args = tag, list(args)

  def __eq__(self, o):
    return isinstance(o, T) and (self.tag, self.args) == (o.tag, o.args)

  def __hash__(self):          # usable as a dictionary key (a reference or macro in key position)
    return hash((self.tag, repr(self.args)))

  def __repr__(self):
    return 'T(%r%s)' % (self.tag, ''.join(', %r' % (a,) for a in self.args))


def strict_eq(a, b):
  """equality of canonical observations that keeps Python's types apart (True is not 1, 2 is not 2.0)"""
  if isinstance(a, T) or isinstance(b, T):
    return isinstance(a, T) and isinstance(b, T) and a.tag == b.tag and strict_eq(a.args, b.args)
  if isinstance(a, (list, tuple)) or isinstance(b, (list, tuple)):
    return (isinstance(a, (list, tuple)) and isinstance(b, (list, tuple)) and len(a) == len(b) and
            all(strict_eq(x, y) for x, y in zip(a, b)))
  if isinstance(a, dict) or isinstance(b, dict):
    return (isinstance(a, dict) and isinstance(b, dict) and len(a) == len(b) and
            all(k in b and strict_eq(v, b[k]) for k, v in a.items()))
  return type(a) is type(b) and a == b


def cstr(s):
  """Coq string literal (bytes of the UTF-8 encoding)."""
  return '"' + s.replace('"', '""') + '"'


def clist(items):
  return '[' + '; '.join(items) + ']'


def cstrs(xs):
  xs = list(xs)
  return clist([cstr(x) for x in xs]) if xs else '(@nil string)'



def cnat(n):
  return '%d%%nat' % n


def cz(n):
  return '(%d)%%Z' % n


def cbool(b):
  return 'true' if b else 'false'


def copt(x, f):
  return 'None' if x is None else '(Some %s)' % f(x)


def out(x):
  """Python observation -> term of type Lib.Out.out."""
  if isinstance(x, T):
    return '(OT %s %s)' % (cstr(x.tag), clist([out(a) for a in x.args]))
  if isinstance(x, bool):
    return '(OT %s [])' % cstr('True' if x else 'False')
  if x is None:
    return '(OT "None" [])'
  if isinstance(x, int):
    return '(OZ %s)' % cz(x)
  if isinstance(x, str):
    return '(OS %s)' % cstr(x)
  if isinstance(x, (list, tuple)):
    return '(OL %s)' % clist([out(a) for a in x])
  raise TypeError('no out form for %r' % (x,))


def jsonable(x):
  if isinstance(x, T):
    return {'tag': x.tag, 'args': [jsonable(a) for a in x.args]}
  if isinstance(x, (list, tuple)):
    return [jsonable(a) for a in x]
  if isinstance(x, dict):
    return {str(k): jsonable(v) for k, v in x.items()}
  if isinstance(x, (str, int, float, bool)) or x is None:
    return x
  return repr(x)


def err(e):
  return T('Err', type(e).__name__ if isinstance(e, BaseException) else str(e))


# ----------------------------------------------------------------------------
# fresh gin per case
_CACHED = {}


def cached_gin():
  """for engines that exercise stateless code only (the parser)"""
  if 'gin' not in _CACHED:
    _CACHED['gin'] = fresh_gin()
  return _CACHED['gin']


def fresh_gin():
  for m in [m for m in sys.modules if m == 'gin' or m.startswith('gin.')]:
    del sys.modules[m]
  if REPO not in sys.path:
    sys.path.insert(0, REPO)
  import logging
  logging.disable(logging.CRITICAL)
  import gin  # pylint: disable=g-import-not-at-top
  assert os.path.realpath(gin.__file__).startswith(os.path.realpath(REPO)), gin.__file__
  return gin


# ----------------------------------------------------------------------------
# running the model inside coqc
HEADER = '''From Coq Require Import List String ZArith Bool.
From GinV Require Import Lib.Out %(imports)s.
Import ListNotations.
Open Scope string_scope.
Open Scope list_scope.
'''


def _coqc(path, timeout=600):
  t0 = time.time()
  p = subprocess.run(
      ['timeout', str(timeout), 'coqc', '-Q', COQ, 'GinV', '-w', 'none', path],
      capture_output=True, text=True, cwd=os.path.dirname(path))
  return p.returncode, p.stdout, p.stderr, time.time() - t0


def _run_shard(args):
  path, = args
  rc, so, se, dt = _coqc(path)
  if rc != 0:
    return ('error', (so + se)[-3000:])
  m = re.search(r'=\s*\[(.*?)\]\s*:\s*list nat', so, re.S)
  if not m:
    return ('error', 'unparsed coqc output: ' + so[-2000:])
  body = m.group(1).strip()
  idx = [int(x) for x in re.findall(r'\d+', body)] if body else []
  return ('ok', idx)


def model_mismatches(name, imports, run_fn, cases, shard=100):
  """cases: list of (coq_input_text, python_observation).  Evaluates
  `Lib.Out.mismatches run_fn cases` with vm_compute inside coqc, in shards.
  Returns (list of mismatching global indices, list of shard errors)."""
  d = os.path.join(WORK, name)
  shutil.rmtree(d, ignore_errors=True)
  os.makedirs(d)
  paths = []
  for si in range(0, len(cases), shard):
    chunk = cases[si:si + shard]
    path = os.path.join(d, 'cases_%d.v' % (si // shard))
    with open(path, 'w') as f:
      f.write(HEADER % {'imports': imports})
      f.write('Definition cases := [\n')
      f.write(';\n'.join('(%s, %s)' % (i, out(o)) for i, o in chunk))
      f.write('].\nEval vm_compute in (mismatches %s cases).\n' % run_fn)
    paths.append((path,))
  bad, errors = [], []
  with ProcessPoolExecutor(NCPU) as ex:
    for k, (st, val) in enumerate(ex.map(_run_shard, paths)):
      if st == 'ok':
        bad.extend(k * shard + i for i in val)
      else:
        errors.append('shard %d: %s' % (k, val))
  return bad, errors


def model_eval(name, imports, run_fn, coq_input):
  """Evaluate the model on one input and return coqc's printed term."""
  d = os.path.join(WORK, name)
  os.makedirs(d, exist_ok=True)
  path = os.path.join(d, 'one_%s.v' % hashlib.sha1(coq_input.encode()).hexdigest()[:10])
  with open(path, 'w') as f:
    f.write(HEADER % {'imports': imports})
    f.write('Eval vm_compute in (%s %s).\n' % (run_fn, coq_input))
  rc, so, se, _ = _coqc(path)
  return (so if rc == 0 else so + se).strip()


# ----------------------------------------------------------------------------
# proof step
def build_coq():
  """Full .vo build of the development (no-op when up to date)."""
  t0 = time.time()
  if not os.path.exists(os.path.join(COQ, 'Makefile')):
    subprocess.run(['coq_makefile', '-f', '_CoqProject', '-o', 'Makefile'], cwd=COQ,
                   capture_output=True, text=True, check=True)
  p = subprocess.run(['timeout', '3000', 'make', '-j%d' % NCPU], cwd=COQ,
                     capture_output=True, text=True)
  return p.returncode == 0, (p.stdout + p.stderr)[-4000:], time.time() - t0


def forbidden_scan():
  hits = []
  # the development = the files of _CoqProject (what `make` builds and the theorems depend on); a .v file lying in
  # the tree without being listed there is reported too, so that nothing unchecked can hide beside the build
  listed = [l.strip() for l in open(os.path.join(COQ, '_CoqProject')) if l.strip().endswith('.v')]
  present = []
  for root, _, files in os.walk(COQ):
    for fn in files:
      if fn.endswith('.v'):
        present.append(os.path.relpath(os.path.join(root, fn), COQ))
  if os.environ.get('VERIF_STRICT_TREE'):
    for rel in sorted(set(present) - set(listed)):
      hits.append('%s:0:not-in-_CoqProject' % rel)
  for rel in listed:
      if True:
        p = os.path.join(COQ, rel)
        if not os.path.exists(p):
          hits.append('%s:0:missing' % rel)
          continue
        txt = open(p).read()
        txt = re.sub(r'\(\*.*?\*\)', '', txt, flags=re.S)
        txt = re.sub(r'"(?:[^"]|"")*"', '""', txt)      # string literals are data, not vernacular
        # Section-local Variable/Hypothesis/Context are allowed only inside Sections.
        depth = 0
        for ln, line in enumerate(txt.split('\n'), 1):
          if re.match(r'\s*Section\b', line):
            depth += 1
          if re.match(r'\s*End\b', line) and depth > 0:
            depth -= 1
          for m in FORBIDDEN.finditer(line):
            w = m.group(1)
            if w in ('Variable', 'Hypothesis') and depth > 0:
              continue
            hits.append('%s:%d:%s' % (os.path.relpath(p, COQ), ln, w))
  cp = open(os.path.join(COQ, '_CoqProject')).read()
  for w in ('type-in-type', 'impredicative-set', 'bypass'):
    if w in cp:
      hits.append('_CoqProject:' + w)
  return hits


EXTRA_PROPS = {'C02': ['Lexer'], 'C03': ['Lexer'], 'C06': ['AtomRoundTrip', 'PPrint', 'ConfigText', 'ConfigTextImports', 'PPrintStr', 'PPrintStrReadsBack', 'ConfigTextStr', 'ConfigTextMore']}


def proof_step(pid, thorough=False):
  """Rebuild, re-check Props/<pid>.v, parse Print Assumptions.  Returns dict."""
  res = {'obligations': 0, 'discharged': 0, 'theorems': [], 'axioms': {}, 'ok': False,
         'log': '', 'failed_theorem': None}
  ok, log, dt = build_coq()
  res['build_s'] = round(dt, 1)
  props = os.path.join(COQ, 'Props', pid + '.v')
  src = open(props).read()
  # statement files shared by several properties (the character-level lexer under the parser theorems)
  extra = [os.path.join(COQ, 'Props', n + '.v') for n in EXTRA_PROPS.get(pid, [])]
  for e in extra:
    src += '\n' + open(e).read()
  names = re.findall(r'^\s*(?:Theorem|Lemma|Corollary)\s+(\w+)', src, re.M)
  res['theorems'] = names
  res['obligations'] = len(names)
  hits = forbidden_scan()
  res['forbidden'] = hits
  if not ok:
    res['log'] = log
    m = re.search(r'File "\./Props/%s\.v", line (\d+)' % pid, log)
    res['failed_theorem'] = 'build:' + (m.group(0) if m else log[-300:])
    return res
  # the statement files are independent of one another: re-check them side by side
  from concurrent.futures import ThreadPoolExecutor
  with ThreadPoolExecutor(max_workers=max(1, min(NCPU, 1 + len(extra)))) as ex:
    results = list(ex.map(lambda f: _coqc(f, timeout=900), [props] + extra))
  rc, so, se, dt = results[0]
  for rc2, so2, se2, dt2 in results[1:]:
    if rc == 0:
      rc, se = rc2, se2
      so, dt = so + so2, max(dt, dt2)
  res['props_s'] = round(dt, 1)
  if rc != 0:
    res['log'] = (so + se)[-3000:]
    m = re.search(r'line (\d+)', se)
    line = int(m.group(1)) if m else 0
    done = [n for n in names
            if src[:src.index(n)].count('\n') + 1 < line]
    res['discharged'] = max(0, len(done) - 1)
    res['failed_theorem'] = done[-1] if done else names[0] if names else '?'
    return res
  blocks = re.split(r'(?=Closed under the global context|Axioms:)', so)
  closed = so.count('Closed under the global context')
  axioms = re.findall(r'Axioms:\n((?:.+\n?)+?)(?=\n\S|\Z)', so)
  res['closed'] = closed
  res['axioms_raw'] = axioms
  n_print = len(re.findall(r'^\s*Print Assumptions\s+\w+', src, re.M))
  res['print_assumptions'] = n_print
  # every Print Assumptions must answer "Closed under the global context": an axiom anywhere below a property
  # theorem (or a theorem without its Print Assumptions line) is a failed obligation
  clean = (closed == n_print and not axioms and 'Axioms:' not in so and n_print >= len(names))
  res['discharged'] = len(names) if (not hits and clean) else 0
  res['ok'] = (not hits) and clean
  if not clean:
    res['failed_theorem'] = 'assumptions: %d Print Assumptions, %d closed, axioms %r' % (n_print, closed, axioms[:2])
  if thorough:
    t0 = time.time()
    p = subprocess.run(['timeout', '1800', 'coqchk', '-silent', '-o', '-Q', COQ, 'GinV',
                        'GinV.Props.' + pid] + ['GinV.Props.' + n for n in EXTRA_PROPS.get(pid, [])],
                       capture_output=True, text=True, cwd=COQ)
    res['coqchk_rc'] = p.returncode
    res['coqchk_tail'] = (p.stdout + p.stderr)[-1500:]
    res['coqchk_s'] = round(time.time() - t0, 1)
    if p.returncode != 0:
      res['ok'] = False
      res['failed_theorem'] = 'coqchk'
  return res


# ----------------------------------------------------------------------------
# known findings
def load_known():
  p = os.path.join(VERIF, 'known_findings.json')
  if not os.path.exists(p):
    return {'known': [], 'fixed': []}
  return json.load(open(p))


def write_replay(pid, payload):
  os.makedirs(os.path.join(VERIF, 'replays'), exist_ok=True)
  blob = json.dumps(jsonable(payload), indent=1, sort_keys=True, default=repr)
  h = hashlib.sha1(blob.encode()).hexdigest()[:10]
  path = os.path.join(VERIF, 'replays', '%s-%s.json' % (pid, h))
  with open(path, 'w') as f:
    f.write(blob + '\n')
  return path


def write_evidence(pid, ev):
  evdir = os.environ.get('VERIF_EVIDENCE_DIR') or os.path.join(VERIF, 'evidence')
  os.makedirs(evdir, exist_ok=True)
  path = os.path.join(evdir, pid + '.json')
  with open(path, 'w') as f:
    json.dump(jsonable(ev), f, indent=1, sort_keys=True, default=repr)
    f.write('\n')
  return path


def parallel_map(fn, items, workers=NCPU):
  if workers <= 1 or len(items) <= 1:
    return [fn(i) for i in items]
  with ProcessPoolExecutor(workers) as ex:
    return list(ex.map(fn, items))


def case_hash(x):
  return hashlib.sha1(json.dumps(jsonable(x), sort_keys=True, default=repr).encode()).hexdigest()
