"""Text machine: runs parse_config / parse_config_file sequences against the
real gin (registered probe configurables, constants, in-memory file readers,
search locations, importable modules) and prints the same case for the model
coq/Model/Stmt.v."""
import hashlib
import io
import json
import os
import re
import shutil
import sys
import types

from harness import common as C
from harness import parsing as P
from harness.common import T


def case_dir(case):
  h = hashlib.sha1(json.dumps(case, sort_keys=True).encode()).hexdigest()[:12]
  return '/tmp/ginverif_' + h


def subst(s, d):
  return s.replace('$TMP', d)


# ------------------------------------------------------------------ Coq printers
def sk_coq(sk):
  if sk is True:
    return 'SkTrue'
  if sk is False or sk is None:
    return 'SkFalse'
  return '(SkList %s)' % C.cstrs(list(sk[1]))


def gfile_coq(text):
  toks = P.tokens_of(text)
  orc = P.oracle_for(toks)
  o = C.clist(['(%s, %s)' % (C.cstr(k), 'None' if v is None else '(Some %s)' % C.out(v)) for k, v in orc.items()])
  t = C.clist(['{| ty := %s; text := %s; srow := %d; scol := %d; erow := %d; ecol := %d |}' %
               (x[0], C.cstr(x[1]), x[2], x[3], x[4], x[5]) for x in toks])
  return '{| f_tokens := %s; f_oracle := %s |}' % (t, o)


def case_coq(case):
  d = case_dir(case)
  regs = C.clist(['{| cs_sel := %s; cs_args := %s; cs_varkw := %s; cs_allow := %s; cs_deny := %s |}' %
                  (C.cstr(c['sel']), C.cstrs(c['args']), C.cbool(c.get('varkw', False)),
                   C.cstrs(c.get('allow') or []), C.cstrs(c.get('deny') or [])) for c in case['regs']])
  files = []
  for r, fs in enumerate(case['files']):
    for path, text in fs.items():
      files.append('((%s, %s), %s)' % (C.cnat(r), C.cstr(subst(path, d)), gfile_coq(text)))
  plugins = case.get('plugins') or {}
  mod_regs = C.clist(['(%s, %s)' % (C.cstr(m), C.clist([
      '{| cs_sel := %s; cs_args := ["a"; "b"]; cs_varkw := true; cs_allow := (@nil string); cs_deny := (@nil string) |}' % C.cstr(sel)
      for sel in sels])) for m, sels in plugins.items()]) if plugins else '(@nil (string * list cspec))'
  env = ('{| e_files := %s; e_readers := %s; e_prefixes := %s; e_modules := %s; e_mod_regs := %s |}' % (
      C.clist(files), C.clist([C.cnat(i) for i in range(len(case['files']))]),
      C.cstrs([subst(p, d) for p in case['prefixes']]), C.cstrs(list(case.get('modules', [])) + list(plugins)), mod_regs))
  calls = []
  for c in ([] if case.get('engine2') else case['calls']):
    if c[0] == 'text':
      calls.append('(PText %s %s)' % (gfile_coq(c[1]), sk_coq(c[2])))
    else:
      calls.append('(PFile %s %s)' % (C.cstr(subst(c[1], d)), sk_coq(c[2])))
  if case.get('engine2'):
    calls = []
    for c in case['calls']:
      if c[0] == 'text':
        calls.append('(P1 (PText %s %s))' % (gfile_coq(c[1]), sk_coq(c[2])))
      elif c[0] == 'file':
        calls.append('(P1 (PFile %s %s))' % (C.cstr(subst(c[1], d)), sk_coq(c[2])))
      elif c[0] == 'bind':     # ['bind', scope, selector, param, int]: gin.bind_parameter from Python
        calls.append('(PBindApi %s %s %s %s)' % (C.cstr(c[1]), C.cstr(c[2]), C.cstr(c[3]), C.out(P.canon_lit(c[4]))))
      else:   # ['fab', files, bindings(list of strings), finalize or None, sk]
        calls.append('(PFilesBindings %s %s %s %s)' % (
            C.cstrs([subst(f, d) for f in c[1]]), gfile_coq('\n'.join(c[2])),
            C.cbool(True if c[3] is None else c[3]), sk_coq(c[4])))
  return '((%s, %s), %s, %s)' % (regs, C.cstrs(case.get('consts', [])), env, C.clist(calls))


# ------------------------------------------------------------------ implementation side
class NamedStringIO(io.StringIO):
  def __init__(self, text, name):
    super().__init__(text)
    self.name = name


def sk_py(sk):
  if sk is True or sk is False:
    return sk
  if sk is None:
    return False
  kind, names = sk
  return {'list': list, 'tuple': tuple, 'set': set}[kind](names)


def err_obs(e):
  if isinstance(e, SyntaxError):
    return T('SyntaxError', e.lineno or 0)
  chain = []
  for m in re.finditer(r'\n  In (?:file "(.*?)",|bindings string) line (\d+)', str(e)):
    chain.append([m.group(1) or '', int(m.group(2))])
  return T('Err', type(e).__name__, chain)


class PluginFinder:
  """importable modules whose import registers configurables with the gin that is current at import time"""

  def __init__(self, plugins, received):
    self.plugins = plugins
    self.received = received

  def find_spec(self, name, path=None, target=None):
    import importlib.util
    if name in self.plugins:
      return importlib.util.spec_from_loader(name, self)
    return None

  def create_module(self, spec):
    return None

  def exec_module(self, module):
    gin = sys.modules['gin']
    for sel in self.plugins[module.__name__]:
      name = sel.split('.')[-1]
      env = {'rec': self.received, 'sel': sel}
      exec('def %s(a=None, b=None, **kw):\n  rec.append((sel, dict(locals())))\n  return (sel,)\n' % name, env)  # pylint: disable=exec-used
      fn = env[name]
      fn.__module__ = None
      setattr(module, name, gin.configurable(name, module='.'.join(sel.split('.')[:-1]) or None)(fn))


class TextMachine:
  def __init__(self, case):
    self.case = case
    self.gin = C.fresh_gin()
    self.cfg = self.gin.config
    self.dir = case_dir(case)
    self.opened = []
    self.received = []
    self.wrappers = {}
    gin = self.gin
    for c in case['regs']:
      params = ', '.join('%s=None' % a for a in c['args']) + (', **kw' if c.get('varkw') else '')
      name = c['sel'].split('.')[-1]
      env = {'rec': self.received, 'sel': c['sel']}
      exec('def %s(%s):\n  rec.append((sel, dict(locals())))\n  return (sel,)\n' % (name, params.lstrip(', ')), env)  # pylint: disable=exec-used
      fn = env[name]
      fn.__module__ = None
      self.wrappers[c['sel']] = gin.configurable(
          name, module='.'.join(c['sel'].split('.')[:-1]) or None,
          allowlist=c.get('allow') or None, denylist=c.get('deny') or None)(fn)
    for k in case.get('consts', []):
      gin.constant(k, ('const', k))
    # importable modules
    self.mods = []
    for m in case.get('modules', []):
      parts = m.split('.')
      for i in range(1, len(parts) + 1):
        n = '.'.join(parts[:i])
        if n not in sys.modules:
          mod = types.ModuleType(n)
          mod.__path__ = []
          sys.modules[n] = mod
          self.mods.append(n)
          if i > 1:
            setattr(sys.modules['.'.join(parts[:i - 1])], parts[i - 1], mod)
    self.finder = None
    if case.get('plugins'):
      self.finder = PluginFinder(case['plugins'], self.received)
      for n in case['plugins']:
        sys.modules.pop(n, None)
      sys.meta_path.insert(0, self.finder)
    # files: reader 0 = the default (real files under the case directory), others in memory
    shutil.rmtree(self.dir, ignore_errors=True)
    for r, fs in enumerate(case['files']):
      fs = {subst(p, self.dir): t for p, t in fs.items()}
      if r == 0:
        for p, t in fs.items():
          if p.startswith(self.dir):
            os.makedirs(os.path.dirname(p), exist_ok=True)
            with open(p, 'w') as f:
              f.write(t)
      else:
        def reader(path, fs=fs, r=r):
          self.opened.append([r, path])
          return NamedStringIO(fs[path], path)
        self.cfg.register_file_reader(reader, lambda path, fs=fs: path in fs)
    for p in case['prefixes'][1:]:
      self.cfg.add_config_file_search_path(subst(p, self.dir))

  def close(self):
    if self.finder is not None:
      if self.finder in sys.meta_path:
        sys.meta_path.remove(self.finder)
      for n in self.case['plugins']:
        sys.modules.pop(n, None)
    shutil.rmtree(self.dir, ignore_errors=True)
    for n in self.mods:
      sys.modules.pop(n, None)

  def canon(self, v):
    cfg = self.cfg
    if isinstance(v, cfg.ConfigurableReference):
      return T('Ref', list(v.scopes), v.configurable.selector, bool(v.evaluate))
    if isinstance(v, cfg._UnknownConfigurableReference):  # pylint: disable=protected-access
      return T('Unk', v.selector, bool(v.evaluate))
    if isinstance(v, list):
      return T('L', *[self.canon(x) for x in v])
    if isinstance(v, tuple):
      return T('T', *[self.canon(x) for x in v])
    if isinstance(v, dict):
      return T('D', *[[self.canon(k), self.canon(x)] for k, x in v.items()])
    return P.canon_lit(v)

  def tree(self, t):
    return T('File', t.filename, list(t.imports), [self.tree(x) for x in t.includes])

  def store(self):
    return [[k[0], k[1], [[p, self.canon(v)] for p, v in d.items()]] for k, d in self.cfg._CONFIG.items()]  # pylint: disable=protected-access

  def prov(self):
    return [[k[0], k[1], [[p, (l.filename or '') if l else '<none>', l.line_num if l else 0] for p, l in d.items()]]
            for k, d in self.cfg._CONFIG_PROVENANCE.items()]  # pylint: disable=protected-access

  def run_call(self, c):
    gin = self.gin
    before = {'scope': list(gin.current_scope()), 'locked': gin.config_is_locked(),
              'ctx': len(self.cfg._PARSE_CONTEXTS)}  # pylint: disable=protected-access
    try:
      if c[0] == 'text':
        inc, imps = gin.parse_config(c[1], skip_unknown=sk_py(c[2])) if c[2] is not None else gin.parse_config(c[1])
        o = T('Ok', list(imps), [self.tree(x) for x in inc])
      elif c[0] == 'bind':
        gin.bind_parameter('%s%s.%s' % (c[1] + '/' if c[1] else '', c[2], c[3]), c[4])
        o = T('Ok')
      elif c[0] == 'fab':
        kw = {}
        if c[3] is not None:
          kw['finalize_config'] = c[3]
        if c[4] is not None:
          kw['skip_unknown'] = sk_py(c[4])
        r = gin.parse_config_files_and_bindings([subst(f, self.dir) for f in c[1]], list(c[2]), **kw)
        o = T('Ok', [self.tree(x) for x in r])
      else:
        name = subst(c[1], self.dir)
        r = gin.parse_config_file(name, skip_unknown=sk_py(c[2])) if c[2] is not None else gin.parse_config_file(name)
        o = T('Ok', self.tree(r))
    except Exception as e:  # pylint: disable=broad-except
      o = err_obs(e)
    after = {'scope': list(gin.current_scope()), 'locked': gin.config_is_locked(),
             'ctx': len(self.cfg._PARSE_CONTEXTS)}  # pylint: disable=protected-access
    if c[0] == 'fab':
      after['locked'] = before['locked']
    return o, before == after

  def run(self):
    obs, stable = [], True
    for c in self.case['calls']:
      o, same = self.run_call(c)
      obs.append(o)
      stable = stable and same
    obs.append(self.store())
    obs.append(self.prov())
    if self.case.get('engine2'):
      obs.append(bool(self.gin.config_is_locked()))
    return obs, stable


def normalise_paths(x, d):
  """replace the per-case temp dir by $TMP inside an observation (for stable replays)"""
  if isinstance(x, T):
    return T(x.tag, *[normalise_paths(a, d) for a in x.args])
  if isinstance(x, list):
    return [normalise_paths(a, d) for a in x]
  if isinstance(x, str):
    return x
  return x
