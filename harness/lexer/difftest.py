#!/venv/bin/python
"""Differential test of the Gallina lexer (Model/Lexer.v, [lex]) against CPython 3.12's
tokenize.generate_tokens, via harness.parsing.tokens_of.

  /venv/bin/python difftest.py [--seed N] [--structured N] [--malformed N] [--jobs N] [--keep]   (needs a built tree: make)

Generates gin-config-like texts (structured stream) and character-level mutations of them (malformed
stream), writes Coq files difftest_out/shard_NNNN.v of <= 300 texts each which evaluate [lex] with
vm_compute and compare it INSIDE Coq with the tokens of the real tokenizer (expected [None] where the
Python copy of [supported] below says the text is outside the modelled class), prints only the indices
that differ, and reports every disagreement with its text.  Writes RESULTS.txt."""
import argparse
import collections
import os
import random
import re
import subprocess
import sys
import time
from concurrent.futures import ThreadPoolExecutor

sys.path.insert(0, '/verif')
from harness import parsing as P   # noqa: E402

HERE = os.path.dirname(os.path.abspath(__file__))
OUT = os.path.join(HERE, 'difftest_out')
SHARD = 300


# ---------------------------------------------------------------- the modelled class (copy of Lexer.supported)
def supported(s):
  """copy of Lexer.supported: bytes 10 and 32..126 only; no f-string prefix (f, fr, rf in any case, directly in front
  of a quote) at a place where a token may start.  Inside a run of identifier characters that begins with a letter or
  underscore and does not follow a '.', no token starts, so 'pdf' or 'self' are fine; anywhere else the prefix is refused."""
  for ch in s:
    if not (ch == '\n' or 32 <= ord(ch) <= 126):
      return False
  quote = ('"', "'")
  state = 0          # 0: behind a non-identifier character (or at the start); 1: behind a '.';
                     # 2: inside a run that began with a letter / underscore, not behind a '.'; 3: inside any other run
  for i, c in enumerate(s):
    if state != 2:
      a, b, q = s[i:i + 1], s[i + 1:i + 2], s[i + 2:i + 3]
      if a in ('f', 'F') and (b in quote or (b in ('r', 'R') and q in quote)):
        return False
      if a in ('r', 'R') and b in ('f', 'F') and q in quote:
        return False
    if c.isalnum() or c == '_':
      if state == 0:
        state = 2 if not c.isdigit() else 3
      elif state == 1:
        state = 3
    else:
      state = 1 if c == '.' else 0
  return True


# ---------------------------------------------------------------- generator
OPS = ['!=', '%=', '&=', '**', '*=', '+=', '-=', '->', '//', '/=', ':=', '<<', '<=', '<>', '==', '>=', '>>', '@=', '^=',
       '|=', '**=', '...', '//=', '<<=', '>>=', '(', ')', '[', ']', '{', '}', ':', ',', ';', '+', '-', '*', '/', '|',
       '&', '<', '>', '=', '.', '%', '~', '^', '@', '!', '$', '?', '`']
NAMES = ['x', 'y', 'foo', 'bar_1', '_p', 'Cls', 'True', 'False', 'None', 'if', 'import', 'include', 'e', 'j', 'E5', 'r', 'b',
         'u', 'f', 'rb', 'bR', 'fr', 'ur', 'brx', 'e5', 'x0f', 'lr', 'pdf', 'model', 'train', 'num_layers', 'Adam',
         'a1b2', '__init__', 'J', 'o7', 'b1', 'xF']
LETTERS = 'abcdefghijklmnopqrstuvwxyzABCDEFGHIJKLMNOPQRSTUVWXYZ_'
STRCH = list('abcdefrxyz ABF0159_-+*/.,:;=()[]{}<>!@#$%^&|~?`') + ['\\\\', '\\n', '\\t', "\\'", '\\"', '\\x41', ' ', ' ']


class Gen:
  def __init__(self, rng):
    self.r = rng

  def name(self):
    r = self.r
    if r.random() < 0.7:
      return r.choice(NAMES)
    return r.choice(LETTERS) + ''.join(r.choice(LETTERS + '0123456789') for _ in range(r.randint(0, 6)))

  def digits(self, lo=1, hi=4, us=0.1):
    r = self.r
    s = r.choice('0123456789')
    for _ in range(r.randint(lo, hi) - 1):
      if r.random() < us:
        s += '_'
      s += r.choice('0123456789')
    return s

  def number(self):
    r = self.r
    k = r.random()
    if k < 0.30:
      s = r.choice(['0', '1', '7', '42', '100', '12_000', str(r.randint(0, 99999))])
    elif k < 0.55:
      s = r.choice([self.digits() + '.' + self.digits(), self.digits() + '.', '.' + self.digits(), '0.5', '1e5', '1E-5',
                    '1e+30', '3.25e-7', '1.e3', '.5E+2', self.digits() + 'e' + r.choice(['', '+', '-']) + self.digits(1, 2)])
    elif k < 0.65:
      s = r.choice(['1j', '2.5J', '1e3j', '0j', '.5j', self.digits() + r.choice('jJ')])
    elif k < 0.80:
      s = r.choice(['0x1F', '0Xff', '0o17', '0O7', '0b101', '0B1_0', '0xdead_beef', '0x_1', '0o_7', '0b_1',
                    '0x' + ''.join(r.choice('0123456789abcdefABCDEF_') for _ in range(r.randint(1, 5)))])
    elif k < 0.95:
      s = r.choice(['007', '00', '0_0', '0_7', '00.5', '0e0', '0.0', '000j', '09.1', '0_1e1'])
    else:   # what the tokenizer rejects or splits in odd ways
      s = r.choice(['1__0', '0x', '1_', '1.2.3', '1e', '1e+', '0b12', '0o8', '0o18', '0xg', '1_e5', '1e5_', '1._5', '1.e',
                    '0_', '0__0', '1ej', '1E+j', '12abc', '1if', '0b', '0o', '0x1_', '0b1_', '1e-', '1.5e', '1jj', '1_j',
                    '0_x1', '0b_', '1e1_1', '1e1__1', '0o7_8', '0b1_2', '..5', '1..2', '5...'])
    return s

  def strbody(self, q, triple):
    r = self.r
    out = ''
    for _ in range(r.randint(0, 8)):
      c = r.choice(STRCH)
      if c == q and not triple:
        c = '\\' + q
      out += c
    if triple:
      if r.random() < 0.5:
        out += '\n' + ' ' * r.randint(0, 4) + r.choice(['', 'x', q, q + q, '# no', '\\', 'abc\n'])
      out = out.replace(q * 3, q * 2 + ' ')
      while out.endswith(q) or out.endswith('\\'):
        out += ' '
    return out

  def string(self):
    r = self.r
    q = r.choice(['"', "'"])
    pfx = '' if r.random() < 0.75 else r.choice(['r', 'R', 'b', 'B', 'u', 'U', 'rb', 'bR', 'Br', 'RB', 'rB', 'br', 'r', 'b', 'f', 'F', 'fr', 'rf', 'bu', 'ur', 'rr', 'x', 'bf', 'rbx', 'uu'])
    k = r.random()
    if k < 0.84:
      body = self.strbody(q, False)
      if r.random() < 0.04:
        body += '\\\n' + self.strbody(q, False)      # backslash-newline inside a one-quote string
      return pfx + q + body + q
    if k < 0.98:
      return pfx + q * 3 + self.strbody(q, True) + q * 3
    # unterminated / odd
    return pfx + r.choice([q + 'abc', q * 3 + 'abc' + q * 2, q + 'ab\\', q + 'a\\' + q, q * 2, q * 4, q * 5, q * 6, q + 'x' + q + q])

  def atom(self):
    r = self.r
    k = r.random()
    if k < 0.30:
      return [self.number()]
    if k < 0.55:
      return [self.string()]
    if k < 0.75:
      return [self.name()]
    if k < 0.85:
      return ['@'] + self.selector() + (['(', ')'] if r.random() < 0.5 else [])
    if k < 0.92:
      return ['%', self.name()]
    return ['-', self.number()]

  def selector(self):
    r = self.r
    toks = [self.name()]
    for _ in range(r.randint(0, 3)):
      toks += [r.choice(['/', '.', '.']), self.name()]
    return toks

  def value(self, depth=0):
    """list of tokens; the marker NLM may be turned into a line break (inside brackets)"""
    r = self.r
    if depth > 3 or r.random() < 0.55:
      v = self.atom()
      if r.random() < 0.1:
        v += [self.string()]            # implicit concatenation
      return v
    o, c = r.choice([('[', ']'), ('(', ')'), ('{', '}')])
    toks = [o, 'NLM']
    n = r.randint(0, 4)
    for i in range(n):
      if o == '{':
        toks += self.value(depth + 1) + [':'] + self.value(depth + 1)
      else:
        toks += self.value(depth + 1)
      if i < n - 1 or r.random() < 0.3:
        toks += [',', 'NLM']
    toks += ['NLM']
    if r.random() < 0.02:
      c = r.choice([']', ')', '}', ''])   # mismatched / missing closer
    toks.append(c)
    return toks

  def statement(self):
    r = self.r
    k = r.random()
    if k < 0.55:
      return self.selector() + ['='] + self.value()
    if k < 0.62:
      return [r.choice(['import', 'include'])] + (self.selector() if r.random() < 0.6 else [self.string()])
    if k < 0.72:
      return [r.choice(['if', 'while', 'for', 'def', 'class'])] + self.selector() + [':']
    if k < 0.80:
      return self.value()
    # token soup
    toks = []
    for _ in range(r.randint(1, 8)):
      j = r.random()
      toks.append(r.choice(OPS) if j < 0.5 else self.name() if j < 0.7 else self.number() if j < 0.9 else self.string())
    return toks

  def comment(self):
    r = self.r
    return '#' + ''.join(r.choice(STRCH + ['#', '"', "'"]).replace('\\\\', '\\') for _ in range(r.randint(0, 10)))

  def render_line(self, toks, indent):
    """tokens -> physical text (possibly several physical lines) starting at column [indent]"""
    r = self.r
    out = ' ' * indent
    depth = 0
    prev = None
    for t in toks:
      if t == 'NLM':
        if r.random() < 0.3:
          if r.random() < 0.3:
            out += ' ' * r.randint(0, 2) + self.comment()
          out += '\n' + ' ' * r.randint(0, 8)
          if r.random() < 0.1:
            out += '\n' + ' ' * r.randint(0, 3)
          if r.random() < 0.1:
            out += self.comment() + '\n' + ' ' * r.randint(0, 6)
        continue
      if t == '':
        continue
      sep = ''
      if prev is not None:
        k = r.random()
        need = (prev[-1:].isalnum() or prev[-1:] in '_.') and (t[:1].isalnum() or t[:1] in '_."\'')
        if k < 0.45 or (need and k < 0.97):
          sep = ' ' * (1 if r.random() < 0.8 else r.randint(2, 4))
        if r.random() < 0.03:
          sep += '\\\n' + ' ' * r.randint(0, 6)      # explicit line joining
          if r.random() < 0.1:
            sep += '\\\n'
      out += sep + t
      prev = t
    k = r.random()
    if k < 0.15:
      out += ' ' * r.randint(1, 3)
    if r.random() < 0.15:
      out += ' ' * r.randint(0, 2) + self.comment()
    return out

  def text(self):
    r = self.r
    lines = []
    indents = [0]
    n = r.choice([0, 1, 1, 2, 2, 3, 3, 4, 5, 6, 8, 10])
    use_blocks = r.random() < 0.45
    for _ in range(n):
      k = r.random()
      if k < 0.08:
        lines.append(' ' * r.choice([0, 0, 1, 2, 4, 7]))                     # blank / blanks only
        continue
      if k < 0.18:
        lines.append(' ' * r.choice([0, 0, 0, 2, 4, 5]) + self.comment())    # comment only
        continue
      toks = self.statement()
      ind = indents[-1]
      if use_blocks:
        j = r.random()
        if lines and lines[-1].rstrip().endswith(':') or j < 0.08:
          ind = indents[-1] + r.choice([1, 2, 2, 4, 4, 8])
          indents.append(ind)
        elif j < 0.30 and len(indents) > 1:
          for _ in range(r.randint(1, len(indents) - 1)):
            indents.pop()
          ind = indents[-1]
          if r.random() < 0.08:
            ind = max(0, ind + r.choice([-1, 1]))                             # inconsistent dedent (or indent)
        if r.random() < 0.03:
          lines.append(' ' * r.randint(0, 4) + '\\')                          # continuation in the indentation
      lines.append(self.render_line(toks, ind))
    s = '\n'.join(lines)
    if lines and r.random() < 0.8:
      s += '\n'
    if r.random() < 0.05:
      s += ' ' * r.randint(1, 4)
    return s


MUT_CHARS = list(' \n\\#\'"()[]{}:,=+-*/.0123456789_abefjrxuXJE!$?`@%<>~^&|;') + ['\t', '\r', '\x0c', '\xe9', '\u20ac', '\x00', '\x01', '\x7f', '"""', "'''", '\\\n', '    ', '\n\n']


def mutate(rng, s):
  for _ in range(rng.choice([1, 1, 1, 2, 2, 3, 5])):
    k = rng.random()
    i = rng.randint(0, len(s))
    if k < 0.30 and s:
      j = min(len(s), i + rng.choice([1, 1, 1, 2, 3]))
      s = s[:i] + s[j:]
    elif k < 0.65:
      s = s[:i] + rng.choice(MUT_CHARS) + s[i:]
    elif k < 0.80 and s:
      s = s[:i] + rng.choice(MUT_CHARS) + s[i + 1:]
    elif k < 0.88 and s:
      j = min(len(s), i + rng.randint(1, 6))
      s = s[:j] + s[i:j] + s[j:]
    elif k < 0.94:
      s = s[:i]
    elif len(s) >= 2:
      i = rng.randint(0, len(s) - 2)
      s = s[:i] + s[i + 1] + s[i] + s[i + 2:]
  return s


# hand-written corner cases (always included)
def corner_cases():
  deep_i = lambda n: ''.join(' ' * k + 'x\n' for k in range(n))
  deep_p = lambda n: '(' * n + ')' * n + '\n'
  cs = ['', '\n', 'x', 'x\n', '# c', '  # c\n', ' ', '  \n  ', 'if x:\n  y\n', 'if x:\n  y', 'if x:\n  y\n  ',
        'if x:\n    y\n  z\n', '$ ? ` !', 'a != b', ')\n', ']', 'x = (1,\n 2]\n)', '(\n', '((\n)\n', "'ab\\\ncd'",
        'x \\\n  y', 'x \\', 'x \\\n', 'x \\ \n', '  \\\nx\n', '\\\n    x\n', '  \\\n    x\n y\n', 'if x:\n  \\\n  y\n',
        '\\\n', '\\', ' \\\n\\\n  x', 'x = 1 \\\n\n', 'x = \\\n# c\n', '\\\n# c\n', '(# c\n)', '(\n# c\n\n)\n',
        '"""a\nb"""', "'''\n", "x = '''a''' '''b'''", '""""""', "''''", 'rb"x" Rb\'y\' u"z" bu"w" ur"v"',
        'f', 'f = 1', 'x="f"', "f'x'", 'fr"x"', 'rf"x"', "'pdf'", 'a.b.c', 'a..b', 'a...b', '....', '1.__x', '.', '..', '.5.', '1.j',
        '0', '00', '0_0', '0x_f', '1e5j', 'x=1if y', '1 if', '->>=', '**==', '<>=', '!==', '//=/', '<<<=', '>>>=', ':=:', '=!',
        'a\n b\n  c\n d\n', 'a\n b\n  c\n e\nf\n', 'a\n  b\n c\n', '  a\nb\n', '  a\n b\n', ' # c\n  x\n# d\n  y\n z\n',
        'x = [\n  1,\n    2\n]\ny\n', 'if a:\n  x = (\n1)\n  y\n', deep_i(99), deep_i(100), deep_i(101), deep_i(103),
        deep_p(199), deep_p(200), deep_p(201), '[' * 250,
        "'pdf'", "'self'", "1jf'x'", "1f'x'", "0xarf'x'", "1.e5f'x'", "1.jf'x'", "a.pdf'x'", "xrf'x'", "bf'x'", "_f'x'",
        "a1f'x'", "x = 'elf' \"half\"", "# f'\n", "x.f'a'", "(f'a')", "brf'x'", "urf\"x\"", "xfr'a'", "Rf'", "0_f'", "a .f'",
        "f1f'x'", "'f'", "f 'x'", "f\\\n'x'", "ef'x' 1ef'x'", "0b1f'x'", '\t', 'x\ty', 'x\r\n', '\x0c', '\xe9', "'\xe9'", 'x\x00']
  return cs


# ---------------------------------------------------------------- Coq side
HEADER = '''From Coq Require Import List String Bool Arith Ascii.
From GinV Require Import Model.Parser Model.Lexer.
Import ListNotations. Open Scope string_scope. Open Scope list_scope.
Definition T (t : ttype) (s : string) (a b c d : nat) : token :=
  {| ty := t; text := s; srow := a; scol := b; erow := c; ecol := d |}.
Definition B (l : list nat) : string := string_of_list_ascii (map ascii_of_nat l).
Definition tok_eqb (x y : token) : bool :=
  ttype_eqb (ty x) (ty y) && String.eqb (text x) (text y) && Nat.eqb (srow x) (srow y) && Nat.eqb (scol x) (scol y)
  && Nat.eqb (erow x) (erow y) && Nat.eqb (ecol x) (ecol y).
Fixpoint toks_eqb (a b : list token) : bool :=
  match a, b with [], [] => true | x :: a', y :: b' => tok_eqb x y && toks_eqb a' b' | _, _ => false end.
Definition res_eqb (a b : option (list token)) : bool :=
  match a, b with None, None => true | Some x, Some y => toks_eqb x y | _, _ => false end.
Definition check (c : nat * string * option (list token)) : bool :=
  let '(_, s, e) := c in res_eqb (lex s) e && Bool.eqb (supported s) (match e with Some _ => true | None => false end).
'''


def cstr(s):
  b = s.encode('utf-8')
  if all(c == 10 or c == 9 or 32 <= c <= 126 for c in b):
    return '"' + s.replace('"', '""') + '"'
  return '(B [%s])' % '; '.join(str(c) for c in b)


def ctoks(toks):
  return '[' + '; '.join('T %s %s %d %d %d %d' % (t[0], cstr(t[1]), t[2], t[3], t[4], t[5]) for t in toks) + ']'


def write_shard(k, items):
  """items: list of (index, text, expected or None)"""
  path = os.path.join(OUT, 'shard_%04d.v' % k)
  with open(path, 'w', encoding='utf-8') as f:
    f.write(HEADER)
    f.write('Definition cases : list (nat * string * option (list token)) := [\n')
    f.write(';\n'.join('(%d, %s, %s)' % (i, cstr(t), 'None' if e is None else '(Some %s)' % ctoks(e)) for i, t, e in items))
    f.write('].\n')
    f.write('Definition bad : list nat := map (fun c => fst (fst c)) (filter (fun c => negb (check c)) cases).\n')
    f.write('Eval vm_compute in (List.length cases, bad).\n')
  return path


def run_shard(path):
  t0 = time.time()
  try:
    p = subprocess.run(['timeout', '900', 'coqc', '-Q', HERE, 'GinV', '-w', '-notation-overridden', path],
                       capture_output=True, text=True, cwd=OUT)
  except Exception as e:   # pylint: disable=broad-except
    return path, None, 'EXC %r' % e, time.time() - t0
  if p.returncode != 0:
    return path, None, (p.stdout + p.stderr)[-2000:], time.time() - t0
  m = re.search(r'=\s*\((\d+),\s*\[([^\]]*)\]\)', p.stdout.replace('\n', ' '))
  if not m:
    return path, None, 'UNPARSED ' + p.stdout[-500:], time.time() - t0
  bad = [int(x) for x in m.group(2).replace(' ', '').split(';') if x]
  return path, (int(m.group(1)), bad), '', time.time() - t0


# ---------------------------------------------------------------- statistics on the real token streams
def classify(text, toks, st):
  last = toks[-1]
  if last[0] == 'TERR':
    st['error:' + last[1]] += 1
  else:
    st['error-free'] += 1
  tys = [t[0] for t in toks]
  if 'INDENT' in tys:
    st['has INDENT'] += 1
  if any(t[0] == 'DEDENT' and i + 1 < len(toks) and toks[i + 1][0] not in ('DEDENT', 'ENDMARKER') for i, t in enumerate(toks)):
    st['has DEDENT before more code'] += 1
  depth = 0
  span_br = False
  for t in toks:
    if t[0] == 'OP' and t[1] in '([{':
      depth += 1
    elif t[0] == 'OP' and t[1] in ')]}':
      depth = max(0, depth - 1)
    elif t[0] == 'NL' and depth > 0:
      span_br = True
  if span_br:
    st['brackets spanning lines'] += 1
  if any(a[0] not in ('NEWLINE', 'NL', 'TERR') and b[0] not in ('TERR', 'ENDMARKER', 'DEDENT') and b[2] > a[4]
         for a, b in zip(toks, toks[1:])) or (toks and toks[0][0] not in ('TERR',) and toks[0][2] > 1 and toks[0][0] != 'ENDMARKER'):
    st['explicit line joining (backslash)'] += 1
  if any(t[0] == 'STRING' and t[4] > t[2] for t in toks):
    st['multi-line STRING'] += 1
  if any(t[0] == 'STRING' and (t[1].lstrip('rbuRBU')[:3] in ('"""', "'''")) for t in toks):
    st['triple-quoted STRING'] += 1
  if any(t[0] == 'STRING' and t[1][0] in 'rbuRBU' for t in toks):
    st['prefixed STRING'] += 1
  if 'COMMENT' in tys:
    st['has COMMENT'] += 1
  if text and not text.endswith('\n'):
    st['no final newline'] += 1
  if any(t[0] == 'NUMBER' and re.match(r'0[xXoObB]', t[1]) for t in toks):
    st['hex/octal/binary NUMBER'] += 1
  if any(t[0] == 'NUMBER' and re.search(r'[.eEjJ]', t[1]) and not re.match(r'0[xX]', t[1]) for t in toks):
    st['float/imaginary NUMBER'] += 1
  if any(t[0] == 'OP' and t[1] in ('$', '?', '`', '!') for t in toks):
    st['OP $ ? ` !'] += 1
  st['tokens'] += len(toks)
  st['characters'] += len(text)


def main():
  ap = argparse.ArgumentParser()
  ap.add_argument('--seed', type=int, default=20261001)
  ap.add_argument('--structured', type=int, default=30000)
  ap.add_argument('--malformed', type=int, default=8000)
  ap.add_argument('--jobs', type=int, default=16)
  ap.add_argument('--results', default=os.path.join(HERE, 'RESULTS.txt'))
  ap.add_argument('--keep', action='store_true', help='keep the generated Coq files in difftest_out/')
  a = ap.parse_args()
  rng = random.Random(a.seed)
  g = Gen(rng)
  os.makedirs(OUT, exist_ok=True)
  for fn in os.listdir(OUT):
    os.remove(os.path.join(OUT, fn))

  streams = collections.OrderedDict()
  structured = [g.text() for _ in range(a.structured)]
  streams['structured'] = structured
  streams['malformed'] = [mutate(rng, rng.choice(structured)) for _ in range(a.malformed)]
  streams['corner'] = corner_cases()

  items = []
  stats = {}
  counts = {}
  for name, texts in streams.items():
    st = collections.Counter()
    sup = 0
    for t in texts:
      if supported(t):
        sup += 1
        toks = P.tokens_of(t)
        classify(t, toks, st)
        items.append((len(items), t, toks, name))
      else:
        items.append((len(items), t, None, name))
    stats[name] = st
    counts[name] = (len(texts), sup)

  shards = []
  for k in range(0, len(items), SHARD):
    shards.append(write_shard(k // SHARD, [(i, t, e) for i, t, e, _ in items[k:k + SHARD]]))
  t0 = time.time()
  bad, failed, checked = [], [], 0
  with ThreadPoolExecutor(max_workers=a.jobs) as ex:
    for path, res, msg, dt in ex.map(run_shard, shards):
      if res is None:
        failed.append((path, msg))
      else:
        checked += res[0]
        bad += res[1]
  elapsed = time.time() - t0

  lines = []
  w = lines.append
  w('Differential test  Model/Lexer.v [lex]  vs  CPython %s tokenize.generate_tokens' % sys.version.split()[0])
  w('seed %d; shards of <= %d texts, %d shards, compared inside Coq with vm_compute (%.0f s with %d jobs)' %
    (a.seed, SHARD, len(shards), elapsed, a.jobs))
  w('')
  for name in streams:
    n, sup = counts[name]
    w('%-11s texts %6d   supported %6d   outside the class %5d (%.1f%%)' % (name, n, sup, n - sup, 100.0 * (n - sup) / max(1, n)))
  w('texts evaluated in Coq: %d;  DISAGREEMENTS: %d;  shards that failed to run: %d' % (checked, len(bad), len(failed)))
  w('(for a text outside the class the check is: lex = None and supported = false; inside: lex = Some <real tokens>)')
  w('')
  for name in streams:
    st = stats[name]
    w('class statistics, %s stream (supported texts only; counted on the real token streams):' % name)
    for key in sorted(k for k in st if k not in ('tokens', 'characters')):
      w('   %-40s %6d' % (key, st[key]))
    w('   %-40s %6d' % ('tokens in total', st['tokens']))
    w('   %-40s %6d' % ('characters in total', st['characters']))
    w('')
  for i in bad[:50]:
    _, t, e, name = items[i]
    w('DISAGREEMENT #%d (%s): %r' % (i, name, t))
    w('   real: %r' % (e,))
  for path, msg in failed[:10]:
    w('FAILED SHARD %s: %s' % (path, msg))
  rep = '\n'.join(lines) + '\n'
  sys.stdout.write(rep)
  with open(a.results, 'w', encoding='utf-8') as f:
    f.write(rep)
  if not a.keep and not bad and not failed:
    for fn in os.listdir(OUT):
      os.remove(os.path.join(OUT, fn))
    os.rmdir(OUT)
  return 1 if bad or failed else 0


if __name__ == '__main__':
  sys.exit(main())
