"""Reference model (Python) of the Gallina lexer, structured the same way as Model/Lexer.v.
Used only to iterate quickly against the real tokenizer before transcribing into Coq."""

MAXLEVEL = 200
MAXINDENT = 100

ONE = set('()[]{}:,;+-*/|&<>=.%~^@!')
TWO = {'!=', '%=', '&=', '**', '*=', '+=', '-=', '->', '//', '/=', ':=', '<<', '<=', '<>', '==', '>=', '>>', '@=', '^=', '|='}
THREE = {'**=', '...', '//=', '<<=', '>>='}


def supported(s):
  """copy of Lexer.supported: bytes 10 and 32..126 only; no f-string prefix (f, fr, rf in any case, directly in front
  of a quote) at a place where a token may start.  Inside a run of identifier characters that begins with a letter or
  underscore and does not follow a '.', no token starts, so 'pdf' or 'self' are fine; anywhere else the prefix is refused."""
  for ch in s:
    if not (ch == '\n' or 32 <= ord(ch) <= 126):
      return False
  quote = ('"', "'")
  state = 0          # 0: behind a non-identifier character (or at the start); 1: behind a '.';
                     # 2: inside a run that began with a letter / underscore, not behind a '.'; 3: inside any other run
  for i, c in enumerate(s):
    if state != 2:
      a, b, q = s[i:i + 1], s[i + 1:i + 2], s[i + 2:i + 3]
      if a in ('f', 'F') and (b in quote or (b in ('r', 'R') and q in quote)):
        return False
      if a in ('r', 'R') and b in ('f', 'F') and q in quote:
        return False
    if c.isalnum() or c == '_':
      if state == 0:
        state = 2 if not c.isdigit() else 3
      elif state == 1:
        state = 3
    else:
      state = 1 if c == '.' else 0
  return True


def isdigit(c): return c != '' and c in '0123456789'
def isxdigit(c): return c != '' and c in '0123456789abcdefABCDEF'
def isidstart(c): return c != '' and (c.isalpha() or c == '_')
def isidchar(c): return c != '' and (c.isalnum() or c == '_')


class Err(Exception):
  pass


def pos_after(row, col, lexeme):
  for ch in lexeme:
    if ch == '\n':
      row, col = row + 1, 0
    else:
      col += 1
  return row, col


# ---- scanners: take the remaining text (starting at the token), return the length of the lexeme, or raise Err
def digits_tail(s, i):
  """tok_decimal_tail: s[i-1] was a digit already consumed; returns index after the digit/underscore run"""
  while True:
    while isdigit(s[i:i + 1]):
      i += 1
    if s[i:i + 1] != '_':
      return i
    i += 1
    if not isdigit(s[i:i + 1]):
      raise Err()


def radix_tail(s, i, ok):
  """after 0x / 0o / 0b; i points behind the letter"""
  while True:
    if s[i:i + 1] == '_':
      i += 1
    if not ok(s[i:i + 1]):
      raise Err()
    while ok(s[i:i + 1]):
      i += 1
    if s[i:i + 1] != '_':
      return i


def scan_fraction(s, i):
  """s[i-1] == '.', part behind the dot"""
  if isdigit(s[i:i + 1]):
    i = digits_tail(s, i + 1)
  return scan_exponent(s, i)


def scan_exponent(s, i):
  c = s[i:i + 1]
  if c in ('e', 'E') and c:
    j = i + 1
    c2 = s[j:j + 1]
    if c2 in ('+', '-') and c2:
      j += 1
      if not isdigit(s[j:j + 1]):
        raise Err()
      j = digits_tail(s, j + 1)
      return scan_imag(s, j)
    elif isdigit(c2):
      j = digits_tail(s, j + 1)
      return scan_imag(s, j)
    else:
      return i            # NUMBER ends before the 'e'
  return scan_imag(s, i)


def scan_imag(s, i):
  if s[i:i + 1] in ('j', 'J') and s[i:i + 1]:
    return i + 1
  return i


def scan_number(s):
  """s[0] is a digit"""
  if s[0] == '0':
    c = s[1:2]
    if c in ('x', 'X') and c:
      return radix_tail(s, 2, isxdigit)
    if c in ('o', 'O') and c:
      i = radix_tail(s, 2, lambda ch: ch != '' and ch in '01234567')
      if isdigit(s[i:i + 1]):
        raise Err()
      return i
    if c in ('b', 'B') and c:
      i = radix_tail(s, 2, lambda ch: ch != '' and ch in '01')
      if isdigit(s[i:i + 1]):
        raise Err()
      return i
    i = 1
    while True:
      if s[i:i + 1] == '_':
        i += 1
        if not isdigit(s[i:i + 1]):
          raise Err()
      if s[i:i + 1] != '0':
        break
      i += 1
    if isdigit(s[i:i + 1]):
      i = digits_tail(s, i + 1)
    if s[i:i + 1] == '.':
      return scan_fraction(s, i + 1)
    return scan_exponent(s, i)
  i = digits_tail(s, 1)
  if s[i:i + 1] == '.':
    return scan_fraction(s, i + 1)
  return scan_exponent(s, i)


def scan_string(s, i):
  """s[i] is the opening quote (prefix before it); returns the index behind the closing quote"""
  q = s[i]
  if s[i + 1:i + 3] == q + q:
    j = i + 3
    run = 0
    while True:
      c = s[j:j + 1]
      if c == '':
        raise Err()
      j += 1
      if c == q:
        run += 1
        if run == 3:
          return j
      else:
        run = 0
        if c == '\\':
          if s[j:j + 1] == '':
            raise Err()
          j += 1
  j = i + 1
  while True:
    c = s[j:j + 1]
    if c == '' or c == '\n':
      raise Err()
    j += 1
    if c == q:
      return j
    if c == '\\':
      if s[j:j + 1] == '':
        raise Err()
      j += 1


def prefix_len(s):
  """length of a string prefix in front of a quote at the start of s, or None"""
  saw_b = saw_r = saw_u = False
  i = 0
  while True:
    c = s[i:i + 1]
    if not (saw_b or saw_u) and c in ('b', 'B') and c:
      saw_b = True
    elif not (saw_b or saw_u or saw_r) and c in ('u', 'U') and c:
      saw_u = True
    elif not (saw_r or saw_u) and c in ('r', 'R') and c:
      saw_r = True
    else:
      return None
    i += 1
    if s[i:i + 1] in ('"', "'") and s[i:i + 1]:
      return i


def lex(text):
  if not supported(text):
    return None
  imp = text != '' and not text.endswith('\n')
  s = text + '\n' if imp else text
  nlines = s.count('\n')
  out = []
  row, col, i = 1, 0, 0
  atbol = True
  stack = []          # indentation stack above the bottom 0
  level = 0
  cnl = False
  n = len(s)

  def tok(ty, lexeme, r, c):
    er, ec = pos_after(r, c, lexeme)
    out.append([ty, lexeme, r, c, er, ec])

  try:
    while True:
      blank = False
      if atbol:
        atbol = False
        # indentation scan
        icol = 0
        cont = 0
        while True:
          c = s[i:i + 1]
          if c == ' ':
            icol += 1; i += 1; col += 1
          elif c == '\\':
            if cont == 0:
              cont = icol
            if s[i + 1:i + 2] != '\n':
              raise Err()
            if i + 2 >= n:
              raise Err()
            i += 2; row += 1; col = 0
          else:
            break
        if c == '#' or c == '\n':
          blank = True
        if not blank and level == 0:
          ind = cont if cont else icol
          top = stack[-1] if stack else 0
          if c == '':
            # end of file
            for _ in stack:
              out.append(['DEDENT', '', nlines + 1, 0, nlines + 1, 0])
            stack = []
          elif ind > top:
            if len(stack) + 1 >= MAXINDENT:
              out.append(['TERR', 'IndentationError', row, 0, row, 0]); return out
            stack.append(ind)
            out.append(['INDENT', s[i - col:i], row, 0, row, col])
          elif ind < top:
            k = 0
            while stack and ind < stack[-1]:
              stack.pop(); k += 1
            if ind != (stack[-1] if stack else 0):
              out.append(['TERR', 'IndentationError', row, 0, row, 0]); return out
            for _ in range(k):
              out.append(['DEDENT', '', row, col, row, col])
      # skip spaces
      while s[i:i + 1] == ' ':
        i += 1; col += 1
      c = s[i:i + 1]
      if c == '':
        if level:
          raise Err()
        out.append(['ENDMARKER', '', nlines + 1, 0, nlines + 1, 0])
        return out
      if c == '#':
        j = i
        while s[j:j + 1] not in ('', '\n'):
          j += 1
        tok('COMMENT', s[i:j], row, col)
        col += j - i; i = j
        cnl = blank
        continue
      if c == '\n':
        fake = imp and i == n - 1
        if blank or level > 0 or cnl:
          out.append(['NL', '' if fake else '\n', row, col, row, col + 1])
        else:
          out.append(['NEWLINE', '' if fake else '\n', row, col, row, col + 1])
        cnl = False
        atbol = True
        i += 1; row += 1; col = 0
        continue
      if isidstart(c):
        p = prefix_len(s[i:i + 3])
        if p is not None:
          j = scan_string(s, i + p)
          lexeme = s[i:j]
          tok('STRING', lexeme, row, col)
          row, col = pos_after(row, col, lexeme); i = j
          continue
        j = i
        while isidchar(s[j:j + 1]):
          j += 1
        tok('NAME', s[i:j], row, col)
        col += j - i; i = j
        continue
      if isdigit(c) or (c == '.' and isdigit(s[i + 1:i + 2])):
        if c == '.':
          j = scan_fraction(s[i:], 1)
        else:
          j = scan_number(s[i:])
        tok('NUMBER', s[i:i + j], row, col)
        col += j; i += j
        continue
      if c in ('"', "'"):
        j = scan_string(s, i)
        lexeme = s[i:j]
        tok('STRING', lexeme, row, col)
        row, col = pos_after(row, col, lexeme); i = j
        continue
      if c == '\\':
        if s[i + 1:i + 2] != '\n':
          raise Err()
        if i + 2 >= n:
          raise Err()
        i += 2; row += 1; col = 0
        continue
      # operators
      if s[i:i + 2] in TWO:
        ln = 3 if s[i:i + 3] in THREE else 2
      elif s[i:i + 3] == '...':
        ln = 3
      else:
        ln = 1
        if c in '([{':
          if level >= MAXLEVEL:
            raise Err()
          level += 1
        elif c in ')]}':
          if level > 0:
            level -= 1
      tok('OP', s[i:i + ln], row, col)
      col += ln; i += ln
  except Err:
    out.append(['TERR', 'TokenError', 0, 0, 0, 0])
    return out
