"""./check <Cnn> [--tier quick|thorough] [--replay path]

Flow per property (DESIGN.md 2.5):
  1. proof step: full build, re-check Props/Cnn.v, Print Assumptions, forbidden scan
  2. per engine: corpus + generated cases -> implementation (fresh gin) and P_impl
  3. same cases -> model inside coqc (vm_compute) -> mismatches
  4. P_impl failures: shrink, known-finding lookup, VIOLATION / KNOWN-FINDING
     disagreements / broken proof without a failing input: search, then
     VIOLATION ... no-failing-input-found
  5. evidence/Cnn.json
"""
import argparse
import importlib
import json
import os
import random
import sys
import time
import traceback

from harness import common as C


class Engine:
  """One correspondence engine.  Subclasses define:
    name, imports, run_fn
    gen(rng, tier) -> case                (JSON-able python data)
    corpus() -> [case]                    (fixed cases that always run first)
    impl(case) -> dict(obs=..., fails=[(kind, detail)], nontrivial=bool, tags=[..])
    to_coq(case) -> str                   (model input term)
    shrink(case) -> iterable of smaller cases
    budget(tier) -> number of generated cases
  """
  name = '?'
  imports = ''
  run_fn = 'run'
  model = True

  def corpus(self):
    return []

  def shrink(self, case):
    return []

  def budget(self, tier):
    return 200 if tier == 'quick' else 2000


def _impl_worker(args):
  modname, ename, cases = args
  mod = importlib.import_module(modname)
  eng = [e for e in mod.ENGINES if e.name == ename][0]
  outs = []
  for c in cases:
    try:
      outs.append(eng.impl(c))
    except Exception as e:  # harness failure: surfaced as a P_impl failure
      outs.append({'obs': C.T('HarnessError', repr(e)), 'nontrivial': False, 'tags': [],
                   'fails': [('harness-error', traceback.format_exc()[-1500:])]})
  return outs


def run_impl_parallel(modname, eng, cases):
  n = len(cases)
  if n == 0:
    return []
  w = C.NCPU if n >= 32 else (min(n, C.NCPU) if getattr(eng, 'parallel_small', False) else 1)
  chunks = [cases[i::w] for i in range(w)]
  res = C.parallel_map(_impl_worker, [(modname, eng.name, ch) for ch in chunks], workers=w)
  outs = [None] * n
  for i in range(w):
    for j, o in enumerate(res[i]):
      outs[i + j * w] = o
  return outs


def shrink_failure(modname, eng, case, kind):
  """Greedy shrink keeping a P_impl failure of the same kind."""
  cur = case
  deadline = time.time() + 20
  for _ in range(200):
    if time.time() > deadline:
      break
    progressed = False
    for cand in eng.shrink(cur):
      try:
        r = eng.impl(cand)
      except Exception:
        continue
      if any(k == kind for k, _ in r['fails']):
        cur, progressed = cand, True
        break
    if not progressed:
      break
  return cur


def shrink_disagreement(eng, case, obs_of):
  cur = case
  deadline = time.time() + 25
  for _ in range(12):
    if time.time() > deadline:
      break
    cands = list(eng.shrink(cur))[:40]
    if not cands:
      break
    pairs = []
    for c in cands:
      try:
        pairs.append((c, obs_of(c)))
      except Exception:
        pass
    if not pairs:
      break
    bad, errs = C.model_mismatches(eng.name + '_shrink', eng.imports, eng.run_fn,
                                   [(eng.to_coq(c), o) for c, o in pairs])
    if errs or not bad:
      break
    cur = pairs[bad[0]][0]
  return cur


def match_known(known, pid, kind, detail, case):
  for k in known.get('known', []):
    if k['property'] != pid:
      continue
    if k.get('kind') != kind:
      continue
    if 'classifier' in k:
      from harness import findings  # pylint: disable=g-import-not-at-top
      if getattr(findings, k['classifier'])(kind, detail, case):
        return k
      continue
    if all(s in json.dumps(C.jsonable([detail, case]), default=repr) for s in k.get('must_contain', [])):
      return k
  return None


def main(argv=None):
  ap = argparse.ArgumentParser()
  ap.add_argument('pid')
  ap.add_argument('--tier', default=os.environ.get('VERIF_TIER', 'quick'))
  ap.add_argument('--replay')
  ap.add_argument('--budget-scale', type=float, default=float(os.environ.get('VERIF_SCALE', '1')))
  a = ap.parse_args(argv)
  pid, tier = a.pid.upper(), a.tier
  seed = int(os.environ.get('VERIF_SEED', '0'))
  modname = 'harness.props.' + pid.lower()
  mod = importlib.import_module(modname)
  t0 = time.time()

  if a.replay:
    return replay(mod, a.replay)

  # source drift (DESIGN 2.4): the modelled code differs from the tree the models were last validated against --
  # not a violation; the quick tier explores more cases on such a tree
  from harness import anchors
  drifted = anchors.drift(C.REPO)
  if drifted and tier == 'quick' and pid not in anchors.NO_SCALE and 'VERIF_SCALE' not in os.environ:
    a.budget_scale *= anchors.SCALE

  known = C.load_known()
  lines = []            # VIOLATION / KNOWN-FINDING lines
  violations = 0
  known_hit = []
  ev_engines = {}
  total_eval = total_nt = 0
  samples = []
  disagreements_checked = 0

  # 1. proof step
  pr = C.proof_step(pid, thorough=(tier == 'thorough'))
  proof_broken = not pr['ok']

  # 2-4. engines
  pimpl_fail_found = False
  disagreement_replays = []
  for eng in mod.ENGINES:
    rng = random.Random('%s/%s/%d' % (pid, eng.name, seed))
    n = int(eng.budget(tier) * a.budget_scale)
    corpus = list(eng.corpus())
    cases = corpus + [eng.gen(rng, tier) for _ in range(n)]
    if hasattr(eng, 'exhaustive') and tier == 'thorough':
      cases += list(eng.exhaustive())
    outs = run_impl_parallel(modname, eng, cases)
    seen, nt, tags = set(), 0, {}
    for c, o in zip(cases, outs):
      h = C.case_hash(c)
      if h not in seen:
        seen.add(h)
        if o['nontrivial']:
          nt += 1
      for tg in o.get('tags', []):
        tags[tg] = tags.get(tg, 0) + 1
    # P_impl failures
    reported = set()
    for c, o in zip(cases, outs):
      for kind, detail in o['fails']:
        if (kind,) in reported and len(reported) > 20:
          continue
        kf = match_known(known, pid, kind, detail, c)
        if kf:
          if kf['id'] not in known_hit:
            known_hit.append(kf['id'])
            lines.append('KNOWN-FINDING: property=%s %s' % (pid, kf['what']))
          continue
        if kind in reported:
          continue
        reported.add(kind)
        small = shrink_failure(modname, eng, c, kind)
        try:
          sobs = eng.impl(small)
        except Exception as e:
          sobs = {'obs': repr(e), 'fails': [(kind, detail)]}
        kf = match_known(known, pid, kind, sobs['fails'][0][1] if sobs['fails'] else detail, small)
        if kf:
          if kf['id'] not in known_hit:
            known_hit.append(kf['id'])
            lines.append('KNOWN-FINDING: property=%s %s' % (pid, kf['what']))
          continue
        path = C.write_replay(pid, {'property': pid, 'engine': eng.name, 'kind': kind,
                                    'failed_predicate': [f for f in sobs['fails']],
                                    'case': small, 'original_case': c,
                                    'impl_observation': sobs['obs']})
        lines.append('VIOLATION property=%s replay=%s' % (pid, os.path.relpath(path, C.VERIF)))
        violations += 1
        pimpl_fail_found = True
    # model correspondence
    mism, errs = [], []
    if eng.model:
      # the harness must survive whatever the implementation does while a case is turned into the model's input
      # (some printers measure the implementation again): such a case is left out of the model run; if the
      # implementation-side predicates reported nothing for it, the broken tie itself is reported
      pairs_idx, terms = [], []
      for i, (c, o) in enumerate(zip(cases, outs)):
        try:
          terms.append((eng.to_coq(c), o['obs']))
          pairs_idx.append(i)
        except Exception:  # pylint: disable=broad-except
          if not o['fails'] and len(disagreement_replays) < 3:
            disagreement_replays.append({'engine': eng.name, 'correspondence': 'corr:%s/model-input-failed' % eng.name,
                                         'case': c, 'errors': [traceback.format_exc()[-1500:]]})
      mism0, errs = C.model_mismatches(eng.name, eng.imports, eng.run_fn, terms)
      mism = [pairs_idx[i] for i in mism0]
      disagreements_checked += len(terms)
      if errs:
        disagreement_replays.append({'engine': eng.name, 'correspondence': 'corr:%s/model-run-failed' % eng.name,
                                     'errors': errs[:3]})
      if mism:
        # examine (up to 6 of) the disagreeing cases: one that a recorded finding does not explain is reported
        for i in mism[:6]:
         try:
          pre = [match_known(known, pid, f[0], f[1], cases[i]) for f in outs[i]['fails']]
          if pre and all(pre):
            small, so = cases[i], outs[i]          # already explained by a recorded finding: no need to shrink
          else:
            small = shrink_disagreement(eng, cases[i], lambda c: eng.impl(c)['obs'])
            so = eng.impl(small)
          kfs = [match_known(known, pid, f[0], f[1], small) for f in so['fails']]
          if kfs and all(kfs):
            # the divergence is the recorded defect itself (the model follows the property there)
            for kf in kfs:
              if kf['id'] not in known_hit:
                known_hit.append(kf['id'])
                lines.append('KNOWN-FINDING: property=%s %s' % (pid, kf['what']))
            continue
          disagreement_replays.append({
              'engine': eng.name, 'correspondence': 'corr:%s/observations' % eng.name,
              'n_disagreeing_cases': len(mism), 'case': small,
              'impl_observation': so['obs'], 'impl_pimpl_fails': so['fails'],
              'model_observation': C.model_eval(eng.name, eng.imports, eng.run_fn, eng.to_coq(small))})
          break
         except Exception:  # pylint: disable=broad-except
          disagreement_replays.append({'engine': eng.name, 'correspondence': 'corr:%s/observations' % eng.name,
                                       'n_disagreeing_cases': len(mism), 'case': cases[i],
                                       'impl_observation': outs[i]['obs'], 'impl_pimpl_fails': outs[i]['fails'],
                                       'errors': [traceback.format_exc()[-1500:]]})
          break
    total_eval += len(cases)
    total_nt += nt
    k = min(2, len(cases))
    samples += [{'engine': eng.name, 'case': c, 'impl_observation': o['obs']}
                for c, o in list(zip(cases, outs))[len(corpus):len(corpus) + k]]
    ev_engines[eng.name] = {'cases': len(cases), 'corpus': len(corpus), 'distinct': len(seen),
                            'distinct_nontrivial': nt, 'tags': tags, 'model_mismatches': len(mism),
                            'model_errors': len(errs), 'rule': getattr(eng, 'rule', '')}

  # broken proof or correspondence without a P_impl failure: search harder, then report
  if (proof_broken or disagreement_replays) and not pimpl_fail_found:
    found = None
    for eng in mod.ENGINES:
      rng = random.Random('%s/%s/%d/search' % (pid, eng.name, seed))
      extra = [eng.gen(rng, 'thorough') for _ in range(int(eng.budget('quick') * 3))]
      for r in disagreement_replays:
        if r.get('engine') == eng.name and 'case' in r:
          extra = list(eng.shrink(r['case'])) + extra
      outs = run_impl_parallel(modname, eng, extra)
      for c, o in zip(extra, outs):
        fl = [f for f in o['fails'] if not match_known(known, pid, f[0], f[1], c)]
        if fl:
          found = (eng, c, o, fl)
          break
      if found:
        break
    if found:
      eng, c, o, fl = found
      small = shrink_failure(modname, eng, c, fl[0][0])
      path = C.write_replay(pid, {'property': pid, 'engine': eng.name, 'kind': fl[0][0],
                                  'failed_predicate': fl, 'case': small,
                                  'impl_observation': eng.impl(small)['obs'],
                                  'triggered_by': disagreement_replays or pr.get('failed_theorem')})
      lines.append('VIOLATION property=%s replay=%s' % (pid, os.path.relpath(path, C.VERIF)))
    else:
      path = C.write_replay(pid, {'property': pid,
                                  'no_longer_checks': ([('theorem', pr.get('failed_theorem'), pr.get('forbidden'),
                                                         pr.get('log', '')[-1500:])] if proof_broken else []) +
                                  [r.get('correspondence') for r in disagreement_replays],
                                  'disagreements': disagreement_replays})
      lines.append('VIOLATION property=%s replay=%s no-failing-input-found' %
                   (pid, os.path.relpath(path, C.VERIF)))
    violations += 1

  tb = list(getattr(mod, 'TRUSTED_BASE', []))
  ev = {
      'property_id': pid, 'tier': tier, 'seed': seed, 'level': getattr(mod, 'LEVEL', 'proof'),
      'wall_s': round(time.time() - t0, 2), 'violations': violations,
      'coverage': {
          'obligations': pr['obligations'], 'discharged': pr['discharged'],
          'theorems': pr['theorems'],
          'print_assumptions': {'closed_under_global_context': pr.get('closed', 0),
                                'axioms': pr.get('axioms_raw', [])},
          'checker_cmd': 'make -C coq (coq_makefile, full .vo build) && coqc -Q coq GinV coq/Props/%s.v' % pid +
                         ('; coqchk -silent -o -Q coq GinV GinV.Props.%s' % pid if tier == 'thorough' else ''),
          'coqchk': {k: pr[k] for k in ('coqchk_rc', 'coqchk_tail', 'coqchk_s') if k in pr},
          'forbidden_vernacular_hits': pr.get('forbidden', []),
          'trusted_base': tb,
          'evaluations': total_eval, 'distinct_nontrivial': total_nt,
          'programs': total_eval, 'disagreements_checked': disagreements_checked,
          'traces_validated_against_impl': disagreements_checked,
          'rule': getattr(mod, 'RULE', ''), 'samples': samples[:6], 'engines': ev_engines,
          'known_findings_hit': known_hit,
          'anchor_drift': drifted[:40], 'budget_scale': a.budget_scale,
          'undischarged': getattr(mod, 'UNDISCHARGED', []),
          'explanation': getattr(mod, 'EXPLANATION', ''),
      },
      'assumptions': getattr(mod, 'ASSUMPTIONS', []),
  }
  C.write_evidence(pid, ev)
  if not violations and not os.environ.get('VERIF_KEEP_WORK'):
    # the generated case files are reproducible from the seed: do not let them pile up (a thorough run writes gigabytes)
    import shutil
    for name in list(ev_engines) + [n + '_shrink' for n in ev_engines]:
      shutil.rmtree(os.path.join(C.WORK, name), ignore_errors=True)
  for l in lines:
    print(l)
  print('%s tier=%s seed=%d theorems=%d/%d cases=%d nontrivial=%d violations=%d wall=%.1fs' % (
      pid, tier, seed, pr['discharged'], pr['obligations'], total_eval, total_nt, violations,
      time.time() - t0))
  return 1 if violations else 0


def replay(mod, path):
  r = json.load(open(path))
  eng = [e for e in mod.ENGINES if e.name == r.get('engine')]
  if not eng or 'case' not in r:
    print(json.dumps(r, indent=1)[:4000])
    return 0
  eng = eng[0]
  o = eng.impl(r['case'])
  print('case:', json.dumps(r['case'])[:2000])
  print('implementation observation:', C.jsonable(o['obs']))
  print('failed predicates:', o['fails'])
  if eng.model:
    print('model observation:', C.model_eval(eng.name, eng.imports, eng.run_fn, eng.to_coq(r['case'])))
  return 1 if o['fails'] else 0


if __name__ == '__main__':
  sys.exit(main())
