"""C12 — finalize locks the configuration; unlock_config always restores the lock."""
from harness import common as C
from harness import ginm
from harness.common import T
from harness.main import Engine
from harness.props import c01

PID = 'C12'
LEVEL = 'proof'
RULE = ('gin-machine/lock: op lists of length 1-15 over finalize, unlock_config blocks (nested up to 3, body '
        'succeeding or raising), bind (3 API paths), register (fresh or already taken selector, own allow/denylist), '
        'interactive_mode blocks, clear, finalize-hook registration (hooks returning '
        'keys in different spellings, conflicting or not, or raising), macro/unknown/REQUIRED bindings; observed '
        'after every op: config_is_locked(), outcome class, raw store. non-trivial = history with a raising '
        'unlock body after a successful finalize, or two hooks touching one parameter.')
TRUSTED_BASE = c01.TRUSTED_BASE
ASSUMPTIONS = ['finalize is called with an empty active scope (see DESIGN.md F16)']

MUTATORS = ('bind', 'bindt', 'pbind', 'register', 'finalize')


def resolve_sel(sel, regs):
  alls = [c['sel'] for c in regs] + ['gin.macro', 'gin.constant', 'gin.singleton']
  m = [x for x in alls if x == sel] or [x for x in alls if x.endswith('.' + sel)]
  return m[0] if len(m) == 1 else None


def split_key(key):
  scope, _, rest = key.rpartition('/')
  sel, _, arg = rest.rpartition('.')
  return scope, sel, arg


def flat(c):
  """flattened values as the finalize hooks see them (dict values, not keys)"""
  if isinstance(c, T):
    if c.tag in ('L', 'T'):
      for a in c.args:
        yield from flat(a)
    elif c.tag == 'D':
      for k, v in c.args:
        yield from flat(v)
    yield c
  else:
    yield c


def builtin_reject(config_dump):
  keys = {(s, q) for s, q, _ in config_dump}
  for s, q, pd in config_dump:
    for p, v in pd:
      for x in flat(v):
        if isinstance(x, T) and x.tag == 'Unk':
          return 'unknown-reference'
        if isinstance(x, T) and x.tag == 'Ref' and x.args[1] == 'gin.macro':
          if ('/'.join(x.args[0]), 'gin.macro') not in keys:
            return 'unbound-macro'
          if not x.args[2]:
            return 'unevaluated-macro'
      if isinstance(v, T) and v.tag == 'Ref' and v.args[1] == 'gin.constant' and v.args[0] == ['gin.REQUIRED']:
        return 'still-required'
  return None


class LockEngine(Engine):
  name = 'gin-lock'
  imports = 'Model.SelectorMap Model.Values Model.Gin Model.GinEngine'
  run_fn = 'run'

  def budget(self, tier):
    return 1000 if tier == 'quick' else 25000

  def corpus(self):
    f = {'sel': 'm.f', 'sig': {'args': ['a', 'b'], 'defaults': [['i', 1], ['i', 2]], 'varargs': False,
                               'kwonly': [], 'varkw': False}, 'allow': [], 'deny': []}
    g = dict(f, sel='n.g')
    return [
        # F1: raising unlock body
        {'regs': [f], 'ops': [['finalize'], ['locked'], ['unlock', [['bind', 'f.a', ['i', 3]], ['raise']]],
                              ['locked'], ['bind', 'f.a', ['i', 4]], ['dumpconfig']]},
        # F2: two hooks, two spellings of one parameter
        {'regs': [f], 'ops': [['hook', ['return', [['f.a', ['i', 1]]]]], ['hook', ['return', [['m.f.a', ['i', 2]]]]],
                              ['finalize'], ['locked'], ['dumpconfig']]},
        {'regs': [f, g], 'ops': [['pbind', 'f.a', ['macro', 'nope']], ['finalize'], ['locked'],
                                 ['pbind', 'nope', ['i', 1]], ['finalize'], ['locked'], ['finalize'],
                                 ['bind', 'g.a', ['i', 1]], ['register', dict(f, sel='z.h')],
                                 ['unlock', [['unlock', [['bind', 'g.a', ['i', 2]], ['locked']]], ['locked'],
                                             ['clear', False], ['locked']]], ['locked'], ['dumpconfig']]},
        {'regs': [f], 'ops': [['pbind', 'f.a', ['macro', 'gin.REQUIRED']], ['finalize'], ['locked'],
                              ['bind', 'f.a', ['i', 1]], ['hook', ['raise', 'KeyError']], ['finalize'], ['locked'],
                              ['dumpconfig'], ['dumpoper']]},
        # a registration under a selector that is already taken: in interactive mode it replaces the configurable, on a
        # locked config it raises like any other (also for a fresh selector), inside an unlock block it is accepted again
        {'regs': [f], 'ops': [['bind', 'f.a', ['i', 3]], ['finalize'], ['locked'],
                              ['interactive', [['register', dict(f, deny=['a'])], ['locked']]], ['locked'],
                              ['interactive', [['register', dict(f, sel='z.h')]]],
                              ['unlock', [['bind', 'f.a', ['i', 5]]]], ['dumpconfig']]},
        {'regs': [f, g], 'ops': [['interactive', [['register', dict(g, allow=['b'])]]], ['bind', 'g.b', ['i', 1]], ['finalize'],
                                 ['unlock', [['interactive', [['register', dict(f, sel='n.g')], ['bind', 'g.a', ['i', 2]]]], ['locked']]],
                                 ['locked'], ['register', g], ['interactive', [['register', g], ['locked']]], ['locked'],
                                 ['clear', False], ['interactive', [['register', dict(f, deny=['b'])]]], ['bind', 'f.a', ['i', 1]],
                                 ['dumpconfig']]},
    ]

  def gen_ops(self, rng, regs, depth, n):
    ops = []
    for _ in range(n):
      r = rng.random()
      c = rng.choice(regs)
      names = ginm.sig_names(c['sig']) or ['a']
      sel = rng.choice(ginm.spellings(c['sel'], regs))
      key = sel + '.' + rng.choice(names)
      if rng.random() < 0.2:
        key = rng.choice(ginm.SCOPES) + '/' + key
      if r < 0.22:
        ops.append(['finalize'])
      elif r < 0.40 and depth < 3:
        body = self.gen_ops(rng, regs, depth + 1, rng.randint(0, 3))
        if rng.random() < 0.4:
          body.insert(rng.randint(0, len(body)), ['raise'] if rng.random() < 0.6 else ['raise', 'base'])
        ops.append(['unlock', body])
      elif r < 0.58:
        v = ginm.gen_plain(rng, 1)
        x = rng.random()
        if x < 0.08:
          v = ['macro', rng.choice(['mm', 'nn', 'gin.REQUIRED'])]
        elif x < 0.12:
          v = ['ref', [rng.choice(['mm', 'nn'])], rng.choice(['macro', 'gin.macro']), True]   # %mm spelled as a reference
        elif x < 0.18:
          v = ['ref', [], 'gin.macro', False]
        elif x < 0.24:
          v = ['l', [['macro', 'mm'], ['i', 1]]]
        kind = rng.choice(['bind', 'pbind', 'bindt'])
        if kind == 'bindt':
          sc, s2, a = split_key(key)
          ops.append(['bindt', sc, s2, a, v])
        elif kind == 'pbind' and ginm.textable(v):
          ops.append(['pbind', key, v])
        else:
          ops.append(['bind', key, v])
      elif r < 0.63:
        ops.append(['pbind', rng.choice(['mm', 'nn']), ginm.gen_plain(rng, 1)])
      elif r < 0.70:
        ops.append(self.gen_register(rng, regs, 0.4))
      elif r < 0.78:
        ops.append(['clear', rng.random() < 0.3])
      elif r < 0.84 and depth < 3:
        # an interactive_mode block: the one state in which a registration under an ALREADY TAKEN selector is accepted
        # (it replaces the configurable) -- unless the configuration is locked
        body = self.gen_ops(rng, regs, depth + 1, rng.randint(0, 2))
        body.insert(rng.randint(0, len(body)), self.gen_register(rng, regs, 0.8))
        if rng.random() < 0.15:
          body.insert(rng.randint(0, len(body)), ['raise'])
        ops.append(['interactive', body])
      elif r < 0.94:
        if rng.random() < 0.15:
          ops.append(['hook', ['raise', rng.choice(['KeyError', 'ValueError'])]])
        else:
          kvs, seen = [], set()
          for _ in range(rng.randint(0, 2)):
            c2 = rng.choice(regs)
            nm = ginm.sig_names(c2['sig']) or ['a']
            k2 = rng.choice(ginm.spellings(c2['sel'], regs)) + '.' + rng.choice(nm[:2])
            if rng.random() < 0.1:
              k2 = 'nosuch.x'
            if k2 not in seen:
              seen.add(k2)
              kvs.append([k2, ginm.gen_plain(rng, 0)])
          ops.append(['hook', ['return', kvs]])
      else:
        ops.append(['locked'])
      if rng.random() < 0.3:
        ops.append(['locked'])
    return ops

  def gen_register(self, rng, regs, taken):
    """a registration of a new probe function, under a fresh selector or (probability `taken`) under the selector of a
    configurable of the setup -- with its own signature and, sometimes, its own allow/denylist"""
    if rng.random() < taken:
      sel = rng.choice(regs)['sel']
    else:
      sel = 'r.' + rng.choice(['u', 'v', 'f'])
    sg = ginm.gen_sig(rng, False, False)
    c = {'sel': sel, 'sig': sg, 'allow': [], 'deny': []}
    names = ginm.sig_names(sg)
    if names and rng.random() < 0.25:
      c['allow' if rng.random() < 0.5 else 'deny'] = rng.sample(names, rng.randint(1, len(names)))
    return ['register', c]

  def gen(self, rng, tier):
    regs = ginm.gen_regs(rng, lists=0.1, allow_req=False, rich=False, sels=['f', 'm.g', 'n.m.g', 'pkg.h'])
    ops = self.gen_ops(rng, regs, 0, rng.randint(1, 12))
    return {'regs': regs, 'ops': ops + [['locked'], ['dumpconfig']]}

  def to_coq(self, case):
    return ginm.case_coq(case)

  def shrink(self, case):
    return ginm.shrink_case(case)

  def impl(self, case):
    m = ginm.Machine()
    obs = m.run(case)
    fails, tags = [], []
    regs = list(case['regs'])
    hooks = []     # user hooks registered so far
    nontrivial = False
    finalized_once = False
    for t in m.trace:
      b, a, k, exc = t['before'], t['after'], t['kind'], t['exc']
      tags.append(k + (':err' if exc else ':ok'))
      if k in MUTATORS and b['locked']:
        if exc is None or a['config'] != b['config'] or a['registry'] != b['registry'] or not a['locked']:
          fails.append(('locked-config-mutated', 'op %r on a locked config: outcome %r, store %s, registry %s, locked after=%r'
                        % (t['op'], exc, 'changed' if a['config'] != b['config'] else 'same',
                           'changed' if a['registry'] != b['registry'] else 'same', a['locked'])))
      if k == 'unlock':
        if a['locked'] != b['locked']:
          fails.append(('unlock-did-not-restore', 'unlock_config block entered with locked=%r left with locked=%r (body %s)'
                        % (b['locked'], a['locked'], 'raised ' + exc if exc else 'returned')))
        if exc and finalized_once and b['locked']:
          nontrivial = True
      if k == 'clear' and exc is None and a['locked']:
        fails.append(('clear-left-locked', ''))
      if k == 'register' and exc is None:
        # (in interactive mode) an accepted registration under a taken selector replaces that configurable
        regs = [x for x in regs if x['sel'] != t['op'][1]['sel']] + [t['op'][1]]
      if k == 'hook':
        hooks.append(t['op'][1])
      if k == 'finalize' and not b['locked']:
        finalized_once = finalized_once or exc is None
        # expected outcome from the property text
        why = builtin_reject(b['config'])
        updates, conflict = {}, None
        if why is None:
          for h in hooks:
            if h[0] == 'raise':
              why = 'hook-raised'
              break
            stop = False
            for key, v in h[1]:
              sc, sel, arg = split_key(key)
              full = resolve_sel(sel, regs)
              if full is None:
                why = 'hook-bad-key'
                stop = True
                break
              c = [x for x in regs if x['sel'] == full]
              if c and arg not in ginm.sig_names(c[0]['sig']) and not c[0]['sig']['varkw']:
                why = 'hook-bad-key'
                stop = True
                break
              if c and ((c[0]['allow'] and arg not in c[0]['allow']) or arg in c[0]['deny']):
                why = 'hook-bad-key'
                stop = True
                break
              if (sc, full, arg) in updates:
                why = 'hook-conflict'
                stop = True
                break
              updates[(sc, full, arg)] = c01.canon_plain(v)
            if stop:
              break
        if sum(1 for h in hooks if h[0] == 'return' and h[1]) >= 2:
          nontrivial = True
        if why is not None:
          if exc is None:
            fails.append(('finalize-accepted-invalid', 'finalize() succeeded although: %s (hooks %r)' % (why, hooks)))
          elif a['locked'] or a['config'] != b['config']:
            fails.append(('rejected-finalize-not-atomic', 'finalize() rejected (%s) but locked=%r store %s' %
                          (why, a['locked'], 'changed' if a['config'] != b['config'] else 'same')))
        else:
          if exc is not None:
            fails.append(('finalize-rejected-valid', 'finalize() raised %s on a valid configuration' % exc))
          elif not a['locked']:
            fails.append(('finalize-did-not-lock', ''))
          else:
            store = {(s, q, p): v for s, q, pd in a['config'] for p, v in pd}
            for kk, v in updates.items():
              if store.get(kk, '<absent>') != v:
                fails.append(('hook-update-not-applied', '%r -> %r, store has %r' % (kk, v, store.get(kk, '<absent>'))))
    fails = m.readback_fails() + fails
    return {'obs': obs, 'fails': fails[:3], 'nontrivial': nontrivial, 'tags': tags}


# ---------------------------------------------------------------- registrations under a selector that is already taken
REREG_SELS = ['m.f', 'm.g', 'n.k']
REREG_PARAMS = ['a', 'b', 'c']
REREG_FORMS = ('external', 'configurable', 'register')


class ReRegEngine(Engine):
  """Histories whose registrations use a fixed pool of Python objects (two functions and a class), so that the SAME object
  can be registered again under the selector it already has (with other allow/denylists, through another registration
  API), or an object under the selector of another one (accepted in interactive mode only).  gin-lock cannot say this:
  every registration of the Gin-machine defines a new probe function.  Implementation only; the predicate is written from
  the property text: (1) the lock is the automaton finalize / clear_config / unlock_config of the text, not Gin's flag;
  (2) a registration attempted while that automaton is locked raises, whatever the selector and the object; (3) it
  changes nothing: the same history with those attempts left out gives the same outcome for every other operation, the
  same config_str, the same function (receiving the same values) behind every selector, and the same set of parameters
  that can be bound afterwards."""
  name = 'locked-reregistration'
  model = False
  rule = ('lock/re-registration: histories of 2-12 ops over finalize, unlock_config and interactive_mode blocks (nested, '
          'body raising or not), clear, bind and registrations of two functions and a class from a fixed pool (3 APIs, '
          'own or foreign selector, allow/denylists); every registration on a locked config raises, and erasing those '
          'attempts from the history is unobservable (outcomes, config_str, resolved callables, bindable parameters). '
          'non-trivial = a registration under an already taken selector attempted on a locked config.')

  def budget(self, tier):
    return 150 if tier == 'quick' else 4000

  @staticmethod
  def reg(obj, sel, form='external', allow=(), deny=()):
    return ['reg', obj, sel, form, list(allow), list(deny)]

  def corpus(self):
    R = self.reg
    return [
        # the same function again under its own selector, with a new denylist, on a locked config
        {'ops': [R(0, 0), ['bind', 0, 'a', 2], ['finalize'], R(0, 0, deny=['a']), ['unlock', [['bind', 0, 'a', 5]]],
                 R(2, 2)]},
        # interactive mode: another function under a taken selector, on a locked config; then again after clear_config
        {'ops': [R(0, 0, 'configurable'), R(1, 1, 'register'), ['bind', 0, 'b', 1], ['finalize'],
                 ['interactive', [R(1, 0)]], ['unlock', [['interactive', [R(1, 0, allow=['a'])]]]],
                 ['interactive', [R(0, 0)]], ['clear'], R(1, 1, 'configurable', deny=['c'])]},
        # a class registered again through the non-mutating APIs; a raising unlock body in between
        {'ops': [R(2, 2), R(0, 1, 'register', allow=['a', 'b']), ['finalize'], ['unlock', [R(2, 2, 'register', deny=['b']), ['raise']]],
                 R(2, 2, 'register', allow=['a']), R(0, 1, 'configurable'), ['finalize'], ['bind', 2, 'b', 3]]},
    ]

  def gen_ops(self, rng, depth, n):
    ops = []
    for _ in range(n):
      r = rng.random()
      if r < 0.22:
        ops.append(['finalize'])
      elif r < 0.60:
        obj = rng.randrange(3)
        sel = obj if rng.random() < 0.7 else rng.randrange(3)
        form = rng.choice(REREG_FORMS)
        if obj == 2 and form == 'configurable':
          form = 'external'     # @gin.configurable rewrites the class itself; applied twice it is no re-registration
        allow, deny = [], []
        x = rng.random()
        if x < 0.3:
          deny = rng.sample(REREG_PARAMS, rng.randint(1, 2))
        elif x < 0.5:
          allow = rng.sample(REREG_PARAMS, rng.randint(1, 2))
        ops.append(self.reg(obj, sel, form, allow, deny))
      elif r < 0.72 and depth < 2:
        body = self.gen_ops(rng, depth + 1, rng.randint(1, 3))
        if rng.random() < 0.3:
          body.insert(rng.randint(0, len(body)), ['raise'])
        ops.append(['unlock', body])
      elif r < 0.84 and depth < 2:
        ops.append(['interactive', self.gen_ops(rng, depth + 1, rng.randint(1, 2))])
      elif r < 0.88:
        ops.append(['clear'])
      else:
        ops.append(['bind', rng.randrange(3), rng.choice(REREG_PARAMS), rng.randint(1, 9)])
    return ops

  def gen(self, rng, tier):
    setup = [self.reg(i, i, rng.choice(('external', 'register') if i == 2 else REREG_FORMS))
             for i in rng.sample(range(3), rng.randint(1, 3))]
    return {'ops': setup + self.gen_ops(rng, 0, rng.randint(2, 9))}

  def shrink(self, case):
    for ops in ginm.shrink_ops(case['ops']):
      yield {'ops': ops}

  # -- one run on a fresh gin; `erase`: leave out the registrations attempted while the automaton says locked
  def run(self, case, erase):
    gin = C.fresh_gin()
    ns = {}
    exec('def fn0(a=0, b=0, c=0):\n  return ("fn0", a, b, c)\n'     # pylint: disable=exec-used
         'def fn1(a=0, b=0, c=0):\n  return ("fn1", a, b, c)\n'
         'class Cls2(object):\n  def __init__(self, a=0, b=0, c=0):\n    self.got = ("Cls2", a, b, c)\n', ns)
    pool = [ns['fn0'], ns['fn1'], ns['Cls2']]
    st = {'locked': False}          # the automaton of the property text
    events, attempts, flag_fails = [], [], []

    def probe():
      out = []
      for sel in REREG_SELS:
        try:
          r = gin.get_configurable(sel)()
          out.append([sel, list(getattr(r, 'got', r))])
        except Exception as e:  # pylint: disable=broad-except
          out.append([sel, 'raised ' + type(e).__name__])
      return out

    def do_reg(op):
      _, obj, sel, form, allow, deny = op
      module, name = REREG_SELS[sel].split('.')
      kw = dict(module=module, allowlist=allow or None, denylist=deny or None)
      if form == 'external':
        gin.external_configurable(pool[obj], name, **kw)
      elif form == 'configurable':
        gin.configurable(name, **kw)(pool[obj])
      else:
        gin.register(name, **kw)(pool[obj])

    def step(op, path):
      k = op[0]
      if k == 'reg' and st['locked']:
        if erase:
          return
        # the program catches what the attempt raises and goes on (so that leaving the attempt out leaves the rest as it is)
        before = (gin.config_str(), probe())
        exc = None
        try:
          do_reg(op)
        except Exception as e:  # pylint: disable=broad-except
          exc = type(e).__name__
        attempts.append({'at': path, 'op': op, 'exc': exc, 'flag_after': bool(gin.config_is_locked()),
                         'same': (gin.config_str(), probe()) == before,
                         'taken': any(c[0] == REREG_SELS[op[2]] and isinstance(c[1], list) for c in before[1])})
        return
      exc = None
      try:
        if k == 'reg':
          do_reg(op)
        elif k == 'finalize':
          gin.finalize()
          st['locked'] = True
        elif k == 'clear':
          gin.clear_config()
          st['locked'] = False
        elif k == 'bind':
          gin.bind_parameter('%s.%s' % (REREG_SELS[op[1]], op[2]), op[3])
        elif k == 'raise':
          raise KeyError('boom')
        elif k in ('unlock', 'interactive'):
          saved = st['locked']
          try:
            with (gin.unlock_config() if k == 'unlock' else gin.config.interactive_mode()):
              if k == 'unlock':
                st['locked'] = False
              for i, o in enumerate(op[1]):
                step(o, path + [i])
          finally:
            if k == 'unlock':
              st['locked'] = saved
      except Exception as e:  # pylint: disable=broad-except
        exc = type(e).__name__
        raise
      finally:
        events.append([path, k, exc, st['locked']])
        if bool(gin.config_is_locked()) != st['locked']:
          flag_fails.append((path, k, st['locked'], bool(gin.config_is_locked())))

    for i, op in enumerate(case['ops']):
      try:
        step(op, [i])
      except Exception:  # pylint: disable=broad-except
        pass
    final = {'config_str': gin.config_str(), 'locked': bool(gin.config_is_locked()), 'calls': probe()}
    # what can be bound afterwards (on an emptied, unlocked configuration), and what the callables then receive
    gin.clear_config()
    bindable = []
    for sel in REREG_SELS:
      for p in REREG_PARAMS:
        try:
          gin.bind_parameter('%s.%s' % (sel, p), 7)
          bindable.append([sel, p, True])
        except Exception as e:  # pylint: disable=broad-except
          bindable.append([sel, p, type(e).__name__])
    final['bindable'] = bindable
    final['calls_after'] = probe()
    return events, attempts, flag_fails, final

  def impl(self, case):
    events, attempts, flag_fails, final = self.run(case, erase=False)
    fails = []
    for a in attempts:
      if a['exc'] is None or not a['same'] or not a['flag_after']:
        fails.append(('locked-config-mutated', 'op %d%s: registration %r attempted after finalize (no clear_config, outside any '
                      'unlock_config block): outcome %s, config_str and the callables behind the selectors %s, locked after=%r'
                      % (a['at'][0], ' (nested %r)' % a['at'][1:] if a['at'][1:] else '', a['op'],
                         a['exc'] or 'accepted', 'unchanged' if a['same'] else 'CHANGED', a['flag_after'])))
    for path, k, want, got in flag_fails[:1]:
      fails.append(('lock-flag', 'after op %r (%s) the text says locked=%r, config_is_locked()=%r' % (path, k, want, got)))
    if attempts:
      events2, _, _, final2 = self.run(case, erase=True)
      if events != events2:
        d = [(x, y) for x, y in zip(events, events2) if x != y] or [(events, events2)]
        fails.append(('locked-registration-observable', 'leaving out the registrations attempted on the locked config changes '
                      'the outcome of another operation ([path, op, exception, locked]): with them %r, without them %r' % d[0]))
      for key in final:
        if final[key] != final2[key]:
          fails.append(('locked-registration-observable', 'leaving out the registrations attempted on the locked config '
                        'changes %s: %r, without them %r' % (key, final[key], final2[key])))
    nontrivial = any(a['taken'] for a in attempts)
    obs = [[e[1], e[2], e[3]] for e in events] + [[a['op'], a['exc']] for a in attempts] + [final['config_str']]
    tags = ['%s:%s' % (e[1], 'err' if e[2] else 'ok') for e in events] + \
           ['locked-reg:%s' % ('err' if a['exc'] else 'ok') for a in attempts]
    return {'obs': obs, 'fails': fails[:3], 'nontrivial': nontrivial, 'tags': tags}


# ---------------------------------------------------------------- registering a class that owns gin-registered methods
MREG_MOD = 'lkm'
MREG_SRC = '''
import gin
def fn0(a=0, b=0):
  return ("fn0", a, b)
class K0(object):
  def __init__(self, a=0, b=0):
    self.got = ("K0", a, b)
  @gin.register
  def m(self, x=0, y=0):
    return ("K0.m", x, y)
  @gin.register(denylist=['y'])
  def n(self, x=0, y=0):
    return ("K0.n", x, y)
class K1(object):
  def __init__(self, a=0, b=0):
    self.got = ("K1", a, b)
  @gin.register
  def p(self, x=0, y=0):
    return ("K1.p", x, y)
  @staticmethod
  @gin.register
  def s(x=0, y=0):
    return ("K1.s", x, y)
  def plain(self, x=0):
    return ("K1.plain", x)
class K2(object):
  def __init__(self, a=0, b=0):
    self.got = ("K2", a, b)
  def plain(self, x=0):
    return ("K2.plain", x)
class K3(K0):
  @gin.register
  def q(self, x=0, y=0):
    return ("K3.q", x, y)
'''
MREG_OBJS = ['fn0', 'K0', 'K1', 'K2', 'K3']
MREG_METHODS = {'K0': ['m', 'n'], 'K1': ['p', 's'], 'K2': [], 'K3': ['m', 'n', 'q']}      # gin-registered, own or inherited
MREG_OWN = [MREG_MOD + '.' + o for o in MREG_OBJS]      # the selector each object gets by default
MREG_SELS = MREG_OWN + ['q.Z']                          # selectors a registration may ask for
MREG_FORMS = ('external', 'register', 'dynamic')
MREG_HEADER = 'from __gin__ import dynamic_registration\nimport %s\n' % MREG_MOD


def _mreg_method_sels():
  """every spelling under which a registered method may be known: the provisional module-level selector it has before its
  class is registered, and the class-level selector under each selector its class (or a subclass) may be registered with"""
  out = []
  for meth in ['m', 'n', 'p', 's', 'q']:
    owners = [k for k in MREG_OBJS[1:] if meth in MREG_METHODS[k]]
    out += [(meth, owners[0]), (MREG_MOD + '.' + meth, owners[0])]
    for k in owners:
      out += [('%s.%s' % (k, meth), k), ('%s.%s.%s' % (MREG_MOD, k, meth), k)]
    out += [('Z.' + meth, owners[0]), ('q.Z.' + meth, owners[0])]
  return out


MREG_METHOD_SELS = _mreg_method_sels()
MREG_CLASS_SELS = MREG_OWN + ['q.Z'] + MREG_OBJS
MREG_BIND_KEYS = ([s + '.' + p for s, _ in MREG_METHOD_SELS for p in ('x', 'y')] +
                  [s + '.' + p for s in MREG_CLASS_SELS for p in ('a', 'b')])


class MethodRegEngine(Engine):
  """Lock x method registration.  A class whose body holds @gin.register'ed methods: the methods are registered while the class
  body runs, i.e. before the class, under a provisional module-level selector (lkm.m), and bindings can be made under that
  selector (m.x = 5).  Registering the class afterwards (external_configurable / register / dynamic registration from a
  config text) moves the methods -- and their bindings -- under the class selector (lkm.K0.m).  gin-lock and
  locked-reregistration only register plain functions and a method-less class.  Here the histories register such classes
  (also a subclass inheriting registered methods, a class with a registered static method, a method-less class and a
  function) around finalize / unlock_config / interactive_mode / clear_config.  Implementation only; the predicate is the one
  of locked-reregistration, written from the property text, with a wider observation: (1) the lock is the automaton of
  the text; (2) a registration attempted while it is locked raises; (3) it changes nothing: config_str,
  operative_config_str, get_bindings under every spelling of every method and class selector, the callable behind each of
  them and the values it receives (methods of instances built through the class selectors included) are the same right
  before and right after the attempt, and the same history with those attempts left out is indistinguishable: same outcome
  of every other operation, same final observation, same parameters that can be bound afterwards; (4) a bind attempted
  while locked raises."""
  name = 'locked-method-registration'
  model = False
  rule = ('lock/method registration: histories of 2-12 ops over finalize, unlock_config and interactive_mode blocks (nested, '
          'body raising or not), clear, bind / parse of a binding under any spelling of a method or class selector '
          '(provisional module-level or class-level), and registrations (external_configurable, register, dynamic '
          'registration from a config text; own or foreign selector, allow/denylists) of a function, two classes owning '
          '@gin.register\'ed methods (one static), a subclass inheriting them and a method-less class; every registration on '
          'a locked config raises and is unobservable (config_str, operative_config_str, get_bindings and the callable behind '
          'every selector spelling before/after the attempt; erasing the attempts from the history changes no outcome, no '
          'final observation, no bindable parameter). non-trivial = a class owning registered methods that is not registered '
          'yet is registered on a locked config while one of its methods has a binding.')

  def budget(self, tier):
    return 120 if tier == 'quick' else 4000

  @staticmethod
  def reg(obj, sel=None, form='external', allow=(), deny=()):
    return ['reg', obj, obj if sel is None else sel, form, list(allow), list(deny)]

  def corpus(self):
    R = self.reg
    return [
        # a binding under the provisional selector of a method, then its class registered on the locked config (2 APIs)
        {'dyn': False, 'ops': [['bind', 'm.x', 5], ['finalize'], R(1), R(1, form='register'), ['unlock', [['bind', 'm.x', 6]]]]},
        # the same through dynamic registration (a config text naming the class), the import header being recorded already;
        # a subclass inheriting the methods; a foreign selector; the registration accepted later inside an unlock block
        {'dyn': True, 'ops': [['bind', 'lkm.n.x', 2], ['bind', 'p.y', 3, 'parse'], ['finalize'], R(1, form='dynamic'),
                              R(4, form='register'), R(2, 5), ['unlock', [R(2, 5), ['raise']]], R(1, form='dynamic'),
                              ['bind', 'q.Z.p.x', 4]]},
        # a static method; registered, cleared, locked again; interactive mode on a locked config
        {'dyn': False, 'ops': [R(0), ['bind', 's.x', 1], ['bind', 'q.y', 2], ['finalize'], ['interactive', [R(2, 1)]],
                               ['unlock', [R(4)]], R(2, deny=['a']), ['clear'], ['bind', 'K1.s.x', 3], ['bind', 's.y', 4],
                               ['finalize'], R(2, form='register', allow=['a']), R(3), R(1)]},
    ]

  def gen_ops(self, rng, depth, n, dyn):
    ops = []
    for _ in range(n):
      r = rng.random()
      if r < 0.22:
        ops.append(['finalize'])
      elif r < 0.52:
        obj = rng.choice([0, 1, 1, 2, 2, 3, 4])
        sel = obj if rng.random() < 0.75 else rng.randrange(len(MREG_SELS))
        form = rng.choice(MREG_FORMS if dyn else MREG_FORMS[:2])
        allow, deny = [], []
        x = rng.random()
        if x < 0.15:
          deny = rng.sample(['a', 'b'], rng.randint(1, 2))
        elif x < 0.25:
          allow = rng.sample(['a', 'b'], rng.randint(1, 2))
        ops.append(self.reg(obj, sel, form, allow, deny))
      elif r < 0.64 and depth < 2:
        body = self.gen_ops(rng, depth + 1, rng.randint(1, 3), dyn)
        if rng.random() < 0.3:
          body.insert(rng.randint(0, len(body)), ['raise'])
        ops.append(['unlock', body])
      elif r < 0.72 and depth < 2:
        ops.append(['interactive', self.gen_ops(rng, depth + 1, rng.randint(1, 2), dyn)])
      elif r < 0.76:
        ops.append(['clear'])
      else:
        ops.append(self.gen_bind(rng))
    return ops

  @staticmethod
  def gen_bind(rng):
    if rng.random() < 0.75:
      sel, _ = rng.choice(MREG_METHOD_SELS)
      if rng.random() < 0.5:
        sel = rng.choice(['', MREG_MOD + '.']) + rng.choice(['m', 'n', 'p', 's', 'q'])   # a provisional spelling
      key = sel + '.' + rng.choice(['x', 'x', 'y'])
    else:
      key = rng.choice(MREG_CLASS_SELS) + '.' + rng.choice(['a', 'b'])
    op = ['bind', key, rng.randint(1, 9)]
    if rng.random() < 0.25:
      op.append('parse')
    return op

  def gen(self, rng, tier):
    dyn = rng.random() < 0.4
    # bindings under the provisional selectors first: that is what a later class registration has to move (or not touch)
    ops = [self.gen_bind(rng) for _ in range(rng.randint(0, 2))]
    if rng.random() < 0.5:
      # ... and the lock taken early, while most classes are not registered yet
      ops += self.gen_ops(rng, 0, rng.randint(0, 1), dyn) + [['finalize']]
    return {'dyn': dyn, 'ops': ops + self.gen_ops(rng, 0, rng.randint(2, 9), dyn)}

  def shrink(self, case):
    for ops in ginm.shrink_ops(case['ops']):
      yield {'dyn': case['dyn'], 'ops': ops}

  # -- one run on a fresh gin; `erase`: leave out the registrations attempted while the automaton says locked
  def run(self, case, erase):
    import sys    # pylint: disable=g-import-not-at-top
    import types  # pylint: disable=g-import-not-at-top
    gin = C.fresh_gin()
    mod = types.ModuleType(MREG_MOD)
    sys.modules[MREG_MOD] = mod
    exec(MREG_SRC, mod.__dict__)  # pylint: disable=exec-used
    pool = [getattr(mod, o) for o in MREG_OBJS]
    if case.get('dyn'):
      gin.parse_config(MREG_HEADER)    # the imports are known (and shown by config_str) before anything is locked
    st = {'locked': False}            # the automaton of the property text
    events, attempts, flag_fails = [], [], []
    registered = set()                # objects whose registration was accepted (clear_config does not unregister)

    def norm(v):
      if isinstance(v, (tuple, list)):
        return [norm(x) for x in v]
      if isinstance(v, (int, str, bool)) or v is None:
        return v
      if hasattr(v, 'got'):
        return ['obj', norm(v.got)]
      return '<%s>' % type(v).__name__

    def attempt(f):
      try:
        return norm(f())
      except Exception as e:  # pylint: disable=broad-except
        return 'raised ' + type(e).__name__

    def probe():
      out = []
      for sel, owner in MREG_METHOD_SELS:
        out.append([sel, attempt(lambda: sorted(gin.get_bindings(sel).items())),
                    attempt(lambda: gin.get_configurable(sel)(*(() if sel.endswith('.s') or sel == 's' else (getattr(mod, owner)(),))))])
      for sel in MREG_CLASS_SELS:
        row = [sel, attempt(lambda: sorted(gin.get_bindings(sel).items()))]
        try:
          inst = gin.get_configurable(sel)()
          row.append(norm(inst))
          for meth in ('m', 'n', 'p', 's', 'q', 'plain'):
            if hasattr(inst, meth):
              row.append([meth, attempt(getattr(inst, meth))])
        except Exception as e:  # pylint: disable=broad-except
          row.append('raised ' + type(e).__name__)
        out.append(row)
      return out

    def snapshot():
      cs = attempt(gin.config_str)
      pr = probe()
      return {'config_str': cs, 'probe': pr, 'config_str_after_probe': attempt(gin.config_str),
              'operative_config_str': attempt(gin.operative_config_str)}

    def do_reg(op):
      _, obj, sel, form, allow, deny = op
      module, _, name = MREG_SELS[sel].rpartition('.')
      kw = dict(module=module, allowlist=allow or None, denylist=deny or None)
      if form == 'external':
        gin.external_configurable(pool[obj], name, **kw)
      elif form == 'register':
        gin.register(name, **kw)(pool[obj])
      elif form == 'configurable':
        gin.configurable(name, **kw)(pool[obj])
      else:
        # a config text that names the object: a reference for a class, a binding for the function
        gin.parse_config(MREG_HEADER + ('%s.fn0.a = 1\n' % MREG_MOD if obj == 0 else
                                        '%s.fn0.b = @%s.%s()\n' % (MREG_MOD, MREG_MOD, MREG_OBJS[obj])))

    def step(op, path):
      k = op[0]
      if k == 'reg' and st['locked']:
        # the program catches what the attempt raises and goes on (so that leaving the attempt out leaves the rest as it is)
        before = snapshot()
        exc = None
        if not erase:
          try:
            do_reg(op)
          except Exception as e:  # pylint: disable=broad-except
            exc = type(e).__name__
        after = snapshot()
        owned = MREG_METHODS.get(MREG_OBJS[op[1]], [])
        bound = any(isinstance(b, list) and b for s, b, _ in before['probe'][:len(MREG_METHOD_SELS)]
                    if s.rpartition('.')[2] in owned)
        attempts.append({'at': path, 'op': op, 'exc': exc, 'flag_after': bool(gin.config_is_locked()),
                         'changed': [key for key in before if before[key] != after[key]],
                         'before': before, 'after': after,
                         'nontrivial': bool(owned) and op[1] not in registered and bound})
        return
      exc = None
      try:
        if k == 'reg':
          do_reg(op)
          registered.add(op[1])
        elif k == 'finalize':
          gin.finalize()
          st['locked'] = True
        elif k == 'clear':
          gin.clear_config()
          st['locked'] = False
          if case.get('dyn'):
            # clear_config forgets the imports as well: record them again while nothing is locked.  (An import statement is
            # neither a binding nor a registration: parsed on a locked config it is accepted and shown by config_str.  The
            # header is kept recorded throughout, so that the texts used for dynamic registration add no import.)
            gin.parse_config(MREG_HEADER)
        elif k == 'bind':
          if op[3:] == ['parse']:
            gin.parse_config('%s = %d\n' % (op[1], op[2]))
          else:
            gin.bind_parameter(op[1], op[2])
        elif k == 'raise':
          raise KeyError('boom')
        elif k in ('unlock', 'interactive'):
          saved = st['locked']
          try:
            with (gin.unlock_config() if k == 'unlock' else gin.config.interactive_mode()):
              if k == 'unlock':
                st['locked'] = False
              for i, o in enumerate(op[1]):
                step(o, path + [i])
          finally:
            if k == 'unlock':
              st['locked'] = saved
      except Exception as e:  # pylint: disable=broad-except
        exc = type(e).__name__
        raise
      finally:
        events.append([path, k, exc, st['locked']])
        if bool(gin.config_is_locked()) != st['locked']:
          flag_fails.append((path, k, st['locked'], bool(gin.config_is_locked())))

    for i, op in enumerate(case['ops']):
      was_locked = st['locked']
      try:
        step(op, [i])
      except Exception:  # pylint: disable=broad-except
        pass
      else:
        if op[0] == 'bind' and was_locked:
          flag_fails.append(([i], 'bind accepted', True, bool(gin.config_is_locked())))
    final = snapshot()
    final['locked'] = bool(gin.config_is_locked())
    # what can be bound afterwards (on an emptied, unlocked configuration), and what the callables then receive
    gin.clear_config()
    bindable = []
    for key in MREG_BIND_KEYS:
      try:
        gin.bind_parameter(key, 7)
        bindable.append([key, True])
      except Exception as e:  # pylint: disable=broad-except
        bindable.append([key, type(e).__name__])
    final['bindable'] = bindable
    final['calls_after'] = probe()
    return events, attempts, flag_fails, final

  @staticmethod
  def diff(a, b):
    """first differing entry of two observations (lists of rows / strings)"""
    if isinstance(a, list) and isinstance(b, list) and len(a) == len(b):
      for x, y in zip(a, b):
        if x != y:
          return '%r instead of %r' % (x, y)
    return '%r instead of %r' % (a, b)

  def impl(self, case):
    events, attempts, flag_fails, final = self.run(case, erase=False)
    fails = []
    for a in attempts:
      if a['exc'] is None or a['changed'] or not a['flag_after']:
        what = '; '.join('%s: %s' % (key, self.diff(a['after'][key], a['before'][key])) for key in a['changed'][:2])
        fails.append(('locked-config-mutated', 'op %d%s: registration %r attempted after finalize (no clear_config, outside any '
                      'unlock_config block): outcome %s, locked after=%r, observation %s'
                      % (a['at'][0], ' (nested %r)' % a['at'][1:] if a['at'][1:] else '', a['op'],
                         a['exc'] or 'accepted', a['flag_after'], ('CHANGED -- ' + what) if a['changed'] else 'unchanged')))
    for path, k, want, got in flag_fails[:1]:
      fails.append(('lock-flag', 'after op %r (%s) the text says locked=%r, config_is_locked()=%r' % (path, k, want, got)))
    if attempts:
      events2, _, _, final2 = self.run(case, erase=True)
      if events != events2:
        d = [(x, y) for x, y in zip(events, events2) if x != y] or [(events, events2)]
        fails.append(('locked-registration-observable', 'leaving out the registrations attempted on the locked config changes '
                      'the outcome of another operation ([path, op, exception, locked]): with them %r, without them %r' % d[0]))
      for key in final:
        if final[key] != final2[key]:
          fails.append(('locked-registration-observable', 'leaving out the registrations attempted on the locked config '
                        'changes %s: %s' % (key, self.diff(final[key], final2[key]))))
    nontrivial = any(a['nontrivial'] for a in attempts)
    obs = [[e[1], e[2], e[3]] for e in events] + [[a['op'], a['exc']] for a in attempts] + [final['config_str']]
    tags = ['%s:%s' % (e[1], 'err' if e[2] else 'ok') for e in events] + \
           ['locked-reg:%s' % ('err' if a['exc'] else 'ok') for a in attempts]
    return {'obs': obs, 'fails': fails[:3], 'nontrivial': nontrivial, 'tags': tags}


ENGINES = [LockEngine(), ReRegEngine(), MethodRegEngine()]
