"""C12 — finalize locks the configuration; unlock_config always restores the lock."""
from harness import common as C
from harness import ginm
from harness.common import T
from harness.main import Engine
from harness.props import c01

PID = 'C12'
LEVEL = 'proof'
RULE = ('gin-machine/lock: op lists of length 1-15 over finalize, unlock_config blocks (nested up to 3, body '
        'succeeding or raising), bind (3 API paths), register, clear, finalize-hook registration (hooks returning '
        'keys in different spellings, conflicting or not, or raising), macro/unknown/REQUIRED bindings; observed '
        'after every op: config_is_locked(), outcome class, raw store. non-trivial = history with a raising '
        'unlock body after a successful finalize, or two hooks touching one parameter.')
TRUSTED_BASE = c01.TRUSTED_BASE
ASSUMPTIONS = ['finalize is called with an empty active scope (see DESIGN.md F16)']

MUTATORS = ('bind', 'bindt', 'pbind', 'register', 'finalize')


def resolve_sel(sel, regs):
  alls = [c['sel'] for c in regs] + ['gin.macro', 'gin.constant', 'gin.singleton']
  m = [x for x in alls if x == sel] or [x for x in alls if x.endswith('.' + sel)]
  return m[0] if len(m) == 1 else None


def split_key(key):
  scope, _, rest = key.rpartition('/')
  sel, _, arg = rest.rpartition('.')
  return scope, sel, arg


def flat(c):
  """flattened values as the finalize hooks see them (dict values, not keys)"""
  if isinstance(c, T):
    if c.tag in ('L', 'T'):
      for a in c.args:
        yield from flat(a)
    elif c.tag == 'D':
      for k, v in c.args:
        yield from flat(v)
    yield c
  else:
    yield c


def builtin_reject(config_dump):
  keys = {(s, q) for s, q, _ in config_dump}
  for s, q, pd in config_dump:
    for p, v in pd:
      for x in flat(v):
        if isinstance(x, T) and x.tag == 'Unk':
          return 'unknown-reference'
        if isinstance(x, T) and x.tag == 'Ref' and x.args[1] == 'gin.macro':
          if ('/'.join(x.args[0]), 'gin.macro') not in keys:
            return 'unbound-macro'
          if not x.args[2]:
            return 'unevaluated-macro'
      if isinstance(v, T) and v.tag == 'Ref' and v.args[1] == 'gin.constant' and v.args[0] == ['gin.REQUIRED']:
        return 'still-required'
  return None


class LockEngine(Engine):
  name = 'gin-lock'
  imports = 'Model.SelectorMap Model.Values Model.Gin Model.GinEngine'
  run_fn = 'run'

  def budget(self, tier):
    return 1000 if tier == 'quick' else 25000

  def corpus(self):
    f = {'sel': 'm.f', 'sig': {'args': ['a', 'b'], 'defaults': [['i', 1], ['i', 2]], 'varargs': False,
                               'kwonly': [], 'varkw': False}, 'allow': [], 'deny': []}
    g = dict(f, sel='n.g')
    return [
        # F1: raising unlock body
        {'regs': [f], 'ops': [['finalize'], ['locked'], ['unlock', [['bind', 'f.a', ['i', 3]], ['raise']]],
                              ['locked'], ['bind', 'f.a', ['i', 4]], ['dumpconfig']]},
        # F2: two hooks, two spellings of one parameter
        {'regs': [f], 'ops': [['hook', ['return', [['f.a', ['i', 1]]]]], ['hook', ['return', [['m.f.a', ['i', 2]]]]],
                              ['finalize'], ['locked'], ['dumpconfig']]},
        {'regs': [f, g], 'ops': [['pbind', 'f.a', ['macro', 'nope']], ['finalize'], ['locked'],
                                 ['pbind', 'nope', ['i', 1]], ['finalize'], ['locked'], ['finalize'],
                                 ['bind', 'g.a', ['i', 1]], ['register', dict(f, sel='z.h')],
                                 ['unlock', [['unlock', [['bind', 'g.a', ['i', 2]], ['locked']]], ['locked'],
                                             ['clear', False], ['locked']]], ['locked'], ['dumpconfig']]},
        {'regs': [f], 'ops': [['pbind', 'f.a', ['macro', 'gin.REQUIRED']], ['finalize'], ['locked'],
                              ['bind', 'f.a', ['i', 1]], ['hook', ['raise', 'KeyError']], ['finalize'], ['locked'],
                              ['dumpconfig'], ['dumpoper']]},
    ]

  def gen_ops(self, rng, regs, depth, n):
    ops = []
    for _ in range(n):
      r = rng.random()
      c = rng.choice(regs)
      names = ginm.sig_names(c['sig']) or ['a']
      sel = rng.choice(ginm.spellings(c['sel'], regs))
      key = sel + '.' + rng.choice(names)
      if rng.random() < 0.2:
        key = rng.choice(ginm.SCOPES) + '/' + key
      if r < 0.22:
        ops.append(['finalize'])
      elif r < 0.40 and depth < 3:
        body = self.gen_ops(rng, regs, depth + 1, rng.randint(0, 3))
        if rng.random() < 0.4:
          body.insert(rng.randint(0, len(body)), ['raise'] if rng.random() < 0.6 else ['raise', 'base'])
        ops.append(['unlock', body])
      elif r < 0.58:
        v = ginm.gen_plain(rng, 1)
        x = rng.random()
        if x < 0.08:
          v = ['macro', rng.choice(['mm', 'nn', 'gin.REQUIRED'])]
        elif x < 0.12:
          v = ['ref', [rng.choice(['mm', 'nn'])], rng.choice(['macro', 'gin.macro']), True]   # %mm spelled as a reference
        elif x < 0.18:
          v = ['ref', [], 'gin.macro', False]
        elif x < 0.24:
          v = ['l', [['macro', 'mm'], ['i', 1]]]
        kind = rng.choice(['bind', 'pbind', 'bindt'])
        if kind == 'bindt':
          sc, s2, a = split_key(key)
          ops.append(['bindt', sc, s2, a, v])
        elif kind == 'pbind' and ginm.textable(v):
          ops.append(['pbind', key, v])
        else:
          ops.append(['bind', key, v])
      elif r < 0.63:
        ops.append(['pbind', rng.choice(['mm', 'nn']), ginm.gen_plain(rng, 1)])
      elif r < 0.70:
        ops.append(['register', {'sel': 'r.' + rng.choice(['u', 'v', 'f']), 'sig': ginm.gen_sig(rng, False, False),
                                 'allow': [], 'deny': []}])
      elif r < 0.78:
        ops.append(['clear', rng.random() < 0.3])
      elif r < 0.92:
        if rng.random() < 0.15:
          ops.append(['hook', ['raise', rng.choice(['KeyError', 'ValueError'])]])
        else:
          kvs, seen = [], set()
          for _ in range(rng.randint(0, 2)):
            c2 = rng.choice(regs)
            nm = ginm.sig_names(c2['sig']) or ['a']
            k2 = rng.choice(ginm.spellings(c2['sel'], regs)) + '.' + rng.choice(nm[:2])
            if rng.random() < 0.1:
              k2 = 'nosuch.x'
            if k2 not in seen:
              seen.add(k2)
              kvs.append([k2, ginm.gen_plain(rng, 0)])
          ops.append(['hook', ['return', kvs]])
      else:
        ops.append(['locked'])
      if rng.random() < 0.3:
        ops.append(['locked'])
    return ops

  def gen(self, rng, tier):
    regs = ginm.gen_regs(rng, lists=0.1, allow_req=False, rich=False, sels=['f', 'm.g', 'n.m.g', 'pkg.h'])
    ops = self.gen_ops(rng, regs, 0, rng.randint(1, 12))
    return {'regs': regs, 'ops': ops + [['locked'], ['dumpconfig']]}

  def to_coq(self, case):
    return ginm.case_coq(case)

  def shrink(self, case):
    return ginm.shrink_case(case)

  def impl(self, case):
    m = ginm.Machine()
    obs = m.run(case)
    fails, tags = [], []
    regs = list(case['regs'])
    hooks = []     # user hooks registered so far
    nontrivial = False
    finalized_once = False
    for t in m.trace:
      b, a, k, exc = t['before'], t['after'], t['kind'], t['exc']
      tags.append(k + (':err' if exc else ':ok'))
      if k in MUTATORS and b['locked']:
        if exc is None or a['config'] != b['config'] or a['registry'] != b['registry'] or not a['locked']:
          fails.append(('locked-config-mutated', 'op %r on a locked config: outcome %r, store %s, registry %s, locked after=%r'
                        % (t['op'], exc, 'changed' if a['config'] != b['config'] else 'same',
                           'changed' if a['registry'] != b['registry'] else 'same', a['locked'])))
      if k == 'unlock':
        if a['locked'] != b['locked']:
          fails.append(('unlock-did-not-restore', 'unlock_config block entered with locked=%r left with locked=%r (body %s)'
                        % (b['locked'], a['locked'], 'raised ' + exc if exc else 'returned')))
        if exc and finalized_once and b['locked']:
          nontrivial = True
      if k == 'clear' and exc is None and a['locked']:
        fails.append(('clear-left-locked', ''))
      if k == 'register' and exc is None:
        regs.append(t['op'][1])
      if k == 'hook':
        hooks.append(t['op'][1])
      if k == 'finalize' and not b['locked']:
        finalized_once = finalized_once or exc is None
        # expected outcome from the property text
        why = builtin_reject(b['config'])
        updates, conflict = {}, None
        if why is None:
          for h in hooks:
            if h[0] == 'raise':
              why = 'hook-raised'
              break
            stop = False
            for key, v in h[1]:
              sc, sel, arg = split_key(key)
              full = resolve_sel(sel, regs)
              if full is None:
                why = 'hook-bad-key'
                stop = True
                break
              c = [x for x in regs if x['sel'] == full]
              if c and arg not in ginm.sig_names(c[0]['sig']) and not c[0]['sig']['varkw']:
                why = 'hook-bad-key'
                stop = True
                break
              if c and ((c[0]['allow'] and arg not in c[0]['allow']) or arg in c[0]['deny']):
                why = 'hook-bad-key'
                stop = True
                break
              if (sc, full, arg) in updates:
                why = 'hook-conflict'
                stop = True
                break
              updates[(sc, full, arg)] = c01.canon_plain(v)
            if stop:
              break
        if sum(1 for h in hooks if h[0] == 'return' and h[1]) >= 2:
          nontrivial = True
        if why is not None:
          if exc is None:
            fails.append(('finalize-accepted-invalid', 'finalize() succeeded although: %s (hooks %r)' % (why, hooks)))
          elif a['locked'] or a['config'] != b['config']:
            fails.append(('rejected-finalize-not-atomic', 'finalize() rejected (%s) but locked=%r store %s' %
                          (why, a['locked'], 'changed' if a['config'] != b['config'] else 'same')))
        else:
          if exc is not None:
            fails.append(('finalize-rejected-valid', 'finalize() raised %s on a valid configuration' % exc))
          elif not a['locked']:
            fails.append(('finalize-did-not-lock', ''))
          else:
            store = {(s, q, p): v for s, q, pd in a['config'] for p, v in pd}
            for kk, v in updates.items():
              if store.get(kk, '<absent>') != v:
                fails.append(('hook-update-not-applied', '%r -> %r, store has %r' % (kk, v, store.get(kk, '<absent>'))))
    fails = m.readback_fails() + fails
    return {'obs': obs, 'fails': fails[:3], 'nontrivial': nontrivial, 'tags': tags}


ENGINES = [LockEngine()]
