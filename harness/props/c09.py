"""C09 — config scopes nest, are restored on every exit path, and are private to a thread."""
import threading

from harness import common as C
from harness import ginm
from harness.common import T
from harness.main import Engine
from harness.props import c01

PID = 'C09'
LEVEL = 'proof'
RULE = ('scope/seq: nested with-programs (depth <= 6) over string / a/b shorthand / list / None / "" / invalid '
        '(bad identifier, empty component, non-string) entries with normal and raising exits, current_scope() '
        'and scoped calls observed inside and after every block; block bodies also read and change the CONFIGURATION '
        '(clear_config, the clear + parse_config reload idiom, bind_parameter, query_parameter, get_bindings, finalize, '
        'unlock_config blocks): every op must start under the scope that the enclosing blocks of the program text compose. scope/sched: 2-4 REAL threads, each running a '
        'generated program of enter / exit / observe / scoped-call steps, stepped one step at a time by a central '
        'scheduler following a generated schedule (thorough: every interleaving of 2 threads x <= 4 steps). '
        'non-trivial(seq) = depth >= 3 with an invalid entry or a raising exit below depth 2; '
        'non-trivial(sched) = >= 2 threads with open blocks at the same time and a context switch inside a block. '
        'scope/alias (implementation only): 1-2 real threads entering fresh, captured (`with .. as s`) and re-used list '
        'objects and editing those lists (append / item assignment / pop / clear) in between; every observation must be the '
        'one the thread\'s own entries and exits prescribe. scope/deferred (implementation only): 1-2 real threads building '
        'config_scope managers and entering them LATER (kept in a variable, handed to the other thread, a list entered through '
        'contextlib.ExitStack, used as a decorator and called under other scopes) next to ordinary blocks; every block runs under '
        'compose(scope active in the entering thread at entry, argument); a thread may reload the configuration (clear_config + the same '
        'bindings again) while blocks are open in it and in the other thread. non-trivial(deferred) = at least one deferred entry.')
TRUSTED_BASE = c01.TRUSTED_BASE + [
    'thread half: model coq/Model/ScopeThreads.v (one stack per thread id); atomic steps are API calls '
    '(enter / exit / observe / call) — preemption inside a step is not modelled',
]
ASSUMPTIONS = ['preemption inside enter_scope/exit_scope is not explored (it cannot matter while the stack is thread-local, which the schedule engine checks)']

BAD = ['1x', 'a b', 'a//b', '/a', 'a/', 'a-b', 's1\n', 's1/s2\n', '\ns1']


def compose(cur, arg):
  """the property text: returns (new scope, valid)"""
  if isinstance(arg, list):
    new, ok = list(arg), True
  elif isinstance(arg, str) and arg:
    new, ok = cur + arg.split('/'), True
  elif arg is None or arg == '':
    new, ok = [], True
  else:
    new, ok = [], False
  import re
  ok = ok and all(isinstance(x, str) and re.fullmatch(r'([a-zA-Z_]\w*\.)*[a-zA-Z_]\w*', x) for x in new)
  return new, ok


class SeqEngine(Engine):
  name = 'scope-seq'
  imports = 'Model.SelectorMap Model.Values Model.Gin Model.GinEngine'
  run_fn = 'run'

  def budget(self, tier):
    return 800 if tier == 'quick' else 20000

  def corpus(self):
    f = {'sel': 'm.f', 'sig': {'args': ['a'], 'defaults': [['i', 0]], 'varargs': False, 'kwonly': [], 'varkw': False},
         'allow': [], 'deny': []}
    return [{'regs': [f], 'ops': [
        ['bind', 's1/f.a', ['i', 1]], ['bind', 's1/s2/f.a', ['i', 2]],
        ['with', 's1', [['curscope'], ['with', 's2', [['call', 'm.f', [], []], ['with', None, [['curscope']]],
                                                      ['with', ['s2'], [['curscope'], ['raise']]], ['curscope'], ['with', 's3', [['raise', 'base']]], ['curscope']]],
                        ['curscope']]],
        ['curscope'],
        ['with', 's1', [['with', '1x', [['curscope']]], ['curscope']]], ['curscope'],
        ['with', 's1/s2', [['with', {}, []]]], ['curscope'], ['with', 's1', [['with', {'raises': 1}, []], ['curscope']]], ['curscope'],
        ['with', ['a', 'b b'], [['curscope']]], ['curscope'], ['with', '', [['curscope']]],
        ['callvia', 's1/s2/f', [], []], ['curscope'], ['dumpcalls']]},
            {'regs': [f], 'ops': [
                ['with', 's1', [['with', 's2', [['with', {'captured': 1, 'value': ['s1']}, [['curscope']]], ['curscope'], ['call', 'm.f', [], []]]],
                                ['curscope'],
                                ['with', {'captured': 0, 'value': ['s1']}, [['with', 's3', [['with', {'captured': 1, 'value': ['s1']}, [['raise']]],
                                                                                           ['curscope']]], ['curscope']]],
                                ['curscope']]],
                ['curscope'], ['dumpcalls']]},
            # configuration-state calls inside open blocks: the reload idiom (clear_config + parse_config) in a nested block ...
            {'regs': [f], 'ops': [
                ['bind', 'f.a', ['i', 1]], ['bind', 's1/f.a', ['i', 2]], ['bind', 's1/s2/f.a', ['i', 3]],
                ['with', 's1', [['with', 's2', [['call', 'm.f', [], []], ['clear', False], ['curscope'],
                                                ['pbind', 's1/s2/f.a', ['i', 4]], ['pbind', 'f.a', ['i', 5]], ['curscope'],
                                                ['call', 'm.f', [], []], ['with', 's3', [['curscope'], ['call', 'm.f', [], []]]], ['curscope']]],
                                ['curscope'], ['call', 'm.f', [], []]]],
                ['curscope'], ['call', 'm.f', [], []], ['dumpcalls']]},
            # ... in a block entered with a list and left by an exception; under finalize / unlock_config; with queries
            {'regs': [f], 'ops': [
                ['bind', 's1/s2/f.a', ['i', 2]],
                ['with', 's1', [['with', ['s3'], [['clear', True], ['curscope'], ['bind', 's3/f.a', ['i', 6]], ['call', 'm.f', [], []], ['raise']]],
                                ['curscope']]],
                ['curscope'],
                ['with', 's1/s2', [['finalize'], ['curscope'], ['locked'],
                                   ['unlock', [['bind', 's1/s2/f.a', ['i', 7]], ['curscope'], ['clear', False], ['curscope'],
                                               ['bindt', 's1', 'm.f', 'a', ['i', 8]]]],
                                   ['curscope'], ['query', 's1/f.a'], ['getbindings', 'm.f', False, True], ['call', 'm.f', [], []],
                                   ['with', None, [['dumpconfig'], ['clear', False], ['curscope'], ['query', 's1/f.a']]],
                                   ['curscope']]],
                ['curscope'], ['dumpcalls']]}]

  def gen_state_ops(self, rng, regs, depth, encl):
    """calls that read or change the CONFIGURATION (bindings, lock, constants-clearing) -- none of them is a scope entry or exit"""
    def key():
      c = rng.choice(regs)
      return ginm.gen_scope(rng, 3), c['sel'], rng.choice(c['sig']['args'])

    def bind():
      sc, sel, p = key()
      v = ['i', rng.randint(1, 9)]
      r = rng.random()
      if r < 0.4:
        return ['bind', '/'.join(sc + [sel + '.' + p]), v]
      if r < 0.8:
        return ['pbind', '/'.join(sc + [sel + '.' + p]), v]
      return ['bindt', '/'.join(sc), sel, p, v]
    r = rng.random()
    if r < 0.3:       # the reload idiom: clear, then install bindings again
      return [['clear', rng.random() < 0.3]] + [bind() for _ in range(rng.randint(0, 3))]
    if r < 0.5:
      return [bind()]
    if r < 0.6:
      sc, sel, p = key()
      return [['query', '/'.join(sc + [sel + '.' + p])]]          # raises when unbound: an exception exit of every open block
    if r < 0.7:
      return [['getbindings', rng.choice(regs)['sel'], False, rng.random() < 0.7]]
    if r < 0.78:
      return [rng.choice([['dumpconfig'], ['dumpoper'], ['locked']])]
    if r < 0.88:
      return [['finalize']]
    if depth < 6:
      return [['unlock', self.gen_body(rng, regs, depth + 1, encl)]]
    return [['locked']]

  def gen_arg(self, rng):
    r = rng.random()
    if r < 0.45:
      return rng.choice(ginm.SCOPES)
    if r < 0.6:
      return '/'.join(rng.choice(ginm.SCOPES) for _ in range(rng.randint(2, 3)))
    if r < 0.75:
      return [rng.choice(ginm.SCOPES) for _ in range(rng.randint(0, 3))]
    if r < 0.82:
      return None
    if r < 0.86:
      return ''
    if r < 0.93:
      return rng.choice(BAD)
    if r < 0.97:
      return [rng.choice(ginm.SCOPES), rng.choice(BAD)]
    return {} if rng.random() < 0.5 else {'raises': 1}      # wrong type; or a value whose inspection itself raises

  def gen_body(self, rng, regs, depth, encl=()):
    """encl: the scopes yielded by the enclosing VALID blocks, outermost first"""
    ops = []
    for _ in range(rng.randint(1, 4)):
      r = rng.random()
      if r < 0.45 and depth < 6:
        if encl and rng.random() < 0.15:
          # `with config_scope(..) as s: ... with config_scope(s):` -- the list object an enclosing block yielded is entered
          # again while it is still active (what a scoped reference does when its configurable is re-entered)
          k = rng.randrange(len(encl))
          arg = {'captured': k, 'value': list(encl[len(encl) - 1 - k])}
        else:
          arg = self.gen_arg(rng)
        new, ok = compose(list(encl[-1]) if encl else [], arg['value'] if isinstance(arg, dict) and 'captured' in arg else 5 if isinstance(arg, dict) else arg)
        ops.append(['with', arg, self.gen_body(rng, regs, depth + 1, tuple(encl) + (tuple(new),)) if ok else self.gen_body(rng, regs, depth + 1, encl)])
      elif r < 0.55:
        ops.append(['curscope'])
      elif r < 0.73:
        c = rng.choice(regs)
        ops.append(['call', c['sel'], [], []] if rng.random() < 0.7 else
                   ['callvia', '/'.join(ginm.gen_scope(rng, 2) + [c['sel']]), [], []])
      elif r < 0.82 and depth > 0:
        ops.append(['raise'] if rng.random() < 0.6 else ['raise', 'base'])     # 'base': a non-Exception exception
      elif r < 0.95:
        ops += self.gen_state_ops(rng, regs, depth, encl)
        ops.append(['curscope'] if rng.random() < 0.5 else ['call', rng.choice(regs)['sel'], [], []])
      else:
        ops.append(['curscope'])
    ops.append(['curscope'])
    return ops

  def gen(self, rng, tier):
    regs = ginm.gen_regs(rng, n=rng.randint(1, 2), lists=0, allow_req=False, rich=False, sels=['f', 'm.g'])
    for c in regs:   # every parameter defaulted so that bare calls succeed
      c['sig']['defaults'] = [['i', 0]] * len(c['sig']['args'])
    ops = []
    for _ in range(rng.randint(0, 5)):
      c = rng.choice(regs)
      sc = ginm.gen_scope(rng, 3)
      ops.append(['bind', '/'.join(sc + [c['sel'] + '.' + rng.choice(c['sig']['args'])]), ['i', rng.randint(1, 9)]])
    ops += self.gen_body(rng, regs, 0)
    ops += [['curscope'], ['dumpcalls']]
    return {'regs': regs, 'ops': ops}

  def to_coq(self, case):
    return ginm.case_coq(case)

  def shrink(self, case):
    return ginm.shrink_case(case)

  def impl(self, case):
    m = ginm.Machine()
    obs = m.run(case)
    fails, tags, nontrivial = [], [], False
    maxdepth = 0
    for t in m.trace:
      b, a = t['before'], t['after']
      maxdepth = max(maxdepth, t['depth'])
      if a['scope'] != b['scope']:
        fails.append(('scope-not-restored', 'op %r at depth %d entered with scope %r left with %r (%s)' %
                      (t['op'], t['depth'], b['scope'], a['scope'], 'raised ' + t['exc'] if t['exc'] else 'returned')))
      if t['kind'] == 'with':
        arg = t['op'][1]
        new, ok = compose(b['scope'], arg['value'] if isinstance(arg, dict) and 'captured' in arg else 5 if isinstance(arg, dict) else arg)
        tags.append('with:' + ('ok' if ok else 'invalid') + (':raised' if t['exc'] else ''))
        if not ok:
          if t['obs_end'] != t['obs_start'] or t['exc'] not in ('ValueError', 'TypeError'):
            fails.append(('invalid-scope-accepted', '%r: outcome %r' % (arg, t['exc'])))
          if t['depth'] >= 1:
            nontrivial = nontrivial or maxdepth >= 2
        else:
          seen = m.obs[t['obs_start']] if t['obs_end'] > t['obs_start'] else None
          if seen != new:
            fails.append(('wrong-composed-scope', 'entering %r under %r gave %r, expected %r' % (arg, b['scope'], seen, new)))
          if t['exc'] and t['depth'] >= 2:
            nontrivial = True
    # the scope every op STARTS under is prescribed by the blocks that enclose it in the program text alone (compose() of the valid
    # config_scope entries, outermost first): reading or changing the configuration -- clear_config, parse_config, bind_parameter,
    # query_parameter, finalize, unlock_config ... -- is neither an entry nor an exit
    encl, call_scopes, state_in_block = [], [], False      # encl: (depth of the block op, scope its body runs under)
    for t in m.trace:
      while encl and encl[-1][0] >= t['depth']:
        encl.pop()
      want = list(encl[-1][1]) if encl else []
      if t['before']['scope'] != want:
        fails.append(('scope-changed-without-entry-or-exit', 'op %r at depth %d starts under scope %r; the enclosing blocks prescribe %r' %
                      (t['op'], t['depth'], t['before']['scope'], want)))
      if t['kind'] == 'with':
        arg = t['op'][1]
        new, ok = compose(want, arg['value'] if isinstance(arg, dict) and 'captured' in arg else 5 if isinstance(arg, dict) else arg)
        if ok:
          encl.append((t['depth'], new))
      elif t['kind'] in ('unlock', 'interactive'):
        encl.append((t['depth'], want))
      elif t['kind'] == 'call':
        call_scopes.append(want)
      elif t['kind'] in ('clear', 'bind', 'pbind', 'bindt', 'query', 'getbindings', 'finalize', 'dumpconfig', 'dumpoper', 'locked') and want:
        state_in_block = True
    if state_in_block:
      tags.append('state-op-in-block')
    if len(call_scopes) == len(m.calls):
      for want, ctx in zip(call_scopes, m.calls):
        if ctx['log_end'] > ctx['log_start'] and 'error' not in ctx and m.log[ctx['log_end'] - 1][1] != want:
          fails.append(('call-scope', 'call of %r inside the blocks composing %r ran under %r' % (ctx['sel'], want, m.log[ctx['log_end'] - 1][1])))
    for ctx in m.calls:   # a direct call runs under the caller's scope
      if ctx['log_end'] > ctx['log_start'] and 'error' not in ctx:
        own = m.log[ctx['log_end'] - 1]
        if own[1] != ctx['scope']:
          fails.append(('call-scope', 'call under %r ran under %r' % (ctx['scope'], own[1])))
    return {'obs': obs, 'fails': fails[:3], 'nontrivial': nontrivial and maxdepth >= 3, 'tags': tags}


# ----------------------------------------------------------------- threads
class Worker(threading.Thread):
  def __init__(self, gin, probe, steps, ctx=None):
    super().__init__(daemon=True, name='worker')   # all workers share one name on purpose
    self.gin, self.probe, self.steps = gin, probe, steps
    self.ctx = ctx           # run the thread inside a copy of the spawner's contextvars.Context (asyncio.to_thread does)
    self.go = threading.Semaphore(0)
    self.done = threading.Semaphore(0)
    self.out = []
    self.cms = []
    self.i = 0

  def run(self):
    if self.ctx is not None:
      self.ctx.run(self.body)
    else:
      self.body()

  def body(self):
    gin = self.gin
    for st in self.steps:
      self.go.acquire()
      try:
        k = st[0]
        if k == 'enter':
          arg = 5 if isinstance(st[1], dict) else st[1]
          cm = gin.config_scope(arg)
          sc = cm.__enter__()
          self.cms.append(cm)
          o = list(sc)
        elif k == 'exit':
          if self.cms:
            cm = self.cms.pop()
            if st[1]:
              try:
                cm.__exit__(KeyError, KeyError('boom'), None)
              except KeyError:
                pass
            else:
              cm.__exit__(None, None, None)
          o = None
        elif k == 'observe':
          o = list(gin.current_scope())
        elif k == 'lookup':
          o = self.probe()
        else:
          raise AssertionError(st)
      except Exception as e:  # pylint: disable=broad-except
        o = T('Err', type(e).__name__)
      self.out.append(o)
      if len(self.out) == len(self.steps):
        while self.cms:       # close blocks still open, in this thread
          try:
            self.cms.pop().__exit__(None, None, None)
          except Exception:  # pylint: disable=broad-except
            pass
      self.done.release()


class SchedEngine(Engine):
  name = 'scope-sched'
  imports = 'Model.SelectorMap Model.Values Model.Gin Model.ScopeThreads'
  run_fn = 'trun_out'

  def budget(self, tier):
    return 300 if tier == 'quick' else 5000

  def corpus(self):
    b = [['', 1], ['s1', 2], ['s1/s2', 3], ['s2', 4]]
    return [{'bindings': b, 'threads': [[['enter', 's1'], ['lookup'], ['enter', 's2'], ['lookup'], ['exit', False], ['observe'], ['exit', True], ['observe']],
                                       [['observe'], ['enter', 's2'], ['lookup'], ['enter', None], ['observe'], ['exit', False], ['exit', False], ['lookup']]],
             'schedule': [0, 1, 0, 1, 0, 1, 0, 1, 1, 0, 0, 1, 1, 0, 0, 1]}]

  def gen_thread(self, rng, n):
    steps, depth = [], 0
    for _ in range(n):
      r = rng.random()
      if r < 0.35:
        a = SeqEngine.gen_arg(None, rng)
        steps.append(['enter', a])
        _, ok = compose([], 5 if isinstance(a, dict) else a)
        if ok or (isinstance(a, str) and a and all(x in ginm.SCOPES for x in a.split('/'))):
          depth += 1
      elif r < 0.55 and depth > 0:
        steps.append(['exit', rng.random() < 0.3])
        depth -= 1
      elif r < 0.8:
        steps.append(['lookup'])
      else:
        steps.append(['observe'])
    return steps

  def gen(self, rng, tier):
    nt = rng.randint(2, 4)
    threads = [self.gen_thread(rng, rng.randint(2, 7)) for _ in range(nt)]
    sched = [i for i, t in enumerate(threads) for _ in t]
    rng.shuffle(sched)
    bindings = [['/'.join(ginm.gen_scope(rng, 3)), rng.randint(1, 9)] for _ in range(rng.randint(1, 5))]
    return {'bindings': bindings, 'threads': threads, 'schedule': sched, 'ctx': rng.random() < 0.4}

  def exhaustive(self):
    import itertools
    progs = [[['enter', 's1'], ['lookup'], ['exit', False], ['observe']],
             [['enter', 's2'], ['enter', 's1'], ['lookup'], ['exit', True]]]
    b = [['s1', 1], ['s2', 2], ['s2/s1', 3]]
    for sched in set(itertools.permutations([0] * 4 + [1] * 4)):
      yield {'bindings': b, 'threads': progs, 'schedule': list(sched)}

  def to_coq(self, case):
    d = {}
    for sc, v in case['bindings']:
      d[sc] = v
    cfg = C.clist(['((%s, "m.f"), [("a", (VInt %s))])' % (C.cstr(sc), C.cz(v)) for sc, v in d.items()])
    idx = [0] * len(case['threads'])
    steps = []
    for t in case['schedule']:
      st = case['threads'][t][idx[t]]
      idx[t] += 1
      k = st[0]
      if k == 'enter':
        x = '(TEnter %s)' % ginm.scope_arg_coq(st[1])
      elif k == 'exit':
        x = 'TExit'
      elif k == 'observe':
        x = 'TObserve'
      else:
        x = '(TLookup "m.f" "a")'
      steps.append('(%s, %s)' % (C.cnat(t), x))
    return '(%s, %s)' % (cfg, C.clist(steps))

  def shrink(self, case):
    for i in range(len(case['schedule'])):
      t = case['schedule'][i]
      k = case['schedule'][:i].count(t)
      th = [list(x) for x in case['threads']]
      del th[t][k]
      yield {'bindings': case['bindings'], 'threads': th, 'schedule': case['schedule'][:i] + case['schedule'][i + 1:], 'ctx': case.get('ctx')}

  def alone(self, steps, store):
    """what one thread sees when it runs alone: the reference semantics of the property"""
    stack, out = [[]], []
    for st in steps:
      k = st[0]
      if k == 'enter':
        new, ok = compose(stack[-1], 5 if isinstance(st[1], dict) else st[1])
        if ok:
          stack.append(new)
          out.append(new)
        else:
          out.append(T('Err', 'ValueError') if not (isinstance(st[1], list) and not all(isinstance(x, str) for x in st[1])) else T('Err', 'TypeError'))
      elif k == 'exit':
        if len(stack) > 1:
          stack.pop()
        out.append(None)
      elif k == 'observe':
        out.append(list(stack[-1]))
      else:
        v = None
        for i in range(len(stack[-1]) + 1):
          v = store.get('/'.join(stack[-1][:i]), v)
        out.append(T('Unbound') if v is None else v)
    return out

  def impl(self, case):
    gin = C.fresh_gin()

    @gin.configurable('f', module='m')
    def f(a=None):
      return a
    store = {}
    for sc, v in case['bindings']:
      gin.bind_parameter((sc, 'm.f', 'a'), v)
      store[sc] = v

    def probe():
      r = f()
      return T('Unbound') if r is None else r
    import contextvars
    gin.current_scope()                 # the spawning thread has used the scope machinery before it spawns
    workers = [Worker(gin, probe, st, contextvars.copy_context() if case.get('ctx') else None) for st in case['threads']]
    for w in workers:
      w.start()
    obs = []
    for t in case['schedule']:
      w = workers[t]
      w.go.release()
      if not w.done.acquire(timeout=20):
        obs.append([t, T('Err', 'Timeout')])
        break
      obs.append([t, w.out[-1]])
    fails = []
    overlap = switched = False
    for i, w in enumerate(workers):
      want = self.alone(case['threads'][i][:len(w.out)], store)
      if w.out != want:
        fails.append(('thread-saw-foreign-scope', 'thread %d observed %r; running alone it observes %r; schedule %r' %
                      (i, C.jsonable(w.out), C.jsonable(want), case['schedule'])))
    # non-triviality: two threads have open blocks simultaneously and a switch happens inside a block
    depth = [0] * len(workers)
    idx = [0] * len(workers)
    last = None
    for t in case['schedule']:
      st = case['threads'][t][idx[t]]
      idx[t] += 1
      if last is not None and last != t and depth[last] > 0:
        switched = True
      if st[0] == 'enter' and isinstance(w.out, list):
        depth[t] += 1
      elif st[0] == 'exit' and depth[t] > 0:
        depth[t] -= 1
      if sum(1 for d in depth if d > 0) >= 2:
        overlap = True
      last = t
    return {'obs': obs, 'fails': fails[:2], 'nontrivial': overlap and switched,
            'tags': ['threads%d' % len(workers), 'len%d' % (len(case['schedule']) // 5 * 5)]}


# ----------------------------------------------------------------- scope lists as Python objects
class AliasWorker(threading.Thread):
  """runs one thread's steps of a `scope-list-aliasing` program, one step per release of `go`.  Next to the real gin it
  keeps `ref`, the stack of scope VALUES the property text prescribes for this thread (compose() of the value each entry was
  given at the moment of the entry; exits pop): nothing but this thread's own entries and exits touches it."""

  def __init__(self, gin, probe, steps, shared, store):
    super().__init__(daemon=True, name='worker')
    self.gin, self.probe, self.steps, self.shared, self.store = gin, probe, steps, shared, store
    self.go = threading.Semaphore(0)
    self.done = threading.Semaphore(0)
    self.out = []            # per step: None, or [actual, expected] for an observe
    self.cms = []
    self.ref = [[]]

  def expected(self):
    v = None
    for i in range(len(self.ref[-1]) + 1):
      v = self.store.get('/'.join(self.ref[-1][:i]), v)
    return [list(self.ref[-1]), T('Unbound') if v is None else v]

  def step(self, st):
    gin, k = self.gin, st[0]
    if k == 'enter':
      src = st[1]
      if src[0] == 'str':
        arg = src[1]
      elif src[0] == 'none':
        arg = None
      elif src[0] == 'new':                      # a list the caller builds and keeps in a variable
        arg = self.shared[src[2]] = list(src[1])
      else:                                      # ['var', name]: a list object held in a variable (captured or built earlier)
        arg = self.shared.get(src[1])
        if not isinstance(arg, list):
          return T('Skipped')
      new, ok = compose(self.ref[-1], list(arg) if isinstance(arg, list) else arg)
      if not ok:
        return T('Skipped')
      cm = gin.config_scope(arg)
      self.shared[st[2]] = cm.__enter__()        # `with gin.config_scope(arg) as <st[2]>:`
      self.cms.append(cm)
      self.ref.append(new)
      return None
    if k == 'exit':
      if not self.cms:
        return T('Skipped')
      cm = self.cms.pop()
      self.ref.pop()
      if st[1]:
        try:
          cm.__exit__(KeyError, KeyError('boom'), None)
        except KeyError:
          pass
      else:
        cm.__exit__(None, None, None)
      return None
    if k == 'edit':                              # ordinary list operations on a list the program holds
      v = self.shared.get(st[1])
      if not isinstance(v, list):
        return T('Skipped')
      if st[2] == 'append':
        v.append(st[3])
      elif st[2] == 'set0' and v:
        v[0] = st[3]
      elif st[2] == 'pop' and v:
        v.pop()
      elif st[2] == 'clear':
        del v[:]
      elif st[2] == 'extend':
        v.extend([st[3], st[3]])
      return None
    if k == 'observe':
      try:
        got = [list(gin.current_scope()), self.probe()]
      except Exception as e:  # pylint: disable=broad-except
        got = T('Err', type(e).__name__)
      return [got, self.expected()]
    raise AssertionError(st)

  def run(self):
    for st in self.steps:
      self.go.acquire()
      try:
        o = self.step(st)
      except Exception as e:  # pylint: disable=broad-except
        o = T('Err', type(e).__name__ + ': ' + str(e)[:80])
      self.out.append(o)
      if len(self.out) == len(self.steps):
        while self.cms:
          try:
            self.cms.pop().__exit__(None, None, None)
          except Exception:  # pylint: disable=broad-except
            pass
      self.done.release()


class AliasEngine(Engine):
  """The lists that go into and come out of config_scope are ordinary Python objects in the caller's hands: the list passed
  in (`config_scope(my_list)`, `config_scope(captured)`) and the list yielded (`with config_scope(..) as s`).  The property
  makes the active scope a function of the thread's own entries and exits: an entry with a list replaces the scope by the
  list's value at that moment, leaving a block restores exactly what was active before it, and nothing another thread does
  changes it.  So whatever the program (or another thread) afterwards does to those list objects -- append, item assignment,
  clear -- every observation must equal the one prescribed by the entries and exits alone.  Programs: 1-2 real threads stepped
  by a fixed schedule; variables holding the lists are shared between the threads (that is how a captured scope is handed to
  a worker).  Implementation only: the model has scope values, not list objects."""
  name = 'scope-list-aliasing'
  model = False

  def budget(self, tier):
    return 150 if tier == 'quick' else 3000

  B = [['', 1], ['s1', 2], ['s1/s2', 3], ['s2', 4], ['s1/s3', 5], ['s3', 6]]

  def corpus(self):
    one = lambda steps: {'bindings': self.B, 'threads': [steps], 'schedule': [0] * len(steps)}
    cases = []
    for raising in (False, True):
      for how in (['append', 's2'], ['set0', 's3'], ['clear', None]):
        # re-enter a captured scope; the inner block edits the list it was given
        cases.append(one([['enter', ['str', 's1'], 'a'], ['observe'], ['enter', ['var', 'a'], 'b'], ['edit', 'b'] + how,
                          ['exit', raising], ['observe'], ['exit', False], ['observe']]))
        # the same two levels deeper
        cases.append(one([['enter', ['str', 's1'], 'a'], ['enter', ['str', 's3'], 'c'], ['enter', ['none'], 'd'],
                          ['enter', ['var', 'a'], 'b'], ['edit', 'b'] + how, ['observe'], ['exit', raising], ['observe'],
                          ['exit', False], ['observe'], ['exit', raising], ['observe'], ['exit', False], ['observe']]))
        # the caller goes on using the list it passed in
        cases.append(one([['enter', ['new', ['s1'], 'p'], 'y'], ['observe'], ['edit', 'p'] + how, ['observe'],
                          ['enter', ['str', 's2'], 'z'], ['observe'], ['exit', raising], ['exit', False], ['observe']]))
    for how in (['append', 's2'], ['set0', 's2'], ['clear', None]):
      # a captured scope handed to a worker, which enters it and refines ITS scope
      cases.append({'bindings': self.B,
                    'threads': [[['enter', ['str', 's1'], 'a'], ['observe'], ['observe'], ['exit', False], ['observe']],
                                [['enter', ['var', 'a'], 'w'], ['edit', 'w'] + how, ['observe'], ['exit', False], ['observe']]],
                    'schedule': [0, 0, 1, 1, 1, 0, 1, 1, 0, 0]})
    return cases

  def gen_thread(self, rng, n, names):
    steps, depth = [], 0
    for _ in range(n):
      r = rng.random()
      if r < 0.35 and depth < 4:
        x = rng.random()
        y = rng.choice(names)
        if x < 0.3:
          src = ['str', rng.choice(ginm.SCOPES + ['s1/s2'])]
        elif x < 0.4:
          src = ['none']
        elif x < 0.65:
          src = ['new', [rng.choice(ginm.SCOPES) for _ in range(rng.randint(0, 2))], rng.choice(names)]
        else:
          src = ['var', rng.choice(names)]
        steps.append(['enter', src, y])
        depth += 1
      elif r < 0.5 and depth > 0:
        steps.append(['exit', rng.random() < 0.3])
        depth -= 1
      elif r < 0.75:
        steps.append(['edit', rng.choice(names), rng.choice(['append', 'append', 'set0', 'pop', 'clear', 'extend']),
                      rng.choice(ginm.SCOPES)])
      else:
        steps.append(['observe'])
    return steps + [['observe']]

  def gen(self, rng, tier):
    names = ['a', 'b', 'c']
    threads = [self.gen_thread(rng, rng.randint(3, 9), names) for _ in range(rng.randint(1, 2))]
    sched = [i for i, t in enumerate(threads) for _ in t]
    rng.shuffle(sched)
    return {'bindings': self.B, 'threads': threads, 'schedule': sched}

  def shrink(self, case):
    for i in range(len(case['schedule'])):
      t = case['schedule'][i]
      k = case['schedule'][:i].count(t)
      th = [list(x) for x in case['threads']]
      del th[t][k]
      yield {'bindings': case['bindings'], 'threads': th, 'schedule': case['schedule'][:i] + case['schedule'][i + 1:]}

  def impl(self, case):
    gin = C.fresh_gin()

    @gin.configurable('f', module='m')
    def f(a=None):
      return a
    store = {}
    for sc, v in case['bindings']:
      gin.bind_parameter((sc, 'm.f', 'a'), v)
      store[sc] = v

    def probe():
      r = f()
      return T('Unbound') if r is None else r
    shared = {}
    workers = [AliasWorker(gin, probe, st, shared, store) for st in case['threads']]
    for w in workers:
      w.start()
    obs, fails = [], []
    idx = [0] * len(workers)
    # since a thread's last observation: did it leave a block / did it / did ANOTHER thread edit a list
    fresh = {'exit': False, 'own_edit': False, 'other_edit': False}
    since = [dict(fresh) for _ in workers]
    edits = foreign = 0
    for t in case['schedule']:
      w = workers[t]
      st = case['threads'][t][idx[t]]
      idx[t] += 1
      w.go.release()
      if not w.done.acquire(timeout=20):
        fails.append(('harness-timeout', repr(st)))
        break
      o = w.out[-1]
      obs.append([t, o])
      if isinstance(o, T) and o.tag == 'Err':
        fails.append(('step-raised', 'thread %d step %r: %s' % (t, st, o.args[0])))
      skipped = isinstance(o, T) and o.tag == 'Skipped'
      if st[0] == 'exit' and not skipped:
        since[t]['exit'] = True
      if st[0] == 'edit' and not skipped:
        edits += 1
        for i, s in enumerate(since):
          s['own_edit' if i == t else 'other_edit'] = True
      if st[0] == 'observe':
        got, want = o
        if C.jsonable(got) != C.jsonable(want):
          s = since[t]
          kind = ('scope-not-restored' if s['exit'] else
                  'scope-changed-by-other-thread' if s['other_edit'] and not s['own_edit'] else
                  'scope-changed-without-entry-or-exit')
          fails.append((kind, 'thread %d observes (scope, m.f.a) = %r; its own entries and exits prescribe %r (program %r, schedule %r)' %
                        (t, C.jsonable(got), C.jsonable(want), case['threads'], case['schedule'])))
        if since[t]['other_edit']:
          foreign += 1
        since[t] = dict(fresh)
    return {'obs': obs, 'fails': fails[:2], 'nontrivial': edits > 0 and (len(workers) == 1 or foreign > 0),
            'tags': ['threads%d' % len(workers), 'edits%d' % min(edits, 3)]}


# ----------------------------------------------------------------- scope managers as Python objects
class DeferredWorker(threading.Thread):
  """runs one thread's steps of a `scope-deferred-entry` program, one step per release of `go`.  `ref` is the stack of scope
  VALUES the property text prescribes for THIS thread: a manager's argument is composed with the scope active in the entering
  thread at the moment of ENTRY (compose()), an exit pops.  Where, when and by which thread the manager object, the decorated
  function or the list of managers was built plays no part in it."""

  def __init__(self, gin, probe, steps, shared, store):
    super().__init__(daemon=True, name='worker')
    self.gin, self.probe, self.steps, self.shared, self.store = gin, probe, steps, shared, store
    self.go = threading.Semaphore(0)
    self.done = threading.Semaphore(0)
    self.out = []
    self.cms = []
    self.ref = [[]]
    self.deferred = 0        # entries (with / decorated call / ExitStack) of a manager that was built earlier

  def want(self, scope):
    v = None
    for i in range(len(scope) + 1):
      v = self.store.get('/'.join(scope[:i]), v)
    return [list(scope), T('Unbound') if v is None else v]

  def see(self):
    try:
      return [list(self.gin.current_scope()), self.probe()]
    except Exception as e:  # pylint: disable=broad-except
      return T('Err', type(e).__name__)

  @staticmethod
  def arg(a):
    return 5 if isinstance(a, dict) else list(a) if isinstance(a, list) else a

  def enter(self, cm, a):
    """`with cm:` where cm was built from argument `a`; returns [got, want]"""
    new, ok = compose(self.ref[-1], self.arg(a))
    if not ok:
      try:
        cm.__enter__()
      except (ValueError, TypeError):
        return [T('Rejected'), T('Rejected')]
      self.cms.append(cm)
      self.ref.append(list(self.ref[-1]))
      return [T('Accepted', C.jsonable(a)), T('Rejected')]
    sc = cm.__enter__()
    self.cms.append(cm)
    self.ref.append(new)
    return [[list(sc)] + [self.see()], [list(new)] + [self.want(new)]]

  def call_decorated(self, name, got, want, scope):
    """calls the function `name` was decorated into; appends what its body (and the functions the body calls) observe"""
    ent = self.shared.get('fn:' + name) if isinstance(name, str) else name
    if ent is None:
      return
    fn, a, inner = ent
    new, ok = compose(scope, self.arg(a))
    self.deferred += 1
    if not ok:
      want.append(T('Rejected'))
      try:
        fn(lambda: None)
        got.append(T('Accepted', C.jsonable(a)))
      except (ValueError, TypeError):
        got.append(T('Rejected'))
      return

    def body():
      got.append(self.see())
      want.append(self.want(new))
      if inner is not None:
        self.call_decorated(inner, got, want, new)
        got.append(self.see())
        want.append(self.want(new))
    fn(body)

  def step(self, st):
    gin, k = self.gin, st[0]
    if k == 'make':                              # m = gin.config_scope(arg)  -- built, not entered
      try:
        self.shared['cm:' + st[2]] = (gin.config_scope(self.arg(st[1])), st[1])
      except (ValueError, TypeError):            # an invalid name may be refused as early as this
        _, ok = compose([], self.arg(st[1]))
        if ok:
          raise
        self.shared.pop('cm:' + st[2], None)
      return None
    if k == 'enter':                             # with m:
      ent = self.shared.pop('cm:' + st[1], None)
      if ent is None:
        return T('Skipped')
      self.deferred += 1
      return self.enter(*ent)
    if k == 'with':                              # with gin.config_scope(arg):   (built and entered on the spot)
      return self.enter(gin.config_scope(self.arg(st[1])), st[1])
    if k == 'exit':
      if not self.cms:
        return T('Skipped')
      cm = self.cms.pop()
      self.ref.pop()
      if st[1]:
        try:
          cm.__exit__(KeyError, KeyError('boom'), None)
        except KeyError:
          pass
      else:
        cm.__exit__(None, None, None)
      return [self.see(), self.want(self.ref[-1])]
    if k == 'observe':
      return [self.see(), self.want(self.ref[-1])]
    if k == 'reload':                            # the body reloads the configuration: clear_config(), then the same bindings again
      gin.clear_config(clear_constants=st[1] == 'constants')
      mid = self.see()                           # (nothing is bound at this moment)
      if st[1] == 'parse':
        gin.parse_config('\n'.join('%sm.f.a = %d' % (sc + '/' if sc else '', v) for sc, v in self.store.items()))
      else:
        for sc, v in self.store.items():
          gin.bind_parameter((sc, 'm.f', 'a'), v)
      return [[mid, self.see()], [[list(self.ref[-1]), T('Unbound')], self.want(self.ref[-1])]]
    if k == 'defdec':                            # @gin.config_scope(arg) def <name>(): observe; <inner>(); observe
      deco = gin.config_scope(self.arg(st[1]))

      @deco
      def fn(body):
        return body()
      # the function the body calls is the one that name denotes NOW (no recursion)
      self.shared['fn:' + st[2]] = (fn, st[1], self.shared.get('fn:' + st[3]) if st[3] else None)
      return None
    if k == 'calldec':                           # <name>()  -- k times in a row: the decorator enters the scope per call
      got, want = [], []
      for _ in range(st[2]):
        try:
          self.call_decorated(st[1], got, want, self.ref[-1])
        except Exception as e:  # pylint: disable=broad-except
          got.append(T('Err', type(e).__name__))
        got.append(self.see())
        want.append(self.want(self.ref[-1]))
      return [got, want] if got else T('Skipped')
    if k == 'stack':                             # ms = [config_scope(a) for a in args]; with ExitStack() as s: for m in ms: s.enter_context(m)
      import contextlib
      ms = [gin.config_scope(self.arg(a)) for a in st[1]]
      got, want, cur = [], [], list(self.ref[-1])
      try:
        with contextlib.ExitStack() as stack:
          for m, a in zip(ms, st[1]):
            new, ok = compose(cur, self.arg(a))
            self.deferred += 1
            if not ok:
              want.append(T('Rejected'))
              try:
                stack.enter_context(m)
                got.append(T('Accepted', C.jsonable(a)))
              except (ValueError, TypeError):
                got.append(T('Rejected'))
              continue
            cur = new
            sc = stack.enter_context(m)
            got.append([list(sc), self.see()])
            want.append([list(cur), self.want(cur)])
          if st[2]:
            raise KeyError('boom')
      except KeyError:
        pass
      got.append(self.see())
      want.append(self.want(self.ref[-1]))
      return [got, want]
    raise AssertionError(st)

  def run(self):
    for st in self.steps:
      self.go.acquire()
      try:
        o = self.step(st)
      except Exception as e:  # pylint: disable=broad-except
        o = T('Err', type(e).__name__ + ': ' + str(e)[:80])
      self.out.append(o)
      if len(self.out) == len(self.steps):
        while self.cms:
          try:
            self.cms.pop().__exit__(None, None, None)
          except Exception:  # pylint: disable=broad-except
            pass
      self.done.release()


class DeferredEngine(Engine):
  """`gin.config_scope(x)` hands the caller a context-manager OBJECT; the property speaks of ENTERING a scope: "entering a named
  scope appends its components to the active scope", "the active scope is private to each thread".  So the scope a block runs
  under is compose(scope active in the entering thread when the block is entered, x) -- however long ago, under whichever
  scope and by whichever thread the manager object was built.  Programs (1-2 real threads stepped by a fixed schedule; the
  variables holding managers / decorated functions are shared between the threads) build managers and enter them later:
  a manager kept in a variable and entered inside / after another block or by the other thread, a list of managers entered
  one by one through contextlib.ExitStack (left normally or by exception), `@gin.config_scope(x)` used as a decorator (the
  scope is entered per call, under the caller's scope, also from a decorated function called by a decorated function),
  next to ordinary `with gin.config_scope(x):` blocks; x ranges over names, a/b shorthand, lists, None, '' and invalid names.
  Every entry, exit and observation reports (current_scope(), value a probe configurable receives) and is compared with the
  stack of values the thread's own entries and exits prescribe.  Implementation only: the model's `with` op builds and enters
  in one step."""
  name = 'scope-deferred-entry'
  model = False

  def budget(self, tier):
    return 200 if tier == 'quick' else 4000

  B = AliasEngine.B + [['s2/s1', 7], ['s1/s2/s3', 8], ['s3/s1', 9]]

  def corpus(self):
    one = lambda steps: {'bindings': self.B, 'threads': [steps], 'schedule': [0] * len(steps)}
    cases = []
    for raising in (False, True):
      # managers prepared up front, entered one after the other through an ExitStack: they nest
      cases.append(one([['stack', ['s1', 's2', 's3'], raising], ['observe'],
                        ['with', 's3'], ['stack', ['s1', None, 's2/s1', ['s3'], 's1'], raising], ['exit', raising], ['observe']]))
      # built outside a block, entered inside it; built inside a block, entered after leaving it
      cases.append(one([['make', 's2', 'a'], ['with', 's1'], ['enter', 'a'], ['observe'], ['exit', raising], ['observe'],
                        ['make', 's3', 'b'], ['make', 's2', 'c'], ['exit', False], ['enter', 'b'], ['enter', 'c'], ['observe'],
                        ['exit', raising], ['exit', False], ['observe']]))
      # a decorated function, called at the top, inside a block, inside a cleared block, twice in a row
      cases.append(one([['with', 's3'], ['defdec', 's2', 'f', None], ['exit', False], ['calldec', 'f', 1], ['with', 's1'],
                        ['calldec', 'f', 2], ['defdec', 's1', 'g', 'f'], ['with', None], ['calldec', 'g', 1], ['exit', raising],
                        ['exit', False], ['calldec', 'g', 1], ['observe']]))
    # a manager built by one thread inside a block, entered by another thread (and the other way round)
    cases.append({'bindings': self.B,
                  'threads': [[['with', 's1'], ['make', 's2', 'a'], ['defdec', 's3', 'f', None], ['observe'], ['enter', 'b'], ['observe'],
                               ['exit', False], ['exit', False], ['observe']],
                              [['observe'], ['enter', 'a'], ['observe'], ['make', 's1', 'b'], ['calldec', 'f', 1], ['exit', True],
                               ['calldec', 'f', 1], ['observe']]],
                  'schedule': [0, 0, 0, 1, 1, 1, 1, 1, 0, 0, 0, 1, 1, 1, 0, 0, 0]})
    # a block body (also: of a deferred entry, of the other thread) reloads the configuration while blocks are open in both threads
    cases.append({'bindings': self.B,
                  'threads': [[['with', 's1'], ['make', 's3', 'a'], ['defdec', 's3', 'f', None], ['with', 's2'], ['reload', 'parse'], ['observe'],
                               ['with', 's3'], ['exit', False], ['exit', True], ['observe'], ['exit', False], ['observe']],
                              [['with', ['s2']], ['enter', 'a'], ['observe'], ['observe'], ['reload', 'bind'], ['calldec', 'f', 1], ['exit', False],
                               ['exit', False], ['observe']]],
                  'schedule': [0, 0, 0, 1, 1, 0, 0, 1, 0, 1, 1, 0, 0, 1, 0, 1, 0, 1, 0, 1, 0]})
    return cases

  def gen_arg(self, rng, invalid=True):
    r = rng.random()
    if r < 0.5:
      return rng.choice(ginm.SCOPES)
    if r < 0.65:
      return '/'.join(rng.choice(ginm.SCOPES) for _ in range(2))
    if r < 0.78:
      return [rng.choice(ginm.SCOPES) for _ in range(rng.randint(0, 2))]
    if r < 0.86:
      return None
    if r < 0.9 or not invalid:
      return ''
    if r < 0.97:
      return rng.choice(BAD)
    return {}

  def gen_thread(self, rng, n, names):
    steps, depth, made, fns = [], 0, [], []
    # mostly enter / call what this thread built (the rest: what the other thread built, or nothing -> the step is skipped)
    pick = lambda own: rng.choice(own) if own and rng.random() < 0.75 else rng.choice(names)
    for _ in range(n):
      r = rng.random()
      if r < 0.2:
        steps.append(['make', self.gen_arg(rng), rng.choice(names)])
        made.append(steps[-1][2])
      elif r < 0.4 and depth < 5:
        steps.append(['enter', pick(made)])
        if steps[-1][1] in made:
          made.remove(steps[-1][1])
        depth += 1
      elif r < 0.5 and depth < 5:
        steps.append(['with', self.gen_arg(rng)])
        depth += 1
      elif r < 0.62 and depth > 0:
        steps.append(['exit', rng.random() < 0.3])
        depth -= 1
      elif r < 0.7:
        steps.append(['defdec', self.gen_arg(rng), rng.choice(names), pick(fns) if rng.random() < 0.4 else None])
        fns.append(steps[-1][2])
      elif r < 0.82:
        steps.append(['calldec', pick(fns), rng.randint(1, 2)])
      elif r < 0.9:
        steps.append(['stack', [self.gen_arg(rng, invalid=rng.random() < 0.3) for _ in range(rng.randint(1, 4))], rng.random() < 0.3])
      elif r < 0.95:
        steps.append(['reload', rng.choice(['bind', 'parse', 'constants'])])
      else:
        steps.append(['observe'])
    return steps + [['observe']]

  def gen(self, rng, tier):
    names = ['a', 'b', 'c']
    threads = [self.gen_thread(rng, rng.randint(4, 12), names) for _ in range(rng.randint(1, 2))]
    sched = [i for i, t in enumerate(threads) for _ in t]
    rng.shuffle(sched)
    return {'bindings': self.B, 'threads': threads, 'schedule': sched}

  def shrink(self, case):
    return AliasEngine.shrink(self, case)

  def impl(self, case):
    gin = C.fresh_gin()

    @gin.configurable('f', module='m')
    def f(a=None):
      return a
    store = {}
    for sc, v in case['bindings']:
      gin.bind_parameter((sc, 'm.f', 'a'), v)
      store[sc] = v

    def probe():
      r = f()
      return T('Unbound') if r is None else r
    shared = {}
    workers = [DeferredWorker(gin, probe, st, shared, store) for st in case['threads']]
    for w in workers:
      w.start()
    obs, fails = [], []
    idx = [0] * len(workers)
    for t in case['schedule']:
      w = workers[t]
      st = case['threads'][t][idx[t]]
      idx[t] += 1
      w.go.release()
      if not w.done.acquire(timeout=20):
        fails.append(('harness-timeout', repr(st)))
        break
      o = w.out[-1]
      obs.append([t, o])
      if isinstance(o, T) and o.tag == 'Err':
        fails.append(('step-raised', 'thread %d step %r: %s' % (t, st, o.args[0])))
      elif isinstance(o, list):
        got, want = C.jsonable(o[0]), C.jsonable(o[1])
        if got != want:
          kind = ('scope-not-restored' if st[0] == 'exit' else
                  'invalid-scope-accepted' if want == C.jsonable(T('Rejected')) else
                  'wrong-composed-scope' if st[0] not in ('observe', 'reload') else 'scope-changed-without-entry-or-exit')
          fails.append((kind, 'thread %d step %d %r observes (scope, m.f.a) = %r; the scope active in this thread at that moment and the '
                        'entry prescribe %r (program %r, schedule %r)' % (t, idx[t] - 1, st, got, want, case['threads'], case['schedule'])))
    deferred = sum(w.deferred for w in workers)
    return {'obs': obs, 'fails': fails[:2], 'nontrivial': deferred > 0,
            'tags': ['threads%d' % len(workers), 'deferred%d' % min(deferred, 3)]}


ENGINES = [SeqEngine(), SchedEngine(), AliasEngine(), DeferredEngine()]
