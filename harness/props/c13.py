"""C13 — registration is transparent to the registered function or class (partial)."""
import abc
import collections
import inspect
import pickle
import sys
import types

from harness import common as C
from harness.common import T
from harness.main import Engine

PID = 'C13'
LEVEL = 'translation_validation'
RULE = ('registry/shapes: sequences of registrations over {function, builtin, method-wrapper, callable object} and class '
        'shapes {__init__, __new__, both, neither, custom metaclass, __slots__, namedtuple, abstract base, class with a '
        'registered method} x {configurable, register, external_configurable} x {unscoped, scoped}, with valid and invalid '
        'names / modules, duplicate names with the same or a different object, unknown names in allow / deny lists, both '
        'lists, non-list lists, locked config, interactive mode switched by any (also unbalanced / repeated) sequence of '
        'enter / exit calls and interactive_mode() blocks with registrations inside them (whether a re-registration may '
        'pass is decided by the harness\'s own account of that switch, not by gin\'s flag); classes whose registered method '
        'has a registered name other than its attribute name, clashing (or not) with a held full name. Observed: outcome class, registry keys after every '
        'op (model-compared), and on the implementation: direct calls of the original receive nothing, registry handles '
        'inject, name / doc / signature / module preserved, subclass relation, type(instance) is original when no registered '
        'methods, pickling. non-trivial = a class shape registered through register / external_configurable and used scoped, '
        'or a rejected registration following accepted ones.')
TRUSTED_BASE = [
    'Coq 8.16.1 kernel; vm_compute in the correspondence run',
    'hand-written model coq/Model/Registry.v of gin/config.py:1677-1732 (validation order, duplicate check, list checks, registry update last) and of the return conventions / instance-class decision; tied to /repo by harness/props/c13.py',
    "NOT modelled (observed only): CPython's type / metaclass / pickle / functools.wraps behaviour",
]
ASSUMPTIONS = ['partial: the proved part is the registration state machine; transparency of the wrappers is checked on the implementation']

MOD = 'c13_shapes_module'
SHAPE_SRC = '''
import abc, collections
def fn(a, b=2): "doc of fn"; return (a, b)
class WithInit:
  "doc of WithInit"
  def __init__(self, a=1, b=2): self.a, self.b = a, b
class WithNew:
  "doc of WithNew"
  def __new__(cls, a=1, b=2):
    o = super().__new__(cls); o.a, o.b = a, b; return o
class WithBoth:
  def __new__(cls, a=1, b=2): return super().__new__(cls)
  def __init__(self, a=1, b=2): self.a, self.b = a, b
class Neither:
  "doc of Neither"
class Meta(type):
  def __call__(cls, *args, **kwargs):
    o = super().__call__(*args, **kwargs); o.via_meta = True; return o
class WithMeta(metaclass=Meta):
  def __init__(self, a=1, b=2): self.a, self.b = a, b
class Slotted:
  __slots__ = ('a', 'b')
  def __init__(self, a=1, b=2): self.a, self.b = a, b
NT = collections.namedtuple('NT', ['a', 'b'])
class Abstract(abc.ABC):
  def __init__(self, a=1, b=2): self.a, self.b = a, b
  @abc.abstractmethod
  def go(self): pass
class Concrete(Abstract):
  def go(self): return self.a
class Callable:
  def __call__(self, a=1, b=2): return (a, b)
callable_obj = Callable()
import functools
fn_deco = functools.wraps(fn)(lambda *args, **kwargs: fn(*args, **kwargs))    # an ordinary decorator around fn: another object
'''
SHAPES = ['fn', 'WithInit', 'WithNew', 'WithBoth', 'Neither', 'WithMeta', 'Slotted', 'NT', 'Concrete', 'builtin', 'callable_obj', 'fn_deco']
APIS = ['configurable', 'register', 'external']


def load_shapes():
  mod = types.ModuleType(MOD)
  exec(SHAPE_SRC, mod.__dict__)  # pylint: disable=exec-used
  for n, v in list(mod.__dict__.items()):
    if isinstance(v, type) or inspect.isfunction(v):
      try:
        v.__module__ = MOD
      except (AttributeError, TypeError):
        pass
  sys.modules[MOD] = mod
  return mod


class RegEngine(Engine):
  name = 'registry-shapes'
  imports = 'Model.Registry'
  run_fn = 'Registry.run'

  def budget(self, tier):
    return 1200 if tier == 'quick' else 20000

  def corpus(self):
    base = {'api': 'register', 'shape': 'WithInit', 'name': None, 'module': None, 'allow': [], 'deny': [], 'lists_ok': True, 'scoped': False}
    cs = []
    for shape in SHAPES:
      for api in APIS:
        for scoped in (False, True):
          cs.append([['reg', dict(base, api=api, shape=shape, scoped=scoped, name='cobj' if shape == 'callable_obj' else None)]])
    cs.append([['reg', dict(base, name='x', module='m')], ['reg', dict(base, shape='WithNew', name='x', module='m')],
               ['enter_interactive'], ['reg', dict(base, shape='WithNew', name='x', module='m')], ['exit_interactive'],
               ['interactive_block', True], ['reg', dict(base, shape='Slotted', name='x', module='m')],
               ['reg', dict(base, shape='fn', name='x', module='m')], ['lock'], ['reg', dict(base, shape='fn', name='y')], ['unlock'],
               ['reg', dict(base, shape='fn', name='bad-name')], ['reg', dict(base, shape='fn', name='ok', module='bad module')],
               ['reg', dict(base, shape='fn', name='z', allow=['a'], deny=['b'])], ['reg', dict(base, shape='fn', name='z', allow=['nope'])],
               ['reg', dict(base, shape='fn', name='z', deny=['a'], lists_ok=False)], ['reg', dict(base, shape='fn', name='pkg.sub.q')]])
    # interactive mode is a switch, not a count: unbalanced (idempotent) enter / exit calls, and registrations made INSIDE an
    # interactive_mode() block (third element of the op: the operations of the block's body)
    x = lambda shape, **kw: ['reg', dict(base, shape=shape, name='x', module='m', **kw)]
    cs.append([x('WithInit'), ['exit_interactive'], x('WithNew'), ['interactive_block', False, [x('Slotted')]], x('fn')])
    cs.append([x('fn'), ['enter_interactive'], ['enter_interactive'], x('WithNew', api='external'), ['exit_interactive'],
               x('Slotted', api='configurable')])
    cs.append([x('WithInit'), ['interactive_block', True, [['enter_interactive'], x('fn', api='external')]], x('NT'),
               ['exit_interactive'], ['exit_interactive'], ['interactive_block', False, [['exit_interactive'], x('Concrete')]],
               ['interactive_block', False, [x('Concrete')]], x('WithBoth')])
    return cs

  def gen_reg(self, rng):
    req = {'api': rng.choice(APIS), 'shape': rng.choice(SHAPES),
           'name': rng.choice([None, None, 'x', 'y', 'pkg.q', 'bad-name', '1x', 'x', 'x\n', 'pkg.q\n']),
           'module': rng.choice([None, None, 'm', 'm.n', 'bad module', '', 'm\n']),
           'allow': [], 'deny': [], 'lists_ok': True, 'scoped': rng.random() < 0.4}
    x = rng.random()
    if x < 0.15:
      req['allow'] = rng.choice([['a'], ['a', 'b'], ['nope']])
    elif x < 0.3:
      req['deny'] = rng.choice([['b'], ['nope']])
    elif x < 0.35:
      req['allow'], req['deny'] = ['a'], ['b']
    elif x < 0.4:
      req['deny'], req['lists_ok'] = ['a'], False
    if req['shape'] == 'callable_obj' and req['name'] is None:
      req['name'] = 'cobj'       # a callable object has no __name__: the API requires an explicit name
    return req

  @staticmethod
  def other_object(rng, req, extra=()):
    """the request of a DIFFERENT object for the full name `req` spells"""
    return dict(req, shape=rng.choice([sh for sh in SHAPES if sh not in (req['shape'], 'callable_obj', 'builtin')] + list(extra)),
                api=rng.choice(APIS), allow=[], deny=[], lists_ok=True)

  def gen(self, rng, tier):
    ops = []
    named = []       # requests that spell a full name explicitly (candidates for a later re-registration)

    def reg_ops(into):
      req = self.gen_reg(rng)
      into.append(['reg', req])
      explicit = req['name'] in ('x', 'y', 'pkg.q') and req['module'] in (None, 'm', 'm.n')
      if explicit:
        named.append(req)
      if rng.random() < 0.12 and explicit:
        # a DIFFERENT object that is itself registered already (under another name), or a decorator around the object
        # registered first, asks for the full name that is now taken
        other = self.other_object(rng, req, ['builtin'] + (['fn_deco'] * 4 if req['shape'] == 'fn' else []))
        if other['shape'] != 'fn_deco' or rng.random() < 0.5:
          into.append(['reg', dict(other, name='elsewhere')])
        into.append(['reg', other])

    def again(into, p):
      # after the interactive mode was switched (in whatever direction, however often): a different object for a taken name
      if named and rng.random() < p:
        into.append(['reg', self.other_object(rng, rng.choice(named))])

    for _ in range(rng.randint(1, 7)):
      r = rng.random()
      if r < 0.7:
        reg_ops(ops)
      elif r < 0.77:
        # with gin.config.interactive_mode(): <body> (maybe left by an exception); half of the blocks have a body
        op = ['interactive_block', rng.random() < 0.5]
        if rng.random() < 0.6:
          body = []
          for _ in range(rng.randint(1, 3)):
            y = rng.random()
            if y < 0.35:
              reg_ops(body)
            elif y < 0.7:
              again(body, 1.0)
            elif y < 0.85:
              body.append(['enter_interactive'])
            else:
              body.append(['exit_interactive'])
          op.append(body)
        ops.append(op)
        again(ops, 0.6)
      elif r < 0.82:
        ops.append(['enter_interactive'])
        again(ops, 0.5)
      elif r < 0.89:
        ops.append(['exit_interactive'])
        again(ops, 0.6)
      elif r < 0.95:
        ops.append(['lock'])
      else:
        ops.append(['unlock'])
    return ops

  def shrink(self, case):
    for i in range(len(case)):
      yield case[:i] + case[i + 1:]
    for i, op in enumerate(case):
      if op[0] == 'interactive_block' and len(op) > 2:
        for j in range(len(op[2])):
          yield case[:i] + [[op[0], op[1], op[2][:j] + op[2][j + 1:]]] + case[i + 1:]
        if op[1]:
          yield case[:i] + [[op[0], False, op[2]]] + case[i + 1:]

  def obj_of(self, mod, shape):
    if shape == 'builtin':
      return sum
    return getattr(mod, shape)

  @staticmethod
  def metadata(obj):
    try:
      sig = str(inspect.signature(obj))
    except (ValueError, TypeError) as e:
      sig = 'no signature: ' + type(e).__name__
    return (getattr(obj, '__name__', None), getattr(obj, '__doc__', None), sig)

  def request_coq(self, mod, req, ids):
    obj = self.obj_of(mod, req['shape'])
    is_class = inspect.isclass(obj)
    name = req['name'] if req['name'] is not None else obj.__name__ if hasattr(obj, '__name__') else None
    if name is None:
      name = 'NONAME'
    import re
    if re.fullmatch(r'[a-zA-Z_]\w*', name):
      module = req['module'] if req['module'] is not None else getattr(obj, '__module__', None)
    else:
      module = req['module']
    params = ['iterable', 'start'] if req['shape'] == 'builtin' else ['a', 'b'] if req['shape'] != 'Neither' else []
    varkw = req['shape'] == 'Neither'   # object.__init__(self, /, *args, **kwargs)
    oid = ids.setdefault(req['shape'], len(ids))
    return ('{| r_api := %s; r_obj := %d; r_is_class := %s; r_name := %s; r_module := %s; r_allow := %s; r_deny := %s; '
            'r_lists_are_lists := %s; r_params := %s; r_varkw := %s; r_required_listed := false; r_registered_methods := false |}' % (
                {'configurable': 'ApiConfigurable', 'register': 'ApiRegister', 'external': 'ApiExternal'}[req['api']], oid,
                C.cbool(is_class), C.cstr(name), C.copt(module, C.cstr), C.cstrs(req['allow']), C.cstrs(req['deny']),
                C.cbool(req['lists_ok']), C.cstrs(params), C.cbool(varkw)))

  def to_coq(self, case):
    mod = load_shapes()
    ids = {}
    out = []

    def walk(ops):
      for op in ops:
        if op[0] == 'reg':
          out.append('(RReg %s)' % self.request_coq(mod, op[1], ids))
        elif op[0] == 'interactive_block' and len(op) > 2:     # a block with a body: enter, the body, exit
          out.append('REnterInteractive')
          walk(op[2])
          out.append('RExitInteractive')
        else:
          out.append({'enter_interactive': 'REnterInteractive', 'exit_interactive': 'RExitInteractive', 'lock': 'RLock',
                      'unlock': 'RUnlock', 'interactive_block': 'RExitInteractive'}[op[0]])
    walk(case)
    return C.clist(out) if out else '(@nil rop)'

  def impl(self, case):
    gin = C.fresh_gin()
    cfg = gin.config
    pristine = load_shapes()     # a copy of every shape that Gin never sees: what name / docstring / signature the original has
    reference = {sh: self.metadata(self.obj_of(pristine, sh)) for sh in SHAPES}
    mod = load_shapes()
    obs, fails, tags = [], [], []
    builtin_keys = {k for k, _ in cfg._REGISTRY.items()}  # pylint: disable=protected-access
    st = {'accepted': 0, 'nontrivial': False,
          # the harness's own account of the interactive mode, from the calls made: a switch that enter_interactive_mode() /
          # entering an interactive_mode() block turns on and exit_interactive_mode() / leaving the block turns off
          'interactive': False}
    mutated = set()     # classes gin.configurable has (by design) wrapped in place
    held = {}           # full name -> the shape registered under it (the harness's own bookkeeping)

    def run_op(op):
      if op[0] == 'reg':
        return run_reg(op[1])
      if op[0] == 'interactive_block':
        was = bool(cfg._INTERACTIVE_MODE)  # pylint: disable=protected-access
        try:
          with cfg.interactive_mode():
            st['interactive'] = True
            if len(op) > 2:
              obs.append(None)
              for inner in op[2]:
                run_op(inner)
            if op[1]:
              raise KeyError('boom')
        except KeyError:
          pass
        st['interactive'] = False        # "interactive mode, which ends when its block exits"
        if not was and bool(cfg._INTERACTIVE_MODE):  # (entered while already interactive, the block switches it off: by design)  pylint: disable=protected-access
          fails.append(('interactive-mode-not-restored', 'interactive_mode() block entered with %r, left (%s) with %r' %
                        (was, 'by an exception' if op[1] else 'normally', bool(cfg._INTERACTIVE_MODE))))  # pylint: disable=protected-access
      elif op[0] == 'enter_interactive':
        cfg.enter_interactive_mode()
        st['interactive'] = True
      elif op[0] == 'exit_interactive':
        cfg.exit_interactive_mode()
        st['interactive'] = False
      elif op[0] == 'lock':
        cfg._set_config_is_locked(True)  # pylint: disable=protected-access
      else:
        cfg._set_config_is_locked(False)  # pylint: disable=protected-access
      obs.append(None)
      return None

    def run_reg(req):
      if True:  # pylint: disable=using-constant-test
        obj = self.obj_of(mod, req['shape'])
        before = [k for k, _ in cfg._REGISTRY.items()]  # pylint: disable=protected-access
        was_locked = bool(cfg.config_is_locked())
        was_interactive = st['interactive']      # (the harness's account, not gin's _INTERACTIVE_MODE)
        allow = req['allow'] or None
        deny = req['deny'] or None
        if not req['lists_ok']:
          allow = set(allow) if allow else allow
          deny = set(deny) if deny else deny
        snapshot = {a: obj.__dict__.get(a) for a in ('__init__', '__new__', '__call__')} if inspect.isclass(obj) else None
        try:
          if req['api'] == 'configurable':
            ret = gin.configurable(req['name'], module=req['module'], allowlist=allow, denylist=deny)(obj) \
                if req['name'] else gin.configurable(module=req['module'], allowlist=allow, denylist=deny)(obj)
          elif req['api'] == 'register':
            ret = gin.register(req['name'], module=req['module'], allowlist=allow, denylist=deny)(obj) \
                if req['name'] else gin.register(module=req['module'], allowlist=allow, denylist=deny)(obj)
          else:
            ret = gin.external_configurable(obj, req['name'], module=req['module'], allowlist=allow, denylist=deny)
          exc = None
        except Exception as e:  # pylint: disable=broad-except
          exc, ret, msg = type(e).__name__, None, str(e)
          if exc == 'AttributeError' and req['shape'] == 'callable_obj' and "'__name__'" in str(e):
            exc = 'ValueError'     # the rejection message itself needs fn.__name__: still a rejection of the bad list
        after = [k for k, _ in cfg._REGISTRY.items()]  # pylint: disable=protected-access
        keys = [k for k in after if k not in builtin_keys]
        if was_locked and exc is None:
          # no registration of any kind while the configuration is locked (also not of an object registered before)
          fails.append(('registration-while-locked-accepted', '%s(%s, name=%r, module=%r) returned although the config is locked' %
                        (req['api'], req['shape'], req['name'], req['module'])))
        if exc:
          obs.append([T('Rejected', exc), keys])
          tags.append('rejected:' + exc)
          if after != before:
            fails.append(('rejected-registration-changed-registry', '%r: %r -> %r' % (req, before, after)))
          if was_interactive and 'already exists' in msg:
            # "only inside interactive mode ... may an existing name be re-registered": inside it, it may
            fails.append(('re-registration-inside-interactive-mode-rejected', 'inside interactive mode (switched on by the calls '
                          'made so far) %s(%s, name=%r, module=%r) was refused: %s' % (
                              req['api'], req['shape'], req['name'], req['module'], msg.split('\n')[0])))
          if st['accepted']:
            st['nontrivial'] = True
          return
        st['accepted'] += 1
        new = [k for k in after if k not in before]
        sel = new[0] if new else None
        if sel is None:       # re-registration of an existing selector: the one the request spells
          name = req['name'] or getattr(obj, '__name__', '')
          import re as _re
          module = (req['module'] if req['module'] is not None else getattr(obj, '__module__', None)) \
              if _re.fullmatch(r'[a-zA-Z_]\w*', name) else req['module']
          want = (module + '.' + name) if module else name
          cands = [k for k in after if k == want] or [k for k in after if k == name or k.endswith('.' + name)]
          sel = cands[-1] if cands else '?'
        obs.append([T('Registered', sel, req['api'] == 'register'), keys])
        if sel in held and held[sel] != req['shape'] and not was_interactive:
          fails.append(('different-object-under-existing-name-accepted', 'outside interactive mode %s(%s) was accepted under the '
                        'full name %r, which is held by %s' % (req['api'], req['shape'], sel, held[sel])))
        held[sel] = req['shape']
        tags.append('%s:%s' % (req['api'], req['shape']))
        # ---- transparency checks on the implementation
        if req['api'] == 'configurable':
          mutated.add(req['shape'])
        if req['api'] in ('register', 'external') and req['shape'] not in mutated:
          if req['api'] == 'register' and ret is not obj:
            fails.append(('register-did-not-return-original', req['shape']))
          if inspect.isclass(obj) and {a: obj.__dict__.get(a) for a in ('__init__', '__new__', '__call__')} != snapshot:
            fails.append(('registration-mutated-the-class', req['shape']))
          if not cfg.config_is_locked() and 'a' in (['a', 'b'] if req['shape'] not in ('Neither', 'builtin') else []) \
             and not (req['allow'] and 'a' not in req['allow']) and 'a' not in req['deny']:
            try:
              gin.bind_parameter(sel + '.a', 'INJECTED')
              handle = gin.get_configurable(('sc/' if req['scoped'] else '') + sel)
              if inspect.isclass(obj):
                if req['shape'] != 'NT':
                  direct = obj()
                  if getattr(direct, 'a', None) == 'INJECTED':
                    fails.append(('direct-call-received-injected-value', req['shape']))
                inst = handle() if req['shape'] != 'NT' else handle(b=0)
                if getattr(inst, 'a', None) != 'INJECTED':
                  fails.append(('registry-handle-did-not-inject', '%s: %r' % (req['shape'], getattr(inst, 'a', None))))
                if type(inst) is not obj:
                  fails.append(('instance-not-of-original-class', '%s: %r' % (req['shape'], type(inst))))
                if not (inspect.isclass(handle) and issubclass(handle, obj)):
                  fails.append(('handle-not-a-subclass', req['shape']))
                elif (handle.__name__, handle.__module__, handle.__doc__) != (obj.__name__, obj.__module__, obj.__doc__):
                  fails.append(('handle-metadata-differs', '%r vs %r' % ((handle.__name__, handle.__module__), (obj.__name__, obj.__module__))))
                try:
                  pickle.dumps(obj() if req['shape'] != 'NT' else obj(1, 2))
                  picklable = True
                except Exception:  # pylint: disable=broad-except
                  picklable = False
                if picklable:
                  try:
                    back = pickle.loads(pickle.dumps(inst))
                    if type(back) is not obj:
                      fails.append(('pickle-changed-type', req['shape']))
                  except Exception as e:  # pylint: disable=broad-except
                    fails.append(('instance-does-not-pickle', '%s: %s' % (req['shape'], e)))
                if req['api'] != 'configurable':
                  st['nontrivial'] = st['nontrivial'] or req['scoped']
              elif req['shape'] in ('fn', 'callable_obj'):
                direct = obj(0) if req['shape'] == 'fn' else obj()
                if 'INJECTED' in (direct if isinstance(direct, tuple) else ()):
                  fails.append(('direct-call-received-injected-value', req['shape']))
                got = handle()
                if 'INJECTED' not in got:
                  fails.append(('registry-handle-did-not-inject', '%s: %r' % (req['shape'], got)))
              gin.clear_config()
            except Exception as e:  # pylint: disable=broad-except
              fails.append(('transparency-check-raised', '%s %s: %s: %s' % (req['api'], req['shape'], type(e).__name__, str(e)[:150])))
        else:
          if inspect.isfunction(obj):
            if (ret.__name__, ret.__doc__) != (obj.__name__, obj.__doc__) or str(inspect.signature(ret)) != str(inspect.signature(obj)):
              fails.append(('configurable-changed-metadata', req['shape']))
          # "gin.configurable returns an object with the original's name, docstring and signature": for every shape (classes are
          # wrapped in place, so the comparison is with the never-registered copy of the shape)
          got, want = self.metadata(ret), reference[req['shape']]
          if want[0] is None:        # a callable object has no __name__ of its own to keep
            got = (None,) + got[1:]
          if req['api'] == 'configurable' and got != want:
            fails.append(('configurable-changed-metadata', '%s: gin.configurable returned (name, doc, signature) %r, the original has %r' % (
                req['shape'], self.metadata(ret), reference[req['shape']])))
        if req['shape'] in ('fn', 'builtin', 'fn_deco') and not cfg.config_is_locked():
          # the registry's version of a plain callable: same name, docstring and signature, and it is what the selector, the
          # original object and the version itself lead to
          try:
            h = gin.get_configurable(sel)
            if (h.__name__, h.__doc__) != (obj.__name__, obj.__doc__) or str(inspect.signature(h)) != str(inspect.signature(obj)):
              fails.append(('configurable-changed-metadata', '%s: registry version %s%s, original %s%s' % (
                  req['shape'], h.__name__, inspect.signature(h), obj.__name__, inspect.signature(obj))))
            if gin.get_configurable(h) is not h or (req['shape'] != 'fn_deco' and gin.get_configurable(obj) is not h):
              fails.append(('registry-version-not-reachable', '%s registered as %s: get_configurable(version / original) is not '
                            'the version the selector yields' % (req['shape'], sel)))
          except Exception as e:  # pylint: disable=broad-except
            fails.append(('transparency-check-raised', '%s %s: %s: %s' % (req['api'], req['shape'], type(e).__name__, str(e)[:150])))
    for op in case:
      run_op(op)
    cfg.exit_interactive_mode()
    return {'obs': obs, 'fails': fails[:3], 'nontrivial': st['nontrivial'], 'tags': tags}



class MethodEngine(Engine):
  """classes with Gin-registered methods: Class.method addressing, instance of the (dynamic sub)class, and the
  corner where the class registration is rejected after its methods were looked up (implementation-only checks)"""
  name = 'registry-methods'
  model = False

  def budget(self, tier):
    return 0

  def corpus(self):
    # method_name: the name the method is registered under (None: its own, i.e. its attribute name)
    return [{'reject': r, 'api': a, 'scoped': s, 'method_name': m}
            for m in (None, 'step')
            for r in (False, True, 'bad-allow', 'bad-deny', 'both', 'nonlist', 'bad-name', 'locked')
            for a in ('register', 'external') for s in (False, True)]

  def gen(self, rng, tier):
    return self.corpus()[0]

  def impl(self, case):
    gin = C.fresh_gin()
    cfg = gin.config
    fails = []
    ns = {}
    exec('class K:\n  def __init__(self, a=DEFAULT):\n    self.a = a\n  def meth(self, x=1):\n    return x\n',  # pylint: disable=exec-used
         {'DEFAULT': gin.REQUIRED if case['reject'] else 5}, ns)
    K = ns['K']
    K.__module__ = 'mm'
    K.meth.__module__ = 'mm'
    K.meth.__qualname__ = 'K.meth'
    mname = case.get('method_name') or 'meth'
    if case.get('method_name'):
      gin.register(case['method_name'])(K.meth)
    else:
      gin.register(K.meth)
    before = sorted(k for k, _ in cfg._REGISTRY.items())  # pylint: disable=protected-access
    kw = {False: {}, True: {'denylist': ['a']}, 'bad-allow': {'allowlist': ['nope']}, 'bad-deny': {'denylist': ['nope']},
          'both': {'allowlist': ['a'], 'denylist': ['a']}, 'nonlist': {'allowlist': 'a'}, 'bad-name': {'module': 'bad module'},
          'locked': {}}[case['reject']]
    if case['reject'] == 'locked':
      gin.finalize()
    try:
      if case['api'] == 'register':
        gin.register(**kw)(K)
      else:
        gin.external_configurable(K, **kw)
      exc = None
    except Exception as e:  # pylint: disable=broad-except
      exc = type(e).__name__
    after = sorted(k for k, _ in cfg._REGISTRY.items())  # pylint: disable=protected-access
    obs = [exc, [k for k in after if k not in before]]
    if case['reject']:
      if exc is None:
        fails.append(('invalid-class-registration-accepted', repr(case['reject'])))
      elif case['reject'] is True and exc != 'ValueError':
        fails.append(('required-denylisted-class-accepted', repr(exc)))
      if after != before:
        fails.append(('rejected-registration-changed-registry', '%r: registry before %r after %r' % (case['reject'], before, after)))
      if case['reject'] != 'locked':
        try:
          gin.bind_parameter('mm.%s.x' % mname, 3)      # the separately registered method is still addressable as before
        except Exception as e:  # pylint: disable=broad-except
          fails.append(('rejected-registration-lost-method', '%s: %s' % (type(e).__name__, str(e)[:120])))
    else:
      if exc is not None:
        fails.append(('valid-class-rejected', exc))
      else:
        try:
          gin.bind_parameter('K.%s.x' % mname, 7)
          handle = gin.get_configurable(('sc/' if case['scoped'] else '') + 'K')
          inst = handle()
          if not isinstance(inst, K):
            fails.append(('instance-not-of-original-class', repr(type(inst))))
          if inst.meth() != 7:
            fails.append(('registered-method-not-configured', repr(inst.meth())))
          if K().meth() != 1:
            fails.append(('direct-call-received-injected-value', 'K().meth()'))
          try:
            gin.bind_parameter('%s.x' % mname, 8)
            fails.append(('method-addressable-without-class', ''))
          except ValueError:
            pass
        except Exception as e:  # pylint: disable=broad-except
          fails.append(('method-check-raised', '%s: %s' % (type(e).__name__, e)))
    return {'obs': obs, 'fails': fails, 'nontrivial': True, 'tags': ['reject' if case['reject'] else 'accept']}


class MethodNameClashEngine(Engine):
  """registering a class re-homes its separately registered methods under <class selector>.<registered method name>: that
  full name may already be held by a DIFFERENT object (a function or class registered there through an explicit module or a
  dotted name).  From the property text: outside interactive mode the class registration is then rejected without registering
  anything (the holder keeps the name, the class stays unregistered, the methods stay addressable as before); inside
  interactive mode the re-registration is permitted; when the holder is the method itself, or nobody, the class is accepted.
  Also the reverse order (class first, then the other object asks for <class>.<method>).  Implementation only.

  Dimensions: the name the method is registered under (`method_name`: its own, or another one than its attribute name --
  @gin.register('step') def meth(self, ...)); which full name the other object holds (`occupies`: the one the method is
  re-homed to, or -- a decoy, no clash -- <class selector>.<attribute name>); how the interactive mode was switched before
  the second registration (`mode_ops`: any sequence of enter / exit calls and blocks, balanced or not; the expectation comes
  from the harness's own account of that switch)."""
  name = 'method-name-clash'
  model = False

  def budget(self, tier):
    return 60 if tier == 'quick' else 600

  MODE_OPS = [['exit'], ['enter', 'enter', 'exit'], ['exit', 'in-block'], ['block'], ['enter', 'block'], ['exit', 'enter'],
              ['in-block'], ['exit', 'block'], ['enter', 'exit', 'exit', 'in-block']]

  def corpus(self):
    cs = []
    for mname in (None, 'step'):
      for api in ('register', 'external'):
        for occupant in ('function', 'class', 'self', 'none'):
          for spelling in ('module', 'dotted'):
            for interactive in (False, True):
              for two in (False, True):
                for order in ('occupant-first', 'class-first'):
                  if order == 'class-first' and occupant in ('self', 'none'):
                    continue
                  if occupant in ('none', 'self') and spelling == 'dotted':
                    continue       # (a method registered as 'K.meth' in module mm is re-homed as mm.K.K.meth: not its own name)
                  cs.append({'api': api, 'occupant': occupant, 'spelling': spelling, 'interactive': interactive,
                             'two_methods': two, 'order': order, 'method_name': mname, 'occupies': 'registered'})
                  if mname and occupant in ('function', 'class') and not two:
                    cs.append(dict(cs[-1], occupies='attribute'))
        for order in ('occupant-first', 'class-first'):
          for ops in self.MODE_OPS[:7]:
            cs.append({'api': api, 'occupant': 'function', 'spelling': 'module', 'interactive': None, 'mode_ops': ops,
                       'two_methods': False, 'order': order, 'method_name': mname, 'occupies': 'registered'})
    return cs

  def gen(self, rng, tier):
    occupant = rng.choice(['function', 'function', 'class', 'self', 'none'])
    case = {'api': rng.choice(['register', 'external']), 'occupant': occupant,
            'spelling': rng.choice(['module', 'dotted']) if occupant in ('function', 'class') else 'module',
            'interactive': None, 'two_methods': rng.random() < 0.3,
            'order': rng.choice(['occupant-first', 'class-first']) if occupant in ('function', 'class') else 'occupant-first',
            'method_name': rng.choice([None, 'step', 'step', 'run_2']), 'occupies': 'registered'}
    if case['method_name'] and occupant in ('function', 'class') and rng.random() < 0.3:
      case['occupies'] = 'attribute'
    ops = [rng.choice(['enter', 'exit', 'block']) for _ in range(rng.randint(0, 4))]
    if rng.random() < 0.3:
      ops.append('in-block')
    case['mode_ops'] = ops
    return case

  def shrink(self, case):
    ops = case.get('mode_ops')
    if ops:
      for i in range(len(ops)):
        yield dict(case, mode_ops=ops[:i] + ops[i + 1:])
    if case.get('two_methods'):
      yield dict(case, two_methods=False)

  def impl(self, case):
    gin = C.fresh_gin()
    cfg = gin.config
    fails = []
    ns = {'gin': gin, '__name__': 'mm'}
    reg_as = case.get('method_name')                 # None: registered under its own (attribute) name
    mname = reg_as or 'meth'
    deco = "  @gin.register(%r)\n" % reg_as if reg_as else '  @gin.register\n'
    exec('class K:\n  def __init__(self, a=5):\n    self.a = a\n' +  # pylint: disable=exec-used
         deco + '  def meth(self, x=1):\n    return ("method", x)\n' +
         ('  @gin.register\n  def alpha(self, x=1):\n    return ("alpha", x)\n' if case['two_methods'] else '') +
         'def other_fn(x=1):\n  return ("function", x)\n'
         'class OtherCls:\n  def __init__(self, x=1):\n    self.x = x\n', ns)
    K = ns['K']
    full = 'mm.K.' + mname                           # where registering the class re-homes the method
    decoy = case.get('occupies', 'registered') == 'attribute'
    taken_last = 'meth' if decoy else mname          # the last component of the full name the other object holds
    taken = 'mm.K.' + taken_last
    occupant = {'function': ns['other_fn'], 'class': ns['OtherCls'], 'self': K.meth, 'none': None}[case['occupant']]
    registry = lambda: sorted(k for k, _ in cfg._REGISTRY.items())  # pylint: disable=protected-access
    holder = lambda name=None: (cfg._REGISTRY[name or full].wrapped if (name or full) in cfg._REGISTRY else None)  # pylint: disable=protected-access

    def register_occupant():
      if case['spelling'] == 'module':
        return gin.register(taken_last, module='mm.K')(occupant)
      return gin.register('K.' + taken_last, module='mm')(occupant)

    def register_class():
      if case['api'] == 'register':
        return gin.register(K)
      return gin.external_configurable(K)

    steps = [register_occupant, register_class] if case['order'] == 'occupant-first' else [register_class, register_occupant]
    if occupant is None:
      steps = [register_class]
    if occupant is K.meth:
      # the method itself is registered under its final name: drop the registration the class body made
      gin.clear_config()
      gin = C.fresh_gin()
      cfg = gin.config
      ns['gin'] = gin
      exec('class K:\n  def __init__(self, a=5):\n    self.a = a\n'  # pylint: disable=exec-used
           '  def meth(self, x=1):\n    return ("method", x)\n' +
           ('  @gin.register\n  def alpha(self, x=1):\n    return ("alpha", x)\n' if case['two_methods'] else ''), ns)
      K = ns['K']
      occupant = K.meth
      steps = [register_occupant, lambda: (gin.register(K) if case['api'] == 'register' else gin.external_configurable(K))]
    try:
      steps[0]()
    except Exception as e:  # pylint: disable=broad-except
      return {'obs': ['setup', type(e).__name__], 'fails': [('valid-registration-rejected', 'first step: %s: %s' % (type(e).__name__, str(e)[:120]))],
              'nontrivial': False, 'tags': ['setup-failed']}
    if len(steps) == 1:
      obs = ['accepted']
      if holder() is not K.meth:
        fails.append(('method-not-rehomed', repr(holder())))
      return {'obs': obs, 'fails': fails, 'nontrivial': False, 'tags': ['control']}
    held_before, before = holder(taken), registry()
    # the interactive mode before the second registration: gin is driven through the calls, the expectation is the harness's
    # own account of them (a switch: enter / entering a block turn it on, exit / leaving a block turn it off)
    mode_ops = case.get('mode_ops')
    if mode_ops is None:
      mode_ops = ['enter'] if case['interactive'] else []
    interactive = False
    for mo in mode_ops:
      if mo == 'enter':
        cfg.enter_interactive_mode()
        interactive = True
      elif mo == 'exit':
        cfg.exit_interactive_mode()
        interactive = False
      elif mo == 'block':
        with cfg.interactive_mode():
          pass
        interactive = False
    in_block = bool(mode_ops) and mode_ops[-1] == 'in-block'
    try:
      if in_block:
        interactive = True
        with cfg.interactive_mode():
          steps[1]()
      else:
        steps[1]()
      exc = None
    except Exception as e:  # pylint: disable=broad-except
      exc = type(e).__name__
    finally:
      cfg.exit_interactive_mode()
    after, held_after = registry(), holder(taken)
    second = 'class K' if case['order'] == 'occupant-first' else case['occupant']
    different = occupant is not K.meth
    how = 'mode calls %r' % (mode_ops,)
    if different and not decoy and not interactive:
      # "a different object under an existing full name [is] rejected without registering anything"
      if exc is None:
        fails.append(('different-object-under-existing-name-accepted',
                      'outside interactive mode (%s) registering %s was accepted although the full name %r was held by %r: it '
                      'now resolves to %r' % (how, second, full, held_before, held_after)))
      else:
        if exc != 'ValueError':
          fails.append(('rejected-with-unexpected-exception', exc))
        if after != before or held_after is not held_before:
          fails.append(('rejected-registration-changed-registry', 'registry before %r after %r; %r held by %r, now %r' % (
              before, after, full, held_before, held_after)))
        if case['order'] == 'occupant-first':
          try:
            gin.bind_parameter('mm.%s.x' % mname, 3)        # the separately registered method is still addressable as before
          except Exception as e:  # pylint: disable=broad-except
            fails.append(('rejected-registration-lost-method', '%s: %s' % (type(e).__name__, str(e)[:120])))
    else:
      # the same object under its own name, a name nobody holds, or interactive mode: "may an existing name be re-registered"
      if exc is not None:
        fails.append(('permitted-registration-rejected', '%s registering %s (%s)' % (
            exc, second, 'the full name %r is held by nobody: the other object holds %r' % (full, taken) if decoy else
            'interactive mode: ' + how if different else 'the name is held by this very method')))
      elif decoy:
        if holder(full) is not K.meth or held_after is not occupant:
          fails.append(('registration-took-the-wrong-name', '%r is held by %r (the method is %r), %r by %r (the other object is %r)' % (
              full, holder(full), K.meth, taken, held_after, occupant)))
      else:
        want = K.meth if case['order'] == 'occupant-first' else occupant
        if held_after is not want:
          fails.append(('re-registration-did-not-take-the-name', '%r is held by %r' % (full, held_after)))
    return {'obs': [exc, [k for k in after if k not in before]], 'fails': fails[:3], 'nontrivial': different and not decoy,
            'tags': ['%s:%s:%s%s' % (case['order'], case['occupant'], 'interactive' if interactive else 'plain',
                                     ':decoy' if decoy else '')]}


ENGINES = [RegEngine(), MethodEngine(), MethodNameClashEngine()]
