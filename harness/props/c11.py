"""C11 — only configurable parameters of registered configurables can ever be bound."""
from harness import common as C
from harness import ginm
from harness.common import T
from harness.main import Engine
from harness.props import c01, c12

PID = 'C11'
LEVEL = 'proof'
RULE = ('gin-machine/bind: configurables with allowlist / denylist / neither, with and without **kwargs; '
        'parameter names drawn from {valid, unknown, listed, unlisted}; known / unknown / ambiguous selectors; '
        'the same logical binding issued through string keys, tuple keys, config text, scoped keys, macro form '
        'and finalize hooks; store compared before/after every rejected op. non-trivial = a rejected binding '
        'through a non-string path (tuple / text / hook) on a configurable that has a list.')
TRUSTED_BASE = c01.TRUSTED_BASE
ASSUMPTIONS = ['registered methods (Class.method addressing) are exercised by the C13 engine, not here']


def expected_accept(regs, scope, sel, arg):
  full = c12.resolve_sel(sel, regs)
  if full is None:
    return False, 'unknown-or-ambiguous'
  if full.startswith('gin.'):
    ok = {'gin.macro': ['value'], 'gin.constant': [], 'gin.singleton': ['constructor']}[full]
    return arg in ok, 'builtin'
  c = [x for x in regs if x['sel'] == full][0]
  if c.get('shape') == 'method' and '.' not in sel:
    return False, 'method-named-without-its-class'
  if arg not in ginm.sig_names(c['sig']) and not c['sig']['varkw']:
    return False, 'no-such-parameter'
  if c['allow'] and arg not in c['allow']:
    return False, 'not-allowlisted'
  if arg in c['deny']:
    return False, 'denylisted'
  return True, 'ok'


class BindEngine(Engine):
  name = 'gin-bind'
  imports = 'Model.SelectorMap Model.Values Model.Gin Model.GinEngine'
  run_fn = 'run'

  def budget(self, tier):
    return 1000 if tier == 'quick' else 25000

  def corpus(self):
    f = {'sel': 'm.f', 'sig': {'args': ['a', 'b'], 'defaults': [['i', 1]], 'varargs': False, 'kwonly': [['k1', None]],
                               'varkw': False}, 'allow': ['a', 'k1'], 'deny': []}
    g = {'sel': 'n.g', 'sig': {'args': ['a'], 'defaults': [], 'varargs': False, 'kwonly': [], 'varkw': True},
         'allow': [], 'deny': ['a']}
    return [{'regs': [f, g], 'ops': [
        ['bind', 'f.a', ['i', 1]], ['bind', 'f.b', ['i', 1]], ['bindt', 's1', 'f', 'b', ['i', 2]],
        ['pbind', 's1/s2/m.f.b', ['i', 3]], ['bind', 'g.a', ['i', 1]], ['bind', 'g.zzz', ['i', 1]],
        ['bindt', '', 'n.g', 'a', ['i', 1]], ['bind', 'nosuch.a', ['i', 1]], ['pbind', 'f.k1', ['i', 9]],
        ['hook', ['return', [['f.b', ['i', 5]]]]], ['finalize'], ['dumpconfig'], ['call', 'm.f', [['i', 0]], []],
        ['dumpcalls']]}]

  def gen(self, rng, tier):
    regs = ginm.gen_regs(rng, lists=0.6, allow_req=False, sels=['f', 'm.f', 'n.m.g', 'm.g', 'pkg.h', 'n.f'], shapes=True, methods=0.35)
    for c in regs:
      if c.get('shape', 'fn') == 'fn' and rng.random() < 0.2:
        c['shape'] = 'wrapped_fn'       # parameters are those of the wrapped function, not the wrapper's **kwargs
    ops = []
    for _ in range(rng.randint(2, 12)):
      c = rng.choice(regs)
      names = ginm.sig_names(c['sig'])
      r = rng.random()
      if r < 0.55 and names:
        p = rng.choice(names)
      elif r < 0.8:
        p = rng.choice(['zz', 'a', 'b', 'k1', 'value'])
      else:
        p = rng.choice(c['deny'] or c['allow'] or ['q'])
      x = rng.random()
      if x < 0.7:
        sel = rng.choice(ginm.spellings(c['sel'], regs))
      elif x < 0.85:
        sel = c['sel'].split('.')[-1]      # possibly ambiguous
      else:
        sel = rng.choice(['nosuch', 'x.' + c['sel'], 'gin.macro', 'macro'])
      if c.get('shape') == 'method' and rng.random() < 0.3:
        # the name the method had BEFORE its class was registered (<its module>.<name>): no longer a configurable
        sel = 'gvmod1.' + c['sel'].split('.')[-1]
      sc = '/'.join(ginm.gen_scope(rng, 2))
      v = ginm.gen_plain(rng, 1)
      key = (sc + '/' if sc else '') + sel + '.' + p
      kind = rng.random()
      if kind < 0.3:
        ops.append(['bind', key, v])
      elif kind < 0.55:
        ops.append(['bindt', sc, sel, p, v])
      elif kind < 0.8:
        ops.append(['pbind', key, v])
      elif kind < 0.9:
        ops.append(['hook', ['return', [[key, ginm.gen_plain(rng, 0)]]]])
        ops.append(['finalize'])
        ops.append(['clear', False] if rng.random() < 0.7 else ['locked'])
      else:
        ops.append(['pbind', rng.choice(['mac', 's1/mac']), v])
      if rng.random() < 0.15:
        ops.append(['query', key])
    for c in regs:
      if rng.random() < 0.5:
        ops.append(['call', c['sel'], [], []])
    ops += [['dumpconfig'], ['dumpcalls']]
    return {'regs': regs, 'ops': ops}

  def to_coq(self, case):
    return ginm.case_coq(case)

  def shrink(self, case):
    return ginm.shrink_case(case)

  def impl(self, case):
    m = ginm.Machine()
    obs = m.run(case)
    regs = case['regs']
    fails, tags, nontrivial = [], [], False
    hooks = []
    for t in m.trace:
      k, b, a, exc = t['kind'], t['before'], t['after'], t['exc']
      if k == 'hook':
        hooks.append(t['op'][1])
      if k in ('bind', 'pbind', 'bindt'):
        if k == 'bindt':
          scope, sel, arg = t['op'][1], t['op'][2], t['op'][3]
        else:
          scope, sel, arg = c12.split_key(t['op'][1])
          if k == 'pbind' and '.' not in t['op'][1].rpartition('/')[2]:
            scope, sel, arg = t['op'][1], 'gin.macro', 'value'    # macro form
        acc, why = expected_accept(regs, scope, sel, arg)
        tags.append('%s:%s' % (k, why))
        if b['locked']:
          acc = False
        if acc and exc is not None:
          fails.append(('valid-binding-rejected', '%r raised %s' % (t['op'], exc)))
        if not acc:
          if exc is None:
            fails.append(('invalid-binding-accepted', '%r accepted (%s)' % (t['op'], why)))
          elif a['config'] != b['config']:
            fails.append(('rejected-binding-changed-store', '%r raised %s but the store changed' % (t['op'], exc)))
          c = c12.resolve_sel(sel, regs)
          cc = [x for x in regs if x['sel'] == c]
          if k != 'bind' and cc and (cc[0]['allow'] or cc[0]['deny']):
            nontrivial = True
      if k == 'finalize' and exc is not None and a['config'] != b['config']:
        fails.append(('rejected-finalize-changed-store', 'finalize raised %s but the store changed' % exc))
      # store invariant: every stored parameter is a configurable parameter of a registered configurable
      for s, q, pd in a['config']:
        for p, _ in pd:
          acc, why = expected_accept(regs, s, q, p)
          if not acc:
            fails.append(('non-configurable-parameter-stored', 'store holds (%r, %r).%r: %s' % (s, q, p, why)))
    # no probe ever receives a non-configurable parameter from Gin
    for ctx in m.calls:
      if ctx['log_end'] > ctx['log_start'] and 'error' not in ctx:
        own = m.log[ctx['log_end'] - 1]
        c = [x for x in regs if x['sel'] == ctx['sel']]
        if not c:
          continue
        c = c[0]
        supplied = set(c['sig']['args'][:len(ctx['args'])]) | {kk for kk, _ in ctx['kwargs']}
        nd = len(c['sig']['defaults'])
        dflt = {x: c01.canon_plain(d) for x, d in zip(c['sig']['args'][len(c['sig']['args']) - nd:], c['sig']['defaults'])}
        dflt.update({n: c01.canon_plain(d) for n, d in c['sig']['kwonly'] if d is not None})
        for p, v in own[2]:
          if p in ('*', '**', 'self', 'cls') or p in supplied:
            continue
          if ((c['allow'] and p not in c['allow']) or p in c['deny']) and v != dflt.get(p, '<nodefault>'):
            fails.append(('non-configurable-parameter-injected', '%s.%s received %r (default %r)' %
                          (ctx['sel'], p, v, dflt.get(p))))
    fails = m.readback_fails() + fails
    return {'obs': obs, 'fails': fails[:3], 'nontrivial': nontrivial, 'tags': tags}


class MethodRenameEngine(Engine):
  """a method registered on its own is bound (and possibly called) under its provisional name; registering its class
  then renames it to <Class>.<method>.  The store must keep naming a registered configurable (the binding follows the
  rename), the method must receive it, and config_str / operative_config_str must stay printable.  Implementation only:
  the Gin-machine model has no provisional method names."""
  name = 'method-rename'
  model = False

  def budget(self, tier):
    return 0

  def corpus(self):
    return [{'api': a, 'call_before': c, 'scope': s} for a in ('register', 'external') for c in (False, True) for s in ('', 'sc')]

  def gen(self, rng, tier):
    return self.corpus()[0]

  def impl(self, case):
    gin = C.fresh_gin()
    cfg = gin.config
    fails = []
    ns = {'gin': gin, '__name__': 'c11mod'}
    exec('class K:\n  @gin.register\n  def meth(self, x=1):\n    return x\n', ns)  # pylint: disable=exec-used
    K = ns['K']
    key = (case['scope'] + '/' if case['scope'] else '') + 'c11mod.meth.x'
    gin.bind_parameter(key, 7)
    if case['call_before']:
      with gin.config_scope(case['scope'] or None):
        if gin.get_configurable(K.meth)(K()) != 7:
          fails.append(('provisional-binding-not-injected', ''))
    if case['api'] == 'register':
      gin.register(K, module='c11pkg')
    else:
      gin.external_configurable(K, module='c11pkg')
    registry = {k for k, _ in cfg._REGISTRY.items()}  # pylint: disable=protected-access
    orphans = [k for k in cfg._CONFIG if k[1] not in registry]  # pylint: disable=protected-access
    if orphans:
      fails.append(('store-names-unregistered-configurable', 'after the class was registered the store holds %r; registry %r' %
                    (orphans, sorted(k for k in registry if not k.startswith('gin.')))))
    try:
      with gin.config_scope(case['scope'] or None):
        got = gin.get_configurable(K)().meth()
      if got != 7:
        fails.append(('binding-lost-by-rename', 'K.meth.x was bound to 7 before the class was registered; the method received %r' % (got,)))
    except Exception as e:  # pylint: disable=broad-except
      fails.append(('method-call-raised', '%s: %s' % (type(e).__name__, str(e)[:120])))
    for fn in (gin.config_str, gin.operative_config_str):
      try:
        fn()
      except Exception as e:  # pylint: disable=broad-except
        fails.append(('%s-raised' % fn.__name__, '%s: %s' % (type(e).__name__, str(e)[:120])))
    return {'obs': T('Done'), 'fails': fails[:3], 'nontrivial': True, 'tags': [case['api']]}


ENGINES = [BindEngine(), MethodRenameEngine()]
