"""C11 — only configurable parameters of registered configurables can ever be bound."""
from harness import common as C
from harness import ginm
from harness.common import T
from harness.main import Engine
from harness.props import c01, c12

PID = 'C11'
LEVEL = 'proof'
RULE = ('gin-machine/bind: configurables with allowlist / denylist / neither, with and without **kwargs; '
        'parameter names drawn from {valid, unknown, listed, unlisted, the name of the *args / **kwargs parameter itself}; '
        'known / unknown / ambiguous selectors; '
        'the same logical binding issued through string keys, tuple keys, config text, scoped keys, macro form '
        'and finalize hooks; store compared before/after every rejected op. non-trivial = a rejected binding '
        'through a non-string path (tuple / text / hook) on a configurable that has a list.')
TRUSTED_BASE = c01.TRUSTED_BASE
ASSUMPTIONS = ['registered methods (Class.method addressing) are exercised by the C13 engine and, for methods registered by '
               'the parser (dynamic registration), by the implementation-only engine dynamic-registration-binds',
               'positional-only parameter names and self / cls as parameter names: no claim (DESIGN 9.2)']


def expected_accept(regs, scope, sel, arg):
  full = c12.resolve_sel(sel, regs)
  if full is None:
    return False, 'unknown-or-ambiguous'
  if full.startswith('gin.'):
    ok = {'gin.macro': ['value'], 'gin.constant': [], 'gin.singleton': ['constructor']}[full]
    return arg in ok, 'builtin'
  c = [x for x in regs if x['sel'] == full][0]
  if c.get('shape') == 'method' and '.' not in sel:
    return False, 'method-named-without-its-class'
  if arg not in ginm.sig_names(c['sig']) and not c['sig']['varkw']:
    return False, 'no-such-parameter'
  if c['allow'] and arg not in c['allow']:
    return False, 'not-allowlisted'
  if arg in c['deny']:
    return False, 'denylisted'
  return True, 'ok'


class BindEngine(Engine):
  name = 'gin-bind'
  imports = 'Model.SelectorMap Model.Values Model.Gin Model.GinEngine'
  run_fn = 'run'

  def budget(self, tier):
    return 1000 if tier == 'quick' else 25000

  def corpus(self):
    f = {'sel': 'm.f', 'sig': {'args': ['a', 'b'], 'defaults': [['i', 1]], 'varargs': False, 'kwonly': [['k1', None]],
                               'varkw': False}, 'allow': ['a', 'k1'], 'deny': []}
    g = {'sel': 'n.g', 'sig': {'args': ['a'], 'defaults': [], 'varargs': False, 'kwonly': [], 'varkw': True},
         'allow': [], 'deny': ['a']}
    return [{'regs': [f, g], 'ops': [
        ['bind', 'f.a', ['i', 1]], ['bind', 'f.b', ['i', 1]], ['bindt', 's1', 'f', 'b', ['i', 2]],
        ['pbind', 's1/s2/m.f.b', ['i', 3]], ['bind', 'g.a', ['i', 1]], ['bind', 'g.zzz', ['i', 1]],
        ['bindt', '', 'n.g', 'a', ['i', 1]], ['bind', 'nosuch.a', ['i', 1]], ['pbind', 'f.k1', ['i', 9]],
        ['hook', ['return', [['f.b', ['i', 5]]]]], ['finalize'], ['dumpconfig'], ['call', 'm.f', [['i', 0]], []],
        ['dumpcalls']]}] + self._var_parameter_corpus()

  @staticmethod
  def _var_parameter_corpus():
    """the NAME of the *args parameter (`_va` in every probe) of a function / constructor / registered method without
    **kwargs is not a parameter the signature can accept (Gin supplies by keyword only): rejected on every path, in
    every scope, store unchanged, never injected.  With **kwargs it is one more free keyword."""
    def sig(args=(), kwonly=(), varkw=False):
      return {'args': list(args), 'defaults': [], 'varargs': True, 'kwonly': [list(k) for k in kwonly], 'varkw': varkw}
    collect = {'sel': 'm.collect', 'sig': sig(['a'], [['k1', ['b', False]]]), 'allow': [], 'deny': [], 'shape': 'fn'}
    gather = {'sel': 'n.gather', 'sig': sig([], [['k1', ['i', 0]], ['k2', ['i', 1]]]), 'allow': [], 'deny': ['k1'], 'shape': 'fn'}
    stack = {'sel': 'pkg.Stack', 'sig': sig([], [['k2', ['s', 'x']]]), 'allow': [], 'deny': [], 'shape': 'cls_init'}
    kls = {'sel': 'm.Kls', 'sig': sig(['a']), 'allow': [], 'deny': [], 'shape': 'cls_init'}
    run = {'sel': 'm.Kls.run', 'sig': sig([], [['k1', ['b', False]]]), 'allow': [], 'deny': [], 'shape': 'method', 'holder': 'm.Kls'}
    anything = {'sel': 'n.anything', 'sig': sig([], [], True), 'allow': [], 'deny': [], 'shape': 'fn'}
    tail = [['dumpconfig'], ['call', 'm.collect', [['i', 0]], []], ['call', 'n.gather', [], []], ['call', 'pkg.Stack', [], []],
            ['call', 'n.anything', [], []], ['dumpcalls']]
    v = ['l', [['i', 2], ['i', 3]]]
    return [
        {'regs': [collect, gather, stack, kls, run, anything], 'ops': [
            ['bind', 'collect.a', ['i', 1]], ['bind', 'collect.k1', ['b', True]], ['bind', 'anything._va', ['s', 'x']],
            ['bind', 'collect._va', v], ['bind', 's1/s2/collect._va', v], ['bindt', '', 'gather', '_va', v],
            ['bindt', 's1', 'Stack', '_va', v], ['pbind', 'collect._va', v], ['pbind', 's1/pkg.Stack._va', v],
            ['bind', 'Kls.run._va', v], ['pbind', 'm.Kls.run._va', v], ['bindt', 's2', 'Kls', '_va', v],
            ['bind', 'anything._kw', ['i', 1]]] + tail},
        {'regs': [collect, gather, stack, anything], 'ops': [
            ['bind', 'gather.k2', ['i', 5]], ['hook', ['return', [['s1/gather._va', ['i', 5]]]]], ['finalize'], ['locked'],
            ['pbind', 'gather._va', v]] + tail},
    ]

  def gen(self, rng, tier):
    regs = ginm.gen_regs(rng, lists=0.6, allow_req=False, sels=['f', 'm.f', 'n.m.g', 'm.g', 'pkg.h', 'n.f'], shapes=True, methods=0.35)
    for c in regs:
      if c.get('shape', 'fn') == 'fn' and rng.random() < 0.2:
        c['shape'] = 'wrapped_fn'       # parameters are those of the wrapped function, not the wrapper's **kwargs
    ops = []
    for _ in range(rng.randint(2, 12)):
      c = rng.choice(regs)
      names = ginm.sig_names(c['sig'])
      r = rng.random()
      if r < 0.55 and names:
        p = rng.choice(names)
      elif r < 0.8:
        p = rng.choice(['zz', 'a', 'b', 'k1', 'value'])
      else:
        p = rng.choice(c['deny'] or c['allow'] or ['q'])
      if (c['sig']['varargs'] or c['sig']['varkw']) and rng.random() < 0.25:
        # the name of the *args / **kwargs parameter itself: it is written in the signature, but the signature cannot
        # accept it by keyword (only a **kwargs configurable takes it, as one more free keyword)
        p = '_va' if c['sig']['varargs'] and (not c['sig']['varkw'] or rng.random() < 0.7) else '_kw'
      x = rng.random()
      if x < 0.7:
        sel = rng.choice(ginm.spellings(c['sel'], regs))
      elif x < 0.85:
        sel = c['sel'].split('.')[-1]      # possibly ambiguous
      else:
        sel = rng.choice(['nosuch', 'x.' + c['sel'], 'gin.macro', 'macro'])
      if c.get('shape') == 'method' and rng.random() < 0.3:
        # the name the method had BEFORE its class was registered (<its module>.<name>): no longer a configurable
        sel = 'gvmod1.' + c['sel'].split('.')[-1]
      sc = '/'.join(ginm.gen_scope(rng, 2))
      v = ginm.gen_plain(rng, 1)
      key = (sc + '/' if sc else '') + sel + '.' + p
      kind = rng.random()
      if kind < 0.3:
        ops.append(['bind', key, v])
      elif kind < 0.55:
        ops.append(['bindt', sc, sel, p, v])
      elif kind < 0.8:
        ops.append(['pbind', key, v])
      elif kind < 0.9:
        ops.append(['hook', ['return', [[key, ginm.gen_plain(rng, 0)]]]])
        ops.append(['finalize'])
        ops.append(['clear', False] if rng.random() < 0.7 else ['locked'])
      else:
        ops.append(['pbind', rng.choice(['mac', 's1/mac']), v])
      if rng.random() < 0.15:
        ops.append(['query', key])
    for c in regs:
      if rng.random() < 0.5:
        ops.append(['call', c['sel'], [], []])
    ops += [['dumpconfig'], ['dumpcalls']]
    return {'regs': regs, 'ops': ops}

  def to_coq(self, case):
    return ginm.case_coq(case)

  def shrink(self, case):
    return ginm.shrink_case(case)

  def impl(self, case):
    m = ginm.Machine()
    obs = m.run(case)
    regs = case['regs']
    fails, tags, nontrivial = [], [], False
    hooks = []
    for t in m.trace:
      k, b, a, exc = t['kind'], t['before'], t['after'], t['exc']
      if k == 'hook':
        hooks.append(t['op'][1])
      if k in ('bind', 'pbind', 'bindt'):
        if k == 'bindt':
          scope, sel, arg = t['op'][1], t['op'][2], t['op'][3]
        else:
          scope, sel, arg = c12.split_key(t['op'][1])
          if k == 'pbind' and '.' not in t['op'][1].rpartition('/')[2]:
            scope, sel, arg = t['op'][1], 'gin.macro', 'value'    # macro form
        acc, why = expected_accept(regs, scope, sel, arg)
        tags.append('%s:%s' % (k, why))
        if b['locked']:
          acc = False
        if acc and exc is not None:
          fails.append(('valid-binding-rejected', '%r raised %s' % (t['op'], exc)))
        if not acc:
          if exc is None:
            fails.append(('invalid-binding-accepted', '%r accepted (%s)' % (t['op'], why)))
          elif a['config'] != b['config']:
            fails.append(('rejected-binding-changed-store', '%r raised %s but the store changed' % (t['op'], exc)))
          c = c12.resolve_sel(sel, regs)
          cc = [x for x in regs if x['sel'] == c]
          if k != 'bind' and cc and (cc[0]['allow'] or cc[0]['deny']):
            nontrivial = True
      if k == 'finalize' and exc is not None and a['config'] != b['config']:
        fails.append(('rejected-finalize-changed-store', 'finalize raised %s but the store changed' % exc))
      # store invariant: every stored parameter is a configurable parameter of a registered configurable
      for s, q, pd in a['config']:
        for p, _ in pd:
          acc, why = expected_accept(regs, s, q, p)
          if not acc:
            fails.append(('non-configurable-parameter-stored', 'store holds (%r, %r).%r: %s' % (s, q, p, why)))
    # no probe ever receives a non-configurable parameter from Gin
    for ctx in m.calls:
      if ctx['log_end'] > ctx['log_start'] and 'error' not in ctx:
        own = m.log[ctx['log_end'] - 1]
        c = [x for x in regs if x['sel'] == ctx['sel']]
        if not c:
          continue
        c = c[0]
        supplied = set(c['sig']['args'][:len(ctx['args'])]) | {kk for kk, _ in ctx['kwargs']}
        nd = len(c['sig']['defaults'])
        dflt = {x: c01.canon_plain(d) for x, d in zip(c['sig']['args'][len(c['sig']['args']) - nd:], c['sig']['defaults'])}
        dflt.update({n: c01.canon_plain(d) for n, d in c['sig']['kwonly'] if d is not None})
        for p, v in own[2]:
          if p in ('*', '**', 'self', 'cls') or p in supplied:
            continue
          if ((c['allow'] and p not in c['allow']) or p in c['deny']) and v != dflt.get(p, '<nodefault>'):
            fails.append(('non-configurable-parameter-injected', '%s.%s received %r (default %r)' %
                          (ctx['sel'], p, v, dflt.get(p))))
    fails = m.readback_fails() + fails
    return {'obs': obs, 'fails': fails[:3], 'nontrivial': nontrivial, 'tags': tags}


class MethodRenameEngine(Engine):
  """a method registered on its own is bound (and possibly called) under its provisional name; registering its class
  then renames it to <Class>.<method>.  The store must keep naming a registered configurable (the binding follows the
  rename), the method must receive it, and config_str / operative_config_str must stay printable.  Implementation only:
  the Gin-machine model has no provisional method names."""
  name = 'method-rename'
  model = False

  def budget(self, tier):
    return 0

  def corpus(self):
    return [{'api': a, 'call_before': c, 'scope': s} for a in ('register', 'external') for c in (False, True) for s in ('', 'sc')]

  def gen(self, rng, tier):
    return self.corpus()[0]

  def impl(self, case):
    gin = C.fresh_gin()
    cfg = gin.config
    fails = []
    ns = {'gin': gin, '__name__': 'c11mod'}
    exec('class K:\n  @gin.register\n  def meth(self, x=1):\n    return x\n', ns)  # pylint: disable=exec-used
    K = ns['K']
    key = (case['scope'] + '/' if case['scope'] else '') + 'c11mod.meth.x'
    gin.bind_parameter(key, 7)
    if case['call_before']:
      with gin.config_scope(case['scope'] or None):
        if gin.get_configurable(K.meth)(K()) != 7:
          fails.append(('provisional-binding-not-injected', ''))
    if case['api'] == 'register':
      gin.register(K, module='c11pkg')
    else:
      gin.external_configurable(K, module='c11pkg')
    registry = {k for k, _ in cfg._REGISTRY.items()}  # pylint: disable=protected-access
    orphans = [k for k in cfg._CONFIG if k[1] not in registry]  # pylint: disable=protected-access
    if orphans:
      fails.append(('store-names-unregistered-configurable', 'after the class was registered the store holds %r; registry %r' %
                    (orphans, sorted(k for k in registry if not k.startswith('gin.')))))
    try:
      with gin.config_scope(case['scope'] or None):
        got = gin.get_configurable(K)().meth()
      if got != 7:
        fails.append(('binding-lost-by-rename', 'K.meth.x was bound to 7 before the class was registered; the method received %r' % (got,)))
    except Exception as e:  # pylint: disable=broad-except
      fails.append(('method-call-raised', '%s: %s' % (type(e).__name__, str(e)[:120])))
    for fn in (gin.config_str, gin.operative_config_str):
      try:
        fn()
      except Exception as e:  # pylint: disable=broad-except
        fails.append(('%s-raised' % fn.__name__, '%s: %s' % (type(e).__name__, str(e)[:120])))
    return {'obs': T('Done'), 'fails': fails[:3], 'nontrivial': True, 'tags': [case['api']]}


# ---------------------------------------------------------------------------------------------------------------------
# Registration routes the Gin-machine has no input language for: configurables registered BY THE PARSER (dynamic
# registration: `from __gin__ import dynamic_registration`, `import mod`, `mod.Class.method.arg = v`) and builtin
# callables registered through gin.external_configurable.  Implementation only; the accept predicate below is written
# from the property text over the case's own description of the module / of Python's signature of the builtin
# (inspect.signature of the REAL callable), never over Gin's registry records.
_PATHS = ('str', 'tuple', 'text', 'text_skip', 'block', 'hook', 'dyntext')
_SCOPES = ('', '', 's1', 's1/s2')


def _one_verdict(info, sel, arg):
  """the claim of the property text for a binding of `arg` on the configurable described by `info`, spelled `sel`:
  True = must be accepted, False = must be rejected, None = the text makes no claim (positional-only names)."""
  if info['method'] and '.' not in sel:
    return False, 'method-named-without-its-class'
  if arg not in info['params'] and arg not in info['posonly'] and not info['varkw']:
    return False, 'no-such-parameter'
  if info['allow'] and arg not in info['allow']:
    return False, 'not-allowlisted'
  if arg in info['deny']:
    return False, 'denylisted'
  if arg in info['posonly'] and not info['varkw']:
    return None, 'positional-only-name'
  return True, 'ok'


def _registry_verdict(table, sel, arg):
  """`table`: full selector -> info with 'state' in {'yes', 'maybe'} ('maybe': named by a dynamic statement that was
  rejected, so the text does not say whether it is registered).  Returns (claim, why, full-or-None)."""
  if sel in table and table[sel]['state'] == 'yes':
    matches = [sel]
  else:
    matches = [f for f in table if f == sel or f.endswith('.' + sel)]
  if not matches:
    return False, 'unknown-configurable', None
  if all(table[f]['state'] == 'yes' for f in matches):
    if len(matches) != 1:
      return False, 'ambiguous-selector', None
    claim, why = _one_verdict(table[matches[0]], sel, arg)
    return claim, why, matches[0]
  verdicts = [_one_verdict(table[f], sel, arg) for f in matches]
  if all(v[0] is False for v in verdicts):
    return False, 'maybe-unregistered:' + verdicts[0][1], None
  return None, 'possibly-unregistered', (matches[0] if len(matches) == 1 else None)


def _snapshot(gin):
  cfg = gin.config._CONFIG  # pylint: disable=protected-access
  store = sorted((list(k), sorted((p, repr(v)) for p, v in d.items())) for k, d in cfg.items())
  try:
    text = gin.config_str()
  except Exception as e:  # pylint: disable=broad-except
    text = 'config_str raised %s' % type(e).__name__
  return store, text, gin.config.config_is_locked()


def _issue(gin, op, header='', hook_box=None):
  path, scope, sel, arg, val = op
  pre = scope + '/' if scope else ''
  key = pre + sel + '.' + arg
  if path == 'str':
    gin.bind_parameter(key, val)
  elif path == 'tuple':
    gin.bind_parameter((scope, sel, arg), val)
  elif path == 'text':
    gin.parse_config('%s = %r' % (key, val))
  elif path == 'text_skip':
    gin.parse_config('%s = %r' % (key, val), skip_unknown=True)
  elif path == 'block':
    gin.parse_config('%s%s:\n  %s = %r\n' % (pre, sel, arg, val))
  elif path == 'dyntext':
    gin.parse_config('%s%s = %r\n' % (header, key, val))
  elif path == 'hook':
    hook_box[0] = {key: val}        # the case's one registered hook proposes this binding, this time only
    try:
      gin.finalize()
    finally:
      hook_box[0] = None
  else:
    raise AssertionError(path)


def _merged(store, scope, full):
  """the parameters the property lets Gin supply to `full` called inside `scope`: the bindings of every enclosing
  scope, the innermost winning."""
  parts = scope.split('/') if scope else []
  out = {}
  for i in range(len(parts) + 1):
    out.update(store.get(('/'.join(parts[:i]), full), {}))
  return out


class _RouteEngine(Engine):
  """shared op loop: issue every op through its API path, compare with the claim of the property text, keep an own
  store of accepted bindings, and finally call every configurable and compare what Gin supplied with that store."""
  model = False

  def shrink(self, case):
    for i in range(len(case['ops'])):
      yield dict(case, ops=case['ops'][:i] + case['ops'][i + 1:])
    for i in range(len(case.get('setup', []))):
      yield dict(case, setup=case['setup'][:i] + case['setup'][i + 1:])
    for i in range(len(case.get('confs', []))):
      if len(case['confs']) > 1:
        yield dict(case, confs=case['confs'][:i] + case['confs'][i + 1:])

  def _run_ops(self, gin, case, table, store, claim_of, header=''):
    """returns (fails, tags, nontrivial, diverged)."""
    fails, tags, nontrivial = [], [], False
    hook_box = [None]
    gin.config.register_finalize_hook(lambda cfg: hook_box[0])
    for op in case['ops']:
      path, scope, sel, arg, val = op
      claim, why, full, dyn_target = claim_of(op)
      tags.append('%s:%s' % (path, why))
      before = _snapshot(gin)
      exc = None
      try:
        # a finalize that succeeded has locked the configuration: later ops are made the documented way
        with gin.unlock_config():
          _issue(gin, op, header, hook_box)
      except Exception as e:  # pylint: disable=broad-except
        exc = '%s: %s' % (type(e).__name__, str(e)[:160])
      after = _snapshot(gin)
      if path == 'dyntext' and dyn_target:
        for f in dyn_target:
          if exc is None:
            table[f]['state'] = 'yes'
          elif table[f]['state'] == 'no':
            table[f]['state'] = 'maybe'
      if exc is not None:
        if claim is True:
          fails.append(('valid-binding-rejected', '%r raised %s' % (op, exc)))
        if after != before:
          fails.append(('rejected-binding-changed-store', '%r raised %s but the configuration changed: %r -> %r' %
                        (op, exc, before, after)))
          return fails, tags, nontrivial, True
        if claim is False and path != 'str':
          nontrivial = True
        continue
      # no exception
      if claim is False:
        if path == 'text_skip' and (why == 'unknown-configurable' or why.startswith('maybe-unregistered:')):
          if after != before:       # skip_unknown: the statement may be skipped silently, never stored
            fails.append(('skipped-binding-changed-store', '%r: %r -> %r' % (op, before, after)))
            return fails, tags, nontrivial, True
          continue
        fails.append(('invalid-binding-accepted', '%r accepted (%s)' % (op, why)))
        return fails, tags, nontrivial, True
      if full is None:
        return fails, tags, nontrivial, True      # accepted where the text makes no claim and the target is unclear
      store.setdefault((scope, full), {})[arg] = val
      if table[full]['state'] == 'maybe':
        table[full]['state'] = 'yes'       # it took a binding: it is registered
      try:
        got = gin.query_parameter((scope + '/' if scope else '') + full + '.' + arg)
        if got != val or type(got) is not type(val):
          fails.append(('accepted-binding-not-stored', '%r accepted, query_parameter gives %r' % (op, got)))
      except Exception as e:  # pylint: disable=broad-except
        fails.append(('accepted-binding-not-stored', '%r accepted, query_parameter raised %s: %s' %
                      (op, type(e).__name__, str(e)[:120])))
    return fails, tags, nontrivial, False


_SIGS = [
    {'args': [['depth', 0]], 'varkw': False},
    {'args': [['depth', 0], ['x', 1]], 'varkw': False},
    {'args': [['x', 5]], 'varkw': False},
    {'args': [['size', 1], ['a', 2]], 'varkw': False},
    {'args': [['a', 1], ['b', 2], ['depth', 3]], 'varkw': False},
    {'args': [['a', 1]], 'varkw': True},
    {'args': [], 'varkw': False},
    # a NAMED *args parameter (and keyword-only parameters behind it): its name is written in the signature, but the
    # signature cannot accept it by keyword, which is the only way Gin supplies a value
    {'args': [['a', 1]], 'varargs': 'rest', 'kwonly': [['depth', 0]], 'varkw': False},
    {'args': [], 'varargs': 'args', 'kwonly': [['x', 1]], 'varkw': False},
    {'args': [['size', 1], ['depth', 2]], 'varargs': 'items', 'varkw': False},
    {'args': [['x', 5]], 'varargs': 'rest', 'varkw': True},
]
_UNKNOWN_ARGS = ['zz', 'bogus', 'kw', 'args', 'kwargs', 'Depth', 'value']


def _sig_params(sig):
  """[(name, default)] of the parameters the signature accepts by keyword: positional-or-keyword and keyword-only ones;
  NOT the *args / **kwargs parameters."""
  return [(a, d) for a, d in sig['args']] + [(a, d) for a, d in sig.get('kwonly', [])]
_VALS = [0, 1, 2, 7, -1, True, None, 'big', ' ']


def _fn_src(name, sig, kind, deco, indent):
  params = ['%s=%r' % (a, d) for a, d in sig['args']]
  if sig.get('varargs'):
    params.append('*' + sig['varargs'])
  elif sig.get('kwonly'):
    params.append('*')
  params += ['%s=%r' % (a, d) for a, d in sig.get('kwonly', [])] + (['**kw'] if sig['varkw'] else [])
  if kind != 'fn':
    params = ['self'] + params
  pad = ' ' * indent
  out = []
  if deco:
    out.append(pad + (deco if isinstance(deco, str) else '@gin.register'))
  out.append(pad + 'def %s(%s):' % (name, ', '.join(params)))
  out.append(pad + '  got = dict(locals())')
  if kind == 'fn':
    out.append(pad + '  return got')
  else:
    out.append(pad + "  got.pop('self')")
    out.append(pad + ('  self.init_got = got' if kind == 'init' else '  return got'))
  return out


def _deco_line(d):
  lists = ['%s=%r' % (k, list(d[n])) for k, n in (('allowlist', 'allow'), ('denylist', 'deny')) if d.get(n)]
  return '@gin.register(%s)' % ', '.join(lists) if lists else '@gin.register'


class DynamicRegistrationBindEngine(_RouteEngine):
  """methods, classes and functions of a module are registered by the parser (dynamic registration) -- possibly next
  to classes registered by decorators, possibly re-registering those -- and afterwards bound through every API path
  with every spelling: a method named without its class, or a parameter outside the signature, is rejected."""
  name = 'dynamic-registration-binds'
  rule = ('dynamic-registration-binds: a module (top-level or in a package, `import m` / `from p import m`) with 1-2 classes '
          '(1-2 methods each; class registered by the parser or by decorators -- with allowlist / denylist / neither --, then '
          'possibly re-registered by the parser) and 0-2 functions (plain, or registered by decorator with / without lists); signatures '
          'with / without a named *args parameter, keyword-only parameters and **kwargs; a dynamic file of 1-4 valid statements naming methods / classes / functions; then 3-10 bindings '
          'through string, tuple, text, text+skip_unknown, block, finalize-hook and further dynamic-file paths, spelled bare / '
          'Class.method / module-qualified / wrong, with valid, unknown, listed and unlisted parameters and the name of the *args parameter, in 3 scopes; accept predicate from the '
          'module description, configuration compared before/after every rejection, every callable called at the end. '
          'non-trivial = a rejection through a non-string path.')

  def budget(self, tier):
    return 160 if tier == 'quick' else 4000

  # ---- case description helpers
  @staticmethod
  def _objects(spec):
    """objpath -> (sig, is_method, class objpath or None, registered by decorator, allowlist, denylist)."""
    out = {}
    for f in spec['funs']:
      deco = bool(f.get('deco'))
      out[f['name']] = (f['sig'], False, None, deco, f.get('allow', []) if deco else [], f.get('deny', []) if deco else [])
    for c in spec['classes']:
      deco = c['route'] == 'deco'
      out[c['name']] = (c['init'], False, None, deco, c.get('allow', []) if deco else [], c.get('deny', []) if deco else [])
      for m in c['methods']:
        out[c['name'] + '.' + m['name']] = (m['sig'], True, c['name'], deco and m['deco'], [], [])
    return out

  @staticmethod
  def _root(spec):
    return spec['name'].split('.')[-1] if spec['imp'] == 'from' else spec['name']

  @staticmethod
  def _header(spec):
    if spec['imp'] == 'from':
      pkg, _, leaf = spec['name'].rpartition('.')
      imp = 'from %s import %s' % (pkg, leaf)
    else:
      imp = 'import ' + spec['name']
    return 'from __gin__ import dynamic_registration\n%s\n' % imp

  def _case(self, spec, setup, ops):
    return {'mod': spec, 'setup': setup, 'ops': ops}

  def corpus(self):
    widget = {'name': 'Widget', 'route': 'dyn', 'init': _SIGS[3],
              'methods': [{'name': 'render', 'sig': _SIGS[0], 'deco': False}, {'name': 'draw', 'sig': _SIGS[2], 'deco': False}]}
    panel = {'name': 'Panel', 'route': 'deco', 'init': _SIGS[3],
             'methods': [{'name': 'paint', 'sig': _SIGS[1], 'deco': True}]}
    fun = {'name': 'fun', 'sig': _SIGS[4]}
    cases = []
    for name, imp in (('c11dyn', 'import'), ('c11pkg.dynm', 'from'), ('c11pkg.dynm', 'import')):
      spec = {'name': name, 'imp': imp, 'classes': [widget, panel], 'funs': [fun]}
      setup = [['', 'Widget.render', 'depth', 3], ['s1', 'fun', 'a', 4]]
      # one case per API path: the method named without its class, then an unknown parameter, then the valid spelling
      for path in _PATHS:
        bare = 'render' if path != 'dyntext' else self._root(spec) + '.render'
        good = 'Widget.render' if path != 'dyntext' else self._root(spec) + '.Widget.render'
        ops = [['str', '', 'paint', 'depth', 1], [path, '', bare, 'depth', 4], [path, 's1/s2', bare, 'depth', 4],
               [path, '', good, 'zz', 4], [path, 's1', good, 'depth', 5]]
        cases.append(self._case(spec, setup, ops))
        if name != 'c11dyn':
          break
    # the class is named by the file before / without its methods; a decorated class is re-registered by the file
    spec = {'name': 'c11dyn', 'imp': 'import', 'classes': [widget, panel], 'funs': [fun]}
    cases.append(self._case(spec, [['', 'Widget', 'size', 2], ['', 'Widget.draw', 'x', 1], ['', 'Panel.paint', 'x', 2]],
                            [['tuple', '', 'draw', 'x', 9], ['text', '', 'paint', 'x', 9], ['str', '', 'render', 'depth', 9],
                             ['block', '', 'Panel.paint', 'depth', 6], ['hook', 's1', 'draw', 'x', 9]]))
    # a decorated class WITH an allowlist / denylist whose (plain or registered) method is named by a dynamic file --
    # in an accepted or in a rejected statement: the class keeps the lists it was registered with, on every path
    for lists in ({'deny': ['size']}, {'allow': ['a']}):
      for mdeco in (False, True):
        vault = dict({'name': 'Vault', 'route': 'deco', 'init': _SIGS[3],
                      'methods': [{'name': 'open', 'sig': _SIGS[0], 'deco': mdeco}]}, **lists)
        lfun = dict({'name': 'fun', 'sig': _SIGS[3], 'deco': True}, **lists)
        spec = {'name': 'c11dyn', 'imp': 'import', 'classes': [vault], 'funs': [lfun]}
        for setup, first in (([['', 'Vault.open', 'depth', 1], ['', 'fun', 'a', 1]], []),
                             ([], [['dyntext', '', 'c11dyn.Vault.open', 'zz', 1], ['dyntext', '', 'c11dyn.fun', 'zz', 1]])):
          ops = list(first)
          for path in _PATHS:
            q = 'c11dyn.' if path == 'dyntext' else ''
            ops += [[path, '', q + 'Vault', 'size', 5], [path, 's1', q + 'fun', 'size', 5]]
          ops += [['str', '', 'Vault', 'a', 6], ['text', 's1', 'Vault.open', 'depth', 2]]
          cases.append(self._case(spec, setup, ops))
    # the NAME of a *args parameter -- of a function, of a constructor, of a method; parser-registered or decorated,
    # with and without a denylist -- is rejected on every path (one case per path); with **kwargs it is a free keyword
    coll = {'name': 'fun', 'sig': _SIGS[7]}
    anyf = {'name': 'helper', 'sig': _SIGS[10], 'deco': True}
    stack = {'name': 'Widget', 'route': 'dyn', 'init': _SIGS[8], 'methods': [{'name': 'render', 'sig': _SIGS[9], 'deco': False}]}
    deck = {'name': 'Panel', 'route': 'deco', 'init': _SIGS[9], 'deny': ['size'],
            'methods': [{'name': 'paint', 'sig': _SIGS[7], 'deco': True}]}
    spec = {'name': 'c11dyn', 'imp': 'import', 'classes': [stack, deck], 'funs': [coll, anyf]}
    setup = [['', 'fun', 'a', 4], ['', 'Widget.render', 'depth', 3], ['s1', 'Widget', 'x', 2]]
    for path in _PATHS:
      q = 'c11dyn.' if path == 'dyntext' else ''
      cases.append(self._case(spec, setup, [
          ['str', '', 'helper', 'rest', 7], [path, '', q + 'fun', 'rest', [2, 3]], [path, 's1/s2', q + 'Widget', 'args', [1]],
          [path, 's1', q + 'Widget.render', 'items', [1]], [path, '', q + 'Panel.paint', 'rest', 1],
          [path, '', q + 'Panel', 'items', 1], [path, 's1', q + 'fun', 'depth', 5]]))
    return cases

  def gen(self, rng, tier):
    name, imp = rng.choice([('c11dyn', 'import'), ('c11pkg.dynm', 'import'), ('c11pkg.dynm', 'from')])
    classes = []

    def gen_lists(sig):
      names = [a for a, _ in _sig_params(sig)]
      r = rng.random()
      if not names or r < 0.4:
        return {}
      return {'allow' if r < 0.7 else 'deny': sorted(rng.sample(names, rng.randint(1, len(names))))}

    for cname in rng.sample(['Widget', 'Panel'], rng.randint(1, 2)):
      route = 'dyn' if rng.random() < 0.6 else 'deco'
      methods = [{'name': m, 'sig': rng.choice(_SIGS), 'deco': rng.random() < 0.7}
                 for m in rng.sample(['render', 'draw', 'paint'], rng.randint(1, 2))]
      c = {'name': cname, 'route': route, 'init': rng.choice(_SIGS), 'methods': methods}
      if route == 'deco':
        c.update(gen_lists(c['init']))
      classes.append(c)
    funs = []
    for f in rng.sample(['fun', 'helper'], rng.randint(0, 2)):
      fd = {'name': f, 'sig': rng.choice(_SIGS)}
      if rng.random() < 0.35:       # registered by decorator (possibly with lists) before the file names it
        fd['deco'] = True
        fd.update(gen_lists(fd['sig']))
      funs.append(fd)
    spec = {'name': name, 'imp': imp, 'classes': classes, 'funs': funs}
    objs = self._objects(spec)
    paths_ = sorted(objs)
    root = self._root(spec)

    def pick_arg(sig, valid):
      names = [a for a, _ in _sig_params(sig)]
      if valid and (names or sig['varkw']):
        return rng.choice(names + (['extra'] if sig['varkw'] else []))
      if sig.get('varargs') and rng.random() < 0.5:
        return sig['varargs']           # the name of the *args parameter itself
      return rng.choice(_UNKNOWN_ARGS + ['depth', 'x', 'a', 'size', 'rest', 'items'])

    setup = []
    for _ in range(rng.randint(1, 4)):
      o = rng.choice(paths_)
      sig, allow, deny = objs[o][0], objs[o][4], objs[o][5]
      ok = [a for a in [a for a, _ in _sig_params(sig)] + (['extra'] if sig['varkw'] else [])
            if (not allow or a in allow) and a not in deny]
      if ok:        # every statement of the dynamic file is valid
        setup.append([rng.choice(_SCOPES), o, rng.choice(ok), rng.choice(_VALS)])
    ops = []
    for _ in range(rng.randint(3, 10)):
      o = rng.choice(paths_)
      sig, is_method = objs[o][0], objs[o][1]
      path = rng.choice(_PATHS)
      if path == 'dyntext':
        sel = root + '.' + o if rng.random() < 0.75 else rng.choice([o, o.split('.')[-1], root + '.' + o.split('.')[-1], 'nosuch.' + o])
      else:
        r = rng.random()
        if is_method and r < 0.4:
          sel = o.split('.')[-1]                                # the method without its class
        elif r < 0.55:
          sel = o                                               # Class.method / Class / fun
        elif r < 0.7:
          sel = spec['name'] + '.' + o
        elif r < 0.8:
          sel = spec['name'].split('.')[-1] + '.' + o
        elif r < 0.9:
          sel = o.split('.')[-1]
        else:
          sel = rng.choice(['nosuch', 'x.' + o, spec['name'] + '.' + o.split('.')[-1], o + 's'])
      op = [path, rng.choice(_SCOPES), sel, pick_arg(sig, rng.random() < 0.5), rng.choice(_VALS)]
      ops.append(op)
    return self._case(spec, setup, ops)

  def impl(self, case):
    import sys
    import types
    spec = case['mod']
    gin = C.fresh_gin()
    objs = self._objects(spec)
    name = spec['name']
    src = []
    for f in spec['funs']:
      src += _fn_src(f['name'], f['sig'], 'fn', _deco_line(f) if f.get('deco') else False, 0) + ['']
    for c in spec['classes']:
      deco = c['route'] == 'deco'
      if deco:
        src.append(_deco_line(c))
      src.append('class %s:' % c['name'])
      src += _fn_src('__init__', c['init'], 'init', False, 2)
      for m in c['methods']:
        src += _fn_src(m['name'], m['sig'], 'method', deco and m['deco'], 2)
      src.append('')
    mod = types.ModuleType(name)
    mod.__dict__['gin'] = gin
    installed = [name]
    sys.modules[name] = mod
    if '.' in name:
      pkg = types.ModuleType(name.rpartition('.')[0])
      pkg.__path__ = []
      setattr(pkg, name.rpartition('.')[2], mod)
      sys.modules[pkg.__name__] = pkg
      installed.append(pkg.__name__)
    try:
      exec('\n'.join(src), mod.__dict__)  # pylint: disable=exec-used
      return self._impl(gin, case, spec, objs, mod)
    finally:
      for n in installed:
        sys.modules.pop(n, None)

  def _impl(self, gin, case, spec, objs, mod):
    name, root, header = spec['name'], self._root(spec), self._header(spec)

    def info(o, state):
      sig, is_method, _, _, allow, deny = objs[o]
      return {'params': [a for a, _ in _sig_params(sig)], 'posonly': [], 'varkw': sig['varkw'], 'allow': list(allow),
              'deny': list(deny), 'method': is_method, 'state': state, 'obj': o}

    table = {name + '.' + o: info(o, 'yes' if objs[o][3] else 'no') for o in objs}
    store, fails = {}, []
    # the dynamic file: every statement is valid, so the whole file must be accepted
    lines = []
    for scope, o, arg, val in case['setup']:
      lines.append('%s%s.%s.%s = %r' % (scope + '/' if scope else '', root, o, arg, val))
    try:
      gin.parse_config(header + '\n'.join(lines) + '\n')
    except Exception as e:  # pylint: disable=broad-except
      return {'obs': T('Done'), 'nontrivial': False, 'tags': ['setup-rejected'],
              'fails': [('valid-binding-rejected', 'dynamic file %r raised %s: %s' % (lines, type(e).__name__, str(e)[:200]))]}
    for scope, o, arg, val in case['setup']:
      store.setdefault((scope, name + '.' + o), {})[arg] = val
      for f in [o] + ([objs[o][2]] if objs[o][2] else []):
        table[name + '.' + f]['state'] = 'yes'

    def visible():
      return {f: i for f, i in table.items() if i['state'] != 'no'}

    def claim_of(op):
      path, _, sel, arg, _ = op
      if path != 'dyntext':
        claim, why, full = _registry_verdict(visible(), sel, arg)
        return claim, why, full, None
      # inside a dynamic file a name is whatever the file's own import provides
      if not sel.startswith(root + '.') or sel[len(root) + 1:] not in objs:
        return False, 'name-not-provided-by-imports', None, None
      o = sel[len(root) + 1:]
      claim, why = _one_verdict(info(o, 'yes'), sel, arg)
      target = [name + '.' + f for f in [o] + ([objs[o][2]] if objs[o][2] else [])]
      return claim, why, name + '.' + o, target

    f2, tags, nontrivial, diverged = self._run_ops(gin, case, table, store, claim_of, header)
    fails += f2
    if not diverged:
      fails += self._calls(gin, spec, objs, mod, table, store)
    return {'obs': T('Done'), 'fails': fails[:3], 'nontrivial': nontrivial, 'tags': tags}

  def _calls(self, gin, spec, objs, mod, table, store):
    """every function / constructor / method receives exactly the accepted bindings made through its own name."""
    fails = []
    name = spec['name']
    scopes = sorted({s for s, _ in store} | {''})

    def expect(o, scope):
      sig = objs[o][0]
      want = {a: d for a, d in _sig_params(sig)}
      bound = _merged(store, scope, name + '.' + o) if table[name + '.' + o]['state'] == 'yes' else {}
      kw = {}
      for p, v in bound.items():
        if p in want:
          want[p] = v
        else:
          kw[p] = v
      if sig.get('varargs'):
        want[sig['varargs']] = ()       # the calls below pass no positional argument, and Gin supplies keywords only
      if sig['varkw']:
        want['kw'] = kw
      return want

    def check(o, scope, got):
      want = expect(o, scope)
      if got != want or repr(sorted(got.items())) != repr(sorted(want.items())):
        fails.append(('non-configurable-parameter-injected',
                      '%s.%s called in scope %r received %r, the accepted bindings give %r' % (name, o, scope, got, want)))

    for scope in scopes:
      try:
        with gin.config_scope(scope or None):
          for f in spec['funs']:
            if table[name + '.' + f['name']]['state'] == 'yes':
              check(f['name'], scope, gin.get_configurable(getattr(mod, f['name']))())
          for c in spec['classes']:
            if table[name + '.' + c['name']]['state'] != 'yes':
              continue
            inst = gin.get_configurable(getattr(mod, c['name']))()
            check(c['name'], scope, inst.init_got)
            for m in c['methods']:
              if table[name + '.' + c['name'] + '.' + m['name']]['state'] != 'maybe':
                check(c['name'] + '.' + m['name'], scope, getattr(inst, m['name'])())
      except Exception as e:  # pylint: disable=broad-except
        fails.append(('call-raised', 'scope %r: %s: %s' % (scope, type(e).__name__, str(e)[:200])))
    return fails


def _builtin_pool():
  import math
  return {
      'sorted': (sorted, [[3, 1, 2]]),
      'round': (round, [2.26]),
      'sum': (sum, [[1, 2]]),
      'pow': (pow, [2, 5]),
      'isclose': (math.isclose, [1.0, 1.05]),
      'split': ('a b,c b'.split, []),
      'from_bytes': (int.from_bytes, [b'\x01\x02']),
      'divmod': (divmod, [7, 2]),
      'len': (len, [[1, 2]]),
      'abs': (abs, [-3]),
      'int_add': ((5).__add__, [2]),
  }


_BUILTIN_UNKNOWN = ['bogus', 'zz', 'args', 'kwargs', 'Reverse', 'digits', 'value', 'default']
_BUILTIN_VALS = [0, 1, 2, -1, True, None, 'big', 'little', ' ', 0.5]


def _py_signature(fn):
  """(keyword-acceptable names, positional-only names, **kwargs?, positional order) from Python itself."""
  import inspect
  ps = list(inspect.signature(fn).parameters.values())
  kw = [p.name for p in ps if p.kind in (p.POSITIONAL_OR_KEYWORD, p.KEYWORD_ONLY)]
  po = [p.name for p in ps if p.kind == p.POSITIONAL_ONLY]
  order = [p.name for p in ps if p.kind in (p.POSITIONAL_ONLY, p.POSITIONAL_OR_KEYWORD)]
  return kw, po, any(p.kind == p.VAR_KEYWORD for p in ps), order


class BuiltinCallableBindEngine(_RouteEngine):
  """builtin callables (C functions, bound builtin methods, slot wrappers) registered with external_configurable:
  Gin wraps them in a (*args, **kwargs) shim, the parameters that can be bound are still those of the builtin's own
  signature (and of its allowlist / denylist)."""
  name = 'builtin-callable-binds'
  rule = ('builtin-callable-binds: 1-3 of 11 builtin callables (C functions, bound builtin methods, builtin classmethod, slot '
          'wrapper) registered with external_configurable with / without module, allowlist, denylist; 3-10 bindings through '
          'string, tuple, text, text+skip_unknown, block and finalize-hook paths with parameter names from {in the builtin\'s '
          'own signature, unknown, listed, unlisted}; accept predicate from inspect.signature of the real builtin; every '
          'builtin finally called and compared with the real builtin given exactly the accepted bindings.')

  def budget(self, tier):
    return 160 if tier == 'quick' else 4000

  def corpus(self):
    confs = [{'fn': 'sorted', 'name': 'sorted_fn', 'module': '', 'allow': [], 'deny': []},
             {'fn': 'round', 'name': 'round_fn', 'module': 'c11b', 'allow': [], 'deny': []},
             {'fn': 'sum', 'name': 'sum_fn', 'module': '', 'allow': ['start'], 'deny': []},
             {'fn': 'isclose', 'name': 'close_fn', 'module': 'x.c11b', 'allow': [], 'deny': ['abs_tol']}]
    cases = []
    for path in _PATHS[:-1]:
      cases.append({'confs': confs, 'ops': [
          ['str', '', 'sorted_fn', 'reverse', True], ['text', 's1', 'round_fn', 'ndigits', 1],
          [path, '', 'sorted_fn', 'bogus', 1], [path, 's1/s2', 'c11b.round_fn', 'digits', 1],
          [path, '', 'sum_fn', 'kwargs', 1], [path, '', 'close_fn', 'abs_tol', 1], [path, 's1', 'close_fn', 'rel_tol', 0.5]]})
    return cases

  def gen(self, rng, tier):
    pool = _builtin_pool()
    confs = []
    for i, fn in enumerate(rng.sample(sorted(pool), rng.randint(1, 3))):
      kw, _, _, _ = _py_signature(pool[fn][0])
      allow, deny = [], []
      r = rng.random()
      if kw and r < 0.25:
        allow = rng.sample(kw, rng.randint(1, len(kw)))
      elif kw and r < 0.5:
        deny = rng.sample(kw, rng.randint(1, len(kw)))
      confs.append({'fn': fn, 'name': rng.choice([fn + '_fn', 'b%d' % i, fn]),
                    'module': rng.choice(['', '', 'c11b', 'x.c11b', 'y.c11b']), 'allow': allow, 'deny': deny})
    ops = []
    for _ in range(rng.randint(3, 10)):
      c = rng.choice(confs)
      kw, po, _, _ = _py_signature(pool[c['fn']][0])
      r = rng.random()
      if r < 0.4 and kw:
        arg = rng.choice(kw)
      elif r < 0.6 and (c['allow'] or c['deny']):
        arg = rng.choice(c['allow'] or c['deny'])
      else:
        arg = rng.choice(_BUILTIN_UNKNOWN)
      full = (c['module'] + '.' if c['module'] else '') + c['name']
      parts = full.split('.')
      r = rng.random()
      if r < 0.8:
        sel = '.'.join(parts[rng.randrange(len(parts)):])
      else:
        sel = rng.choice(['nosuch', 'z.' + c['name'], c['name'] + '_', 'builtins_' + c['fn']])
      path = rng.choice(_PATHS[:-1])
      op = [path, rng.choice(_SCOPES), sel, arg, rng.choice(_BUILTIN_VALS)]
      ops.append(op)
    return {'confs': confs, 'ops': ops}

  def impl(self, case):
    gin = C.fresh_gin()
    pool = _builtin_pool()
    table, wrappers, store = {}, {}, {}
    for c in case['confs']:
      fn, _ = pool[c['fn']]
      kw, po, varkw, _ = _py_signature(fn)
      full = (c['module'] + '.' if c['module'] else '') + c['name']
      kwargs = {}
      if c['module']:
        kwargs['module'] = c['module']
      if c['allow']:
        kwargs['allowlist'] = list(c['allow'])
      if c['deny']:
        kwargs['denylist'] = list(c['deny'])
      try:
        wrappers[full] = gin.external_configurable(fn, c['name'], **kwargs)
      except Exception as e:  # pylint: disable=broad-except
        return {'obs': T('Done'), 'nontrivial': False, 'tags': ['registration-rejected'],
                'fails': [('valid-registration-rejected', '%r: %s: %s' % (c, type(e).__name__, str(e)[:200]))]}
      table[full] = {'params': kw, 'posonly': po, 'varkw': varkw, 'allow': c['allow'], 'deny': c['deny'],
                     'method': False, 'state': 'yes', 'conf': c}

    def claim_of(op):
      claim, why, full = _registry_verdict(table, op[2], op[3])
      return claim, why, full, None

    fails, tags, nontrivial, diverged = self._run_ops(gin, case, table, store, claim_of)
    if not diverged:
      # every call behaves as the builtin called with exactly the accepted bindings (a name the builtin does not
      # have, had it been injected, makes the call raise TypeError)
      def outcome(f, args, kwargs):
        try:
          return ['ok', repr(f(*args, **kwargs))]
        except Exception as e:  # pylint: disable=broad-except
          return ['err', type(e).__name__]
      for scope in sorted({s for s, _ in store} | {''}):
        for full, info in table.items():
          fn, args = pool[info['conf']['fn']]
          order = _py_signature(fn)[3]
          if any(p in info['posonly'] for sc in store.values() for p in sc):
            continue      # a positional-only name was bound somewhere: the text makes no claim about such calls
          bound = _merged(store, scope, full)
          if any(p in order[:len(args)] for p in bound):
            continue      # caller's positional value against a binding of the same parameter: C01's subject, not C11's
          want = outcome(fn, args, bound)
          with gin.config_scope(scope or None):
            got = outcome(wrappers[full], args, {})
          if got != want:
            fails.append(('non-configurable-parameter-injected',
                          '%s%r in scope %r gives %r; the builtin with the accepted bindings %r gives %r' %
                          (full, tuple(args), scope, got, bound, want)))
    return {'obs': T('Done'), 'fails': fails[:3], 'nontrivial': nontrivial, 'tags': tags}


ENGINES = [BindEngine(), MethodRenameEngine(), DynamicRegistrationBindEngine(), BuiltinCallableBindEngine()]
