"""C05 — macros and constants are late-bound named values."""
from harness import common as C
from harness import ginm
from harness.common import T
from harness.main import Engine
from harness.props import c01, c04, c12

PID = 'C05'
LEVEL = 'proof'
RULE = ('gin-machine/macros: 1-3 parse phases; macro definitions, uses (%m) and re-definitions in every order, before and '
        'after the use and across parse calls; scope-like macro names (s1/m); macros bound to literals, @g, @g(), other '
        'macros; Python-defined constants with shared dotted suffixes, abbreviated by every suffix, invalid / duplicate / '
        'ambiguous names; calls after each phase; finalize. Independent predicate: each use receives the value of the LAST '
        'definition preceding the call (computed from the op list), k uses of a macro bound to @g() run g k times, a '
        'constant use delivers the stored object. non-trivial = a use that precedes the (re)definition it ends up seeing, '
        'or a constant abbreviated by a proper suffix while another constant shares a shorter suffix. Dict literals whose KEYS '
        'are two or more different macros (also scope-like names differing only in their prefix, macros bound to @g(), '
        'defined before / after the use or never): the delivered dict, the number of runs of g and the verdict of finalize '
        'are computed from the op list alone (last successful definition of every macro, last successful binding of every '
        'parameter), never from what gin stored. Key macros may evaluate to EQUAL keys (1 / True, equal strings, equal tuples: '
        'one entry, the earlier key and place, the later value) and to a list (TypeError); under a macro key stand literals, '
        '@g(), macros and unbound macros (within one item the value is evaluated before the key). Keys that are equal already '
        'when the statement is PARSED (the same macro or reference written twice, 1 / True) are one item of the bound value; a '
        'literal key that cannot be hashed makes the statement raise TypeError. Constant HISTORIES: a constant is referenced by '
        'a proper suffix that names it uniquely when the statement is parsed (as a parameter value, inside a list / dict, as a '
        'dict key, through a macro bound to it), THEN further constants sharing that suffix are defined (a longer or another '
        'prefix; inside interactive_mode() also the bare suffix itself, a name between the two, or the same name again), then '
        'the earlier reference is used and the same spelling is parsed once more. From the op list alone: the abbreviation '
        'names a constant when it is PARSED, every later use delivers the object defined under that full name (never an '
        'error, never the newcomer), a call all of whose bindings the op list decides must not raise; duplicates are errors '
        'only outside interactive mode.')
TRUSTED_BASE = c01.TRUSTED_BASE
ASSUMPTIONS = []

# 's1' is a macro whose name is a proper '/'-prefix of the scope-like names 's1/mm', 's1/s2/mm' (each is its own macro:
# one being bound says nothing about another)
MACROS = ['mm', 'nn', 's1/mm', 's1', 's1/s2/mm']
CONSTS = ['K', 'a.K', 'b.a.K', 'x.Y', 'Y', 'c.Z']
# macros that stand in KEY position of dict literals.  The values of two different key macros may coincide (small shared
# domains; True == 1, False == 0, equal tuples): equal keys are ONE entry of the delivered dict, which keeps the earlier key
# and place and takes the later value (the model's vdict_set); now and then a key macro is bound to a list, which cannot be
# hashed (TypeError at the call).  's1/hk' and 's2/hk' differ only in the scope-like prefix.
KEYMACROS = ['hk', 'kk', 's1/hk', 's2/hk']
KEYCONSTS = [('q.KA', 'KA', 'ka'), ('q.r.KB', 'r.KB', 'kb'), ('q.r.KC', 'KC', 'kc')]
SIMPLE_OPS = {'pbind', 'call', 'with', 'constant', 'query', 'finalize', 'locked', 'dumpcalls', 'dumpconfig', 'interactive'}
# constant histories: a first constant, referenced by a proper suffix; later constants that share that suffix
STORY_CONSTS = ['a.K', 'b.a.K', 'x.Y', 'c.Z', 'p.q.W', 'u.v.w.V']
STORY_PREFIXES = ['d', 'e.f', 'zz']


def key_value(rng, m, helper):
  """a value for the key macro m, from domains shared by all key macros (so that two keys of one literal may be equal
  after evaluation): a small int, a bool (True == 1), a string, a tuple, rarely a list (unhashable), or a fresh object
  per use (@helper())"""
  del m
  x = rng.random()
  if x < 0.35:
    return ['i', rng.randint(0, 2)]
  if x < 0.47:
    return ['b', rng.random() < 0.5]
  if x < 0.7:
    return ['s', 'k' + rng.choice('ab')]
  if x < 0.78:
    return ['t', [rng.choice([['i', 1], ['b', True], ['i', 0]]), ['s', 'k']]]
  if x < 0.82:
    return ['l', [['i', 1]]]
  return ['ref', [], helper['sel'], True]


def under_key(rng, j, helper):
  """what stands under a macro key: a literal, @helper() (runs BEFORE the key's own reference: CPython evaluates the
  right-hand side of y[deepcopy(key)] = deepcopy(value) first), a macro, or a macro nothing binds (then the key is never
  evaluated)"""
  x = rng.random()
  if x < 0.5:
    return rng.choice([['i', j], ['s', 'v%d' % j]])
  if x < 0.7:
    return ['ref', [], helper['sel'], True]
  if x < 0.92:
    return ['macro', rng.choice(MACROS + KEYMACROS)]
  return ['macro', 'undefined']


class Skip(Exception):
  """the op list alone does not determine the value"""


class AnyRet:
  """what an evaluated reference to the configurable `sel` yields: the result of a fresh run"""

  def __init__(self, sel):
    self.sel = sel

  def __repr__(self):
    return '<result of a fresh run of %s>' % self.sel


def json_macro_refs(v):
  """(name, evaluated) of every macro reference anywhere in a JSON value, dict keys included"""
  t = v[0]
  if t == 'macro':
    yield (v[1], True)
  elif t == 'ref' and v[2] == 'gin.macro':
    yield ('/'.join(v[1]), bool(v[3]))
  elif t in ('l', 't'):
    for x in v[1]:
      yield from json_macro_refs(x)
  elif t == 'd':
    for k, x in v[1]:
      yield from json_macro_refs(k)
      yield from json_macro_refs(x)


def const_match(name, consts):
  return [c for c in consts if c == name] or [c for c in consts if c.endswith('.' + name)]


def full_sel(x, sels):
  m = [q for q in sels if q == x] or [q for q in sels if q.endswith('.' + x)]
  return m[0] if len(m) == 1 else None


def key_id(k, consts, sels):
  """what dict(...) compares when the PARSER builds a dict literal: a literal key by Python equality (1 == True), a tuple
  pointwise, a reference by (scopes, configurable, evaluated), a %name by the constant it names at that time, else by its
  name.  Skip: not decided here (e.g. a key that cannot be hashed: the statement raises and binds nothing)"""
  t = k[0]
  if t == 'macro':
    cm = const_match(k[1], consts)
    return ('const', cm[0]) if len(cm) == 1 else ('macro', k[1])
  if t == 'ref':
    return ('ref', tuple(k[1]), full_sel(k[2], sels) or k[2], bool(k[3]))
  if t in ('n', 'b', 'i', 's'):
    return ('lit', c01.canon_plain(k))
  if t == 't':
    return ('tup', tuple(key_id(x, consts, sels) for x in k[1]))
  raise Skip


def as_parsed(v, consts, sels):
  """the JSON value as the parser builds it: in every dict literal the items whose keys are equal at parse time are ONE
  item: the earlier key and place, the later value (the value written under the dropped key is not part of the binding:
  its macros are not used)"""
  t = v[0]
  if t in ('l', 't'):
    return [t, [as_parsed(x, consts, sels) for x in v[1]]]
  if t == 'd':
    items, ids = [], []
    for k, x in v[1]:
      kid = key_id(k, consts, sels)
      px = as_parsed(x, consts, sels)
      if kid in ids:
        items[ids.index(kid)][1] = px
      else:
        ids.append(kid)
        items.append([k, px])
    return ['d', items]
  return v


class Bound:
  """one successful binding as the op list shows it: the JSON value as the parser builds it (equal dict keys merged); the
  macro uses in it (name, evaluated); and, for the %names that named a constant when the binding was parsed, that
  constant's full name (the abbreviation is resolved THEN, once: constants defined later do not change what it names)"""

  def __init__(self, v, consts, sels=()):
    self.undecided = False
    try:
      v = as_parsed(v, consts, sels)
    except Skip:
      self.undecided = True
    self.v = v
    self.cres, self.refs = {}, []
    for nm, ev in json_macro_refs(v):
      cm = const_match(nm, consts)
      if cm:
        if len(cm) > 1:
          self.undecided = True      # ambiguous: the statement must have been rejected (judged where it is parsed)
        self.cres[nm] = cm[0]
      else:
        self.refs.append((nm, ev))


def hashable(x):
  """may the canonical value x be a dict key"""
  if isinstance(x, T):
    if x.tag in ('L', 'D'):
      return False
    if x.tag == 'T':
      return all(hashable(a) for a in x.args)
  return True


def expect(b, binds, sels, runs, depth=0, v=None, consts=None):
  """the canonical form of what a consumer must receive for the binding b, from the property text: every %m is the value
  of the LAST definition of m (binds[('macro', m)]), evaluated anew at this use; a dict literal is built item by item.
  `runs` collects one entry per evaluated reference to a registered configurable.  `consts`: the constants defined so far
  (full name -> canonical value); a %name that named a constant when its statement was parsed is the object defined under
  that full name.  Raises Skip where the op list does not decide, KeyError(name) for a macro that no definition binds."""
  if depth > 8 or b.undecided:
    raise Skip
  v = b.v if v is None else v
  t = v[0]
  if t == 'macro' or (t == 'ref' and v[2] == 'gin.macro' and v[3]):
    name = v[1] if t == 'macro' else '/'.join(v[1])
    if name in b.cres:
      if consts is None or b.cres[name] not in consts:
        raise Skip
      return consts[b.cres[name]]
    if ('macro', name) not in binds:
      parts = name.split('/')
      if any(('macro', '/'.join(parts[:i])) in binds for i in range(1, len(parts))):
        raise Skip           # gin.macro.value bound under a scope that is a proper prefix of the name: C03's inheritance, not judged here
      raise KeyError(name)
    return expect(binds[('macro', name)], binds, sels, runs, depth + 1, consts=consts)
  if t == 'ref':
    q = full_sel(v[2], sels)
    if q is None or not v[3]:
      raise Skip
    runs.append(q)
    return AnyRet(q)
  if t in ('l', 't'):
    return T('L' if t == 'l' else 'T', *[expect(b, binds, sels, runs, depth, x, consts) for x in v[1]])
  if t == 'd':
    items = []
    for k, x in v[1]:
      ek = expect(b, binds, sels, runs, depth, k, consts)
      ex = expect(b, binds, sels, runs, depth, x, consts)
      if (isinstance(ek, T) and ek.tag not in ('T', 'Obj')) or not hashable(ek):
        raise Skip             # unhashable key
      for it in items:
        if not isinstance(ek, AnyRet) and not isinstance(it[0], AnyRet) and it[0] == ek:
          it[1] = ex           # an equal key: the entry keeps its place and takes the later value
          break
      else:
        items.append([ek, ex])
    return T('D', *items)
  if t in ('n', 'b', 'i', 's'):
    return c01.canon_plain(v)
  raise Skip


def matches(want, got):
  if isinstance(want, AnyRet):
    return isinstance(got, T) and got.tag == 'Ret' and got.args[0] == want.sel
  if isinstance(want, T) or isinstance(got, T):
    return isinstance(want, T) and isinstance(got, T) and want.tag == got.tag and matches(want.args, got.args)
  if isinstance(want, list) or isinstance(got, list):
    return isinstance(want, list) and isinstance(got, list) and len(want) == len(got) and all(matches(a, b) for a, b in zip(want, got))
  return type(want) is type(got) and want == got


def uses_of(v):
  if isinstance(v, T):
    if v.tag == 'Ref' and v.args[1] == 'gin.macro' and v.args[2]:
      yield '/'.join(v.args[0])
    else:
      for a in v.args:
        yield from uses_of(a)
  elif isinstance(v, list):
    for a in v:
      yield from uses_of(a)


def substitute(v, macro_vals, depth=0):
  """the value a consumer must receive: every %m replaced by the current value of m (plain values only)"""
  if depth > 8:
    raise RecursionError
  if isinstance(v, T):
    if v.tag == 'Ref' and v.args[1] == 'gin.macro' and v.args[2]:
      name = '/'.join(v.args[0])
      if name not in macro_vals:
        raise KeyError(name)
      return substitute(macro_vals[name], macro_vals, depth + 1)
    if v.tag == 'Ref':
      raise KeyError('ref')
    if v.tag == 'D':
      items = []
      for k, x in v.args:
        sk, sx = substitute(k, macro_vals, depth), substitute(x, macro_vals, depth)
        for it in items:
          if it[0] == sk:
            it[1] = sx         # an equal key: the entry keeps its key and place and takes the later value
            break
        else:
          items.append([sk, sx])
      return T('D', *items)
    return T(v.tag, *[substitute(a, macro_vals, depth) for a in v.args])
  if isinstance(v, list):
    return [substitute(a, macro_vals, depth) for a in v]
  return v


class MacroEngine(c01.CallEngine):
  name = 'gin-macros'

  def budget(self, tier):
    return 900 if tier == 'quick' else 25000

  def corpus(self):
    f = {'sel': 'm.f', 'sig': {'args': ['a', 'b'], 'defaults': [['n'], ['n']], 'varargs': False, 'kwonly': [],
                               'varkw': False}, 'allow': [], 'deny': []}
    g = dict(f, sel='n.g')
    return [{'regs': [f, g], 'ops': [
        ['pbind', 'f.a', ['macro', 'mm']], ['pbind', 'mm', ['i', 1]], ['call', 'm.f', [], []],
        ['pbind', 'mm', ['i', 2]], ['call', 'm.f', [], []],
        ['pbind', 'mm', ['ref', [], 'g', True]], ['pbind', 'f.b', ['l', [['macro', 'mm'], ['macro', 'mm']]]],
        ['call', 'm.f', [], []], ['pbind', 's1/mm', ['s', 'x']], ['pbind', 'f.a', ['macro', 's1/mm']], ['call', 'm.f', [], []],
        ['constant', 'a.K', ['obj', 'o1']], ['constant', 'b.K', ['i', 5]], ['pbind', 'f.a', ['macro', 'a.K']],
        ['pbind', 'f.b', ['macro', 'K']], ['constant', 'a.K', ['i', 1]], ['constant', '1bad', ['i', 1]],
        ['call', 'm.f', [], []], ['query', 'a.K'], ['query', 'K'], ['pbind', 'f.b', ['macro', 'undefined']],
        ['finalize'], ['pbind', 'f.b', ['ref', ['mm'], 'gin.macro', False]], ['finalize'], ['dumpcalls'], ['dumpconfig']]},
            {'regs': [f, g], 'ops': [
                ['pbind', 's1', ['i', 1]], ['pbind', 'f.a', ['macro', 's1/mm']], ['finalize'], ['locked'],
                ['pbind', 's1/s2/mm', ['i', 3]], ['pbind', 'f.b', ['macro', 's1/s2']], ['finalize'], ['locked'], ['dumpconfig']]},
            {'regs': [f, g], 'ops': [
                ['pbind', 's1/mm', ['i', 1]], ['pbind', 'f.a', ['l', [['macro', 's1/s2/mm'], ['macro', 's1/mm']]]], ['finalize'], ['locked'],
                ['pbind', 's1/s2/mm', ['i', 2]], ['call', 'm.f', [], []], ['finalize'], ['locked'], ['dumpcalls']]},
            # dict literals whose keys are several different macros: uses first, definitions later; one key re-bound; scope-like
            # names that differ in the prefix only; a key that is never bound
            {'regs': [f, g], 'ops': [
                ['pbind', 'f.a', ['d', [[['macro', 'hk'], ['s', 'one']], [['macro', 'kk'], ['s', 'two']], [['s', 'plain'], ['macro', 'mm']]]]],
                ['pbind', 'f.b', ['l', [['d', [[['macro', 'hk'], ['i', 1]]]], ['d', [[['macro', 'kk'], ['i', 2]]]]]]],
                ['pbind', 'hk', ['s', 'k1']], ['pbind', 'kk', ['s', 'k2']], ['pbind', 'mm', ['i', 3]], ['call', 'm.f', [], []],
                ['pbind', 'kk', ['s', 'K2']], ['call', 'm.f', [], []],
                ['pbind', 'f.b', ['d', [[['macro', 's1/hk'], ['s', 'T']], [['macro', 's2/hk'], ['s', 'E']]]]],
                ['pbind', 's1/hk', ['s', 'training']], ['pbind', 's2/hk', ['s', 'evaluation']],
                ['with', 's1', [['call', 'm.f', [], []]]], ['finalize'], ['locked'], ['dumpcalls'], ['dumpconfig']]},
            {'regs': [f, g], 'ops': [
                ['pbind', 'hk', ['i', 1]], ['pbind', 'f.a', ['d', [[['macro', 'hk'], ['i', 1]], [['macro', 'undefined'], ['i', 2]]]]],
                ['call', 'm.f', [], []], ['finalize'], ['locked'], ['dumpconfig']]},
            # keys that are macros bound to @g() (a fresh object per use: g runs once per key and call), and constants
            {'regs': [f, g], 'ops': [
                ['constant', 'q.KA', ['obj', 'ka']], ['constant', 'q.r.KB', ['obj', 'kb']],
                ['pbind', 'f.a', ['d', [[['macro', 'hk'], ['i', 1]], [['macro', 'kk'], ['i', 2]], [['macro', 's1/hk'], ['macro', 'hk']]]]],
                ['pbind', 'f.b', ['d', [[['macro', 'KA'], ['i', 1]], [['macro', 'r.KB'], ['macro', 'KA']], [['macro', 'hk'], ['i', 3]]]]],
                ['pbind', 'hk', ['ref', [], 'g', True]], ['pbind', 'kk', ['ref', [], 'g', True]], ['pbind', 's1/hk', ['i', 20]],
                ['call', 'm.f', [], []], ['call', 'm.f', [], []], ['finalize'], ['locked'], ['dumpcalls'], ['dumpconfig']]},
            # within ONE item the value is evaluated before the key (y[deepcopy(key)] = deepcopy(value)): the run of g under
            # the key %hk is numbered after the run of g that is the value; a value that raises (an unbound macro) leaves the
            # key's g unrun
            {'regs': [f, g], 'ops': [
                ['pbind', 'hk', ['ref', [], 'g', True]], ['pbind', 'f.a', ['d', [[['macro', 'hk'], ['ref', [], 'g', True]]]]],
                ['call', 'm.f', [], []], ['dumpcalls'],
                ['pbind', 'f.a', ['i', 0]], ['pbind', 'f.b', ['d', [[['s', 'p'], ['i', 1]], [['macro', 'hk'], ['macro', 'undefined']]]]],
                ['call', 'm.f', [], []], ['dumpcalls'], ['finalize'], ['locked'], ['dumpconfig']]},
            # keys that are EQUAL after evaluation are one entry (1 == True; equal tuples), which keeps the earlier key and
            # place and takes the later value; re-binding one key macro separates them again; a key macro bound to a list
            # cannot be hashed: TypeError, once the value of that item has run and before the next item is touched
            {'regs': [f, g], 'ops': [
                ['pbind', 'hk', ['i', 1]], ['pbind', 'kk', ['b', True]], ['pbind', 's1/hk', ['t', [['i', 0], ['s', 'k']]]],
                ['pbind', 's2/hk', ['t', [['b', False], ['s', 'k']]]],
                ['pbind', 'f.a', ['d', [[['macro', 'hk'], ['s', 'a']], [['i', 2], ['s', 'b']], [['macro', 'kk'], ['s', 'c']]]]],
                ['pbind', 'f.b', ['d', [[['macro', 's1/hk'], ['macro', 'hk']], [['macro', 's2/hk'], ['macro', 'kk']]]]],
                ['call', 'm.f', [], []], ['pbind', 'kk', ['s', 'x']], ['call', 'm.f', [], []],
                ['pbind', 'kk', ['l', [['i', 1]]]],
                ['pbind', 'f.b', ['d', [[['i', 1], ['i', 2]], [['macro', 'kk'], ['ref', [], 'g', True]], [['i', 3], ['ref', [], 'g', True]]]]],
                ['call', 'm.f', [], []], ['finalize'], ['locked'], ['dumpcalls'], ['dumpconfig']]},
            # the PARSER builds a dict literal with dict(...): keys that are equal then (the same macro / reference written
            # twice, 1 and True) are ONE item: the earlier key and place, the later value; the value written under the dropped
            # key is gone (its unbound macro is no defect for finalize), the key is evaluated once per call; a literal key
            # that cannot be hashed makes the statement raise TypeError and bind nothing
            {'regs': [f, g], 'ops': [
                ['pbind', 'hk', ['ref', [], 'g', True]],
                ['pbind', 'f.a', ['d', [[['macro', 'hk'], ['s', 'a']], [['i', 1], ['s', 'x']], [['macro', 'hk'], ['s', 'b']], [['b', True], ['s', 'y']],
                                        [['ref', [], 'g', False], ['i', 1]], [['ref', [], 'g', True], ['macro', 'undefined']],
                                        [['ref', [], 'n.g', False], ['i', 2]], [['ref', [], 'g', True], ['i', 3]],
                                        [['ref', ['s1'], 'g', True], ['i', 4]]]]],
                ['call', 'm.f', [], []], ['dumpcalls'], ['query', 'f.a'],
                ['pbind', 'f.b', ['d', [[['i', 1], ['i', 2]], [['l', [['i', 1]]], ['macro', 'undefined']]]]],
                ['pbind', 'f.b', ['l', [['d', [[['t', [['i', 1], ['l', []]]], ['i', 0]]]]]]],
                ['call', 'm.f', [], []], ['finalize'], ['locked'], ['dumpcalls'], ['dumpconfig']]},
            # constant histories.  %K is parsed while a.K is the only constant it can name: it IS a.K from then on; d.K, defined
            # afterwards (legal: no suffix of an existing name), makes a NEW %K ambiguous (error, the binding stays) and leaves
            # the parsed one alone, also where it is reached through a macro
            {'regs': [f, g], 'ops': [
                ['constant', 'a.K', ['obj', 'first']], ['pbind', 'f.a', ['macro', 'K']], ['pbind', 'mm', ['macro', 'K']],
                ['call', 'm.f', [], []], ['constant', 'd.K', ['obj', 'later']], ['call', 'm.f', [], []],
                ['pbind', 'f.b', ['macro', 'K']], ['call', 'm.f', [], []], ['pbind', 'f.b', ['l', [['macro', 'mm'], ['macro', 'd.K']]]],
                ['call', 'm.f', [], []], ['query', 'f.a'], ['finalize'], ['locked'], ['dumpcalls'], ['dumpconfig']]},
            # interactive mode accepts the bare name Y next to x.Y: the %Y parsed before (value, dict key, under the key) keeps
            # delivering x.Y's object, a %Y parsed afterwards is the newcomer
            {'regs': [f, g], 'ops': [
                ['constant', 'x.Y', ['obj', 'first']], ['pbind', 'f.a', ['macro', 'Y']],
                ['pbind', 'f.b', ['d', [[['macro', 'Y'], ['l', [['macro', 'Y']]]]]]], ['call', 'm.f', [], []],
                ['interactive', [['constant', 'Y', ['obj', 'later']], ['call', 'm.f', [], []]]], ['call', 'm.f', [], []],
                ['pbind', 'f.b', ['macro', 'Y']], ['call', 'm.f', [], []], ['constant', 'Y', ['i', 1]],
                ['dumpcalls'], ['dumpconfig']]},
            # three components, two abbreviations, a macro in between; then a name between the abbreviations and the first
            # name again (interactive): the named value is the one defined last under the FULL name the reference resolved to
            {'regs': [f, g], 'ops': [
                ['constant', 'u.v.w.V', ['obj', 'first']], ['pbind', 'nn', ['macro', 'w.V']],
                ['pbind', 'f.a', ['l', [['macro', 'nn'], ['macro', 'V']]]], ['call', 'm.f', [], []],
                ['constant', 'zz.w.V', ['s', 'later']], ['call', 'm.f', [], []], ['pbind', 'f.b', ['macro', 'V']],
                ['interactive', [['constant', 'v.w.V', ['obj', 'between']], ['constant', 'u.v.w.V', ['obj', 'again']]]],
                ['call', 'm.f', [], []], ['pbind', 'f.b', ['macro', 'v.w.V']], ['call', 'm.f', [], []],
                ['dumpcalls'], ['dumpconfig']]}]

  def story_open(self, rng, consumer, ops, n):
    """a constant history, first half: a constant with a dotted name is defined and referenced by a PROPER suffix that names
    it uniquely now: as a parameter value, inside a list / a dict, as a dict key, or through a macro bound to it"""
    base = rng.choice(STORY_CONSTS)
    parts = base.split('.')
    ab = '.'.join(parts[rng.randrange(1, len(parts)):])
    ops.append(['constant', base, ['obj', 'first%d' % n] if rng.random() < 0.7 else ginm.gen_plain(rng, 0)])
    args = consumer['sig']['args']
    p = rng.choice(args)
    for q in args:
      if q != p and rng.random() < 0.7:
        ops.append(['pbind', consumer['sel'] + '.' + q, ['i', 5]])
    x = rng.random()
    if x < 0.4:
      v = ['macro', ab]
    elif x < 0.55:
      v = ['l', [['macro', ab], ['i', 0], ['macro', base if rng.random() < 0.5 else ab]]]
    elif x < 0.65:
      v = ['d', [[['s', 'k'], ['macro', ab]]]]
    elif x < 0.75:
      v = ['d', [[['macro', ab], ['l', [['macro', ab]]]]]]
    else:
      mm = rng.choice(MACROS)
      ops.append(['pbind', mm, ['macro', ab]])
      v = rng.choice([['macro', mm], ['t', [['macro', mm], ['macro', ab]]]])
    ops.append(['pbind', consumer['sel'] + '.' + p, v])
    if rng.random() < 0.5:
      ops.append(['call', consumer['sel'], [], []])
    return {'base': base, 'ab': ab}

  def story_close(self, rng, story, consumer, ops, n):
    """second half: a further constant that shares the abbreviation (another / a longer prefix: legal; inside
    interactive_mode() the abbreviation itself, any suffix of the first name, or the first name again), then the earlier
    reference is used, the same spelling is parsed once more (ambiguous now, or an exact match of the newcomer) and used"""
    base, ab = story['base'], story['ab']
    parts = base.split('.')
    val = ['obj', 'later%d' % n] if rng.random() < 0.7 else ginm.gen_plain(rng, 0)
    call = ['call', consumer['sel'], [], []]
    x = rng.random()
    if x < 0.35:
      ops.append(['constant', rng.choice(STORY_PREFIXES) + '.' + ab, val])
    elif x < 0.5:
      ops.append(['constant', rng.choice(STORY_PREFIXES) + '.' + base, val])
    else:
      new = ab if x < 0.75 else '.'.join(parts[rng.randrange(1, len(parts)):]) if x < 0.9 else base
      inner = [['constant', new, val]]
      if rng.random() < 0.3:
        inner.append(call)
      ops.append(['interactive', inner])
    ops.append(call)
    ops.append(['pbind', consumer['sel'] + '.' + rng.choice(consumer['sig']['args']), ['macro', ab]])
    if rng.random() < 0.3:
      ops.append(['query', consumer['sel'] + '.' + rng.choice(consumer['sig']['args'])])
    ops.append(call)

  def gen(self, rng, tier):
    regs = []
    for sel in rng.sample(['m.f', 'n.g', 'k'], rng.randint(2, 3)):
      n = rng.randint(1, 3)
      regs.append({'sel': sel, 'sig': {'args': ginm.PARAMS[:n], 'defaults': [['n']] * n, 'varargs': False, 'kwonly': [],
                                      'varkw': False}, 'allow': [], 'deny': []})
    consumer, helper = regs[0], regs[1]
    ops = []
    defined_consts = []
    kc_defined = set()
    story, nstories = None, 0
    for phase in range(rng.randint(1, 3)):
      for _ in range(rng.randint(1, 5)):
        # constant histories (reference first, a constant sharing its suffix later), interleaved with everything else
        if story is None and nstories < 2 and rng.random() < 0.06:
          story = self.story_open(rng, consumer, ops, nstories)
          nstories += 1
          continue
        if story is not None and rng.random() < 0.4:
          self.story_close(rng, story, consumer, ops, nstories)
          story = None
          continue
        r = rng.random()
        if r < 0.35:      # definition
          m = rng.choice(MACROS)
          x = rng.random()
          if x < 0.12:
            # (re)definition of a key macro, within its own domain
            m = rng.choice(KEYMACROS)
            v = key_value(rng, m, helper)
          elif x < 0.6:
            v = ginm.gen_plain(rng, 1)
          elif x < 0.8:
            v = ['ref', [], helper['sel'], rng.random() < 0.7]
          else:
            v = ['macro', rng.choice([q for q in MACROS if q != m])]
          ops.append(['pbind', m, v])
        elif r < 0.7:     # use
          p = rng.choice(consumer['sig']['args'])
          m = rng.choice(MACROS + ['undefined'] if rng.random() < 0.9 else ['undefined'])
          v = ['macro', m]
          y = rng.random()
          after = []
          if y < 0.3:
            v = ['l', [['macro', m], ['macro', rng.choice(MACROS)], ['i', 0]]]
          elif y < 0.4:
            # a macro in KEY position: evaluated at call time, checked at finalize: an undefined macro, one bound to an
            # int, or (rarely) to a list: the key cannot be hashed, the call raises TypeError
            mk = rng.choice(['undefined', 'hk'])
            if mk == 'hk':
              ops.append(['pbind', 'hk', ['i', rng.randint(0, 9)] if rng.random() < 0.85 else ['l', [['i', 0]]]])
            v = ['d', [[['macro', mk], ['i', 0]]]]
          elif y < 0.58:
            # a dict literal whose KEYS are two or more DIFFERENT macros (each use is its own entry: each is evaluated at
            # every call and looked at by finalize), defined before the use, after it, in another phase, or never
            ks = rng.sample(KEYMACROS, rng.randint(2, 3))
            if rng.random() < 0.35:
              ks = rng.choice([['s1/hk', 's2/hk'], ['s2/hk', 's1/hk'], ['hk', 's1/hk', 's2/hk']])   # names differing in the prefix only
            if rng.random() < 0.15:
              ks[rng.randrange(len(ks))] = 'undefined'
            if rng.random() < 0.25:
              # Python-defined constants (distinct objects) among the keys, abbreviated; now and then not defined (yet),
              # which makes the %name an ordinary, unbound macro
              for full, ab, oid in rng.sample(KEYCONSTS, rng.randint(1, 2)):
                ks[rng.randrange(len(ks))] = ab
                if full not in kc_defined and rng.random() < 0.85:
                  kc_defined.add(full)
                  ops.append(['constant', full, ['obj', oid]])
            # (under a macro key stands a literal, @helper(), a macro or an unbound macro: within ONE item the value is
            # evaluated before the key)
            items = [[['macro', k], under_key(rng, j, helper)] for j, k in enumerate(ks)]
            for j in range(rng.choice([0, 0, 1, 1, 2])):
              items.insert(rng.randrange(len(items) + 1), [['s', 'plain%d' % j], rng.choice([['macro', m], ['macro', rng.choice(MACROS)], ['i', 7]])])
            v = ['d', items]
            if rng.random() < 0.2:
              v = ['l', [['d', [it]] for it in items]]       # one literal per key: nothing can merge
            elif rng.random() < 0.2:
              v = ['d', [[['s', 'outer'], v], [['macro', ks[0]], ['i', -1]]]]
            for k in ks:
              if k in KEYMACROS:
                w = rng.random()
                if w < 0.45:
                  ops.append(['pbind', k, key_value(rng, k, helper)])
                elif w < 0.8:
                  after.append(['pbind', k, key_value(rng, k, helper)])
          elif y < 0.68:
            # the same, focused on what CPython's dict does with the evaluated keys: every key macro is bound right here
            # from the small shared domains (equal keys are likely: one entry), under the keys stand literals, @helper()
            # (runs before the key's own reference), the key macros themselves, now and then an unbound macro (raises
            # before the key is evaluated); the consumer's other parameters get literals so that the call that follows
            # reaches the dict
            ks = rng.sample(KEYMACROS, rng.randint(2, 3))
            for k in ks:
              ops.append(['pbind', k, key_value(rng, k, helper)])
            items = []
            for j, k in enumerate(ks):
              z = rng.random()
              items.append([['macro', k], rng.choice([['i', j], ['s', 'v%d' % j]]) if z < 0.45 else
                            ['ref', [], helper['sel'], True] if z < 0.7 else
                            ['macro', rng.choice(ks)] if z < 0.93 else ['macro', 'undefined']])
            if rng.random() < 0.4:
              items.insert(rng.randrange(len(items) + 1), [rng.choice([['i', 1], ['b', False], ['s', 'ka'], ['i', 2]]), ['s', 'lit']])
            z = rng.random()
            if z < 0.3:
              # the same key written twice (a macro, @helper, @helper(): equal references are ONE key for the PARSER's
              # dict(...): the later value under the earlier key, one evaluation per call), or two literal keys that are
              # equal in Python (1 / True)
              i = rng.randrange(len(items))
              dup = rng.choice([items[i][0], ['ref', [], helper['sel'], rng.random() < 0.5], ['i', 1]])
              first = [dup, rng.choice([['s', 'first'], ['macro', 'undefined'], ['ref', [], helper['sel'], True]])]
              second = [['b', True] if dup == ['i', 1] and rng.random() < 0.5 else list(dup), rng.choice([['s', 'second'], ['i', 9]])]
              if dup is not items[i][0]:
                items.insert(rng.randrange(len(items) + 1), first)
              items.insert(rng.randrange(len(items) + 1), second)
            elif z < 0.36:
              # a literal key that cannot be hashed: the statement raises TypeError and binds nothing
              items.insert(rng.randrange(len(items) + 1), [rng.choice([['l', [['i', 1]]], ['d', []], ['t', [['i', 1], ['l', []]]]]), ['i', 0]])
            v = ['d', items]
            for q in consumer['sig']['args']:
              if q != p and rng.random() < 0.8:
                ops.append(['pbind', consumer['sel'] + '.' + q, ['i', 5]])
            after.append(['call', consumer['sel'], [], []])
          ops.append(['pbind', consumer['sel'] + '.' + p, v])
          ops += after
        elif r < 0.85:    # constants
          nm = rng.choice(CONSTS + ['1bad', 'a..K', 'K\n', 'a.K\n'])
          ops.append(['constant', nm, ['obj', 'o%d' % len(defined_consts)] if rng.random() < 0.5 else ginm.gen_plain(rng, 0)])
          if rng.random() < 0.12:
            ops[-1] = ['interactive', [ops[-1]]]      # interactive mode: a duplicate / shadowing definition is accepted
          defined_consts.append(nm)
        else:
          k = rng.choice(CONSTS)
          parts = k.split('.')
          ab = '.'.join(parts[rng.randrange(len(parts)):])
          ops.append(['pbind', consumer['sel'] + '.' + rng.choice(consumer['sig']['args']), ['macro', ab]])
          if rng.random() < 0.5:
            ops.append(['query', ab])
      ops.append(['call', consumer['sel'], [], []])
      if rng.random() < 0.3:
        ops.append(['with', rng.choice(ginm.SCOPES), [['call', consumer['sel'], [], []]]])
    if story is not None:
      self.story_close(rng, story, consumer, ops, nstories)
    if rng.random() < 0.5:
      ops.append(['finalize'] if rng.random() < 0.6 else ['with', rng.choice(['s1', 's1/s2']), [['finalize']]])   # also from inside a scope
    ops += [['dumpcalls'], ['dumpconfig']]
    return {'regs': regs, 'ops': ops}

  @staticmethod
  def cres_used(b, binds, depth=0):
    """(abbreviation, full name) of every constant reference a use of the binding b reaches (through macros too)"""
    out = list(b.cres.items())
    if depth < 6:
      for nm, _ in b.refs:
        if ('macro', nm) in binds:
          out += MacroEngine.cres_used(binds[('macro', nm)], binds, depth + 1)
    return out

  def impl(self, case):
    m = ginm.Machine(mutate=False)
    obs = m.run(case)
    self._last = m
    regs_by_sel = {c['sel']: c for c in case['regs']}
    fails, tags = [], []
    nontrivial = False
    # walk the trace: last definition of each macro / constants, in program order
    macro_def, macro_first_use = {}, {}
    consts = {'gin.REQUIRED': T('REQUIRED')}
    call_iter = iter(m.calls)
    # the op-list view (nothing below reads gin's store): the last successful binding of every parameter, with the macro
    # names it uses (a %name that named a constant when the binding was parsed is not a macro use)
    sels = [c['sel'] for c in case['regs']]
    simple = all(o[0] in SIMPLE_OPS for o in ginm.flatten_ops(case['ops']))
    binds = {}       # ('macro', name) / ('param', scope, selector, parameter) -> Bound
    # the ops that stand inside an interactive_mode() block (read off the program, not off gin's flag)
    inter = set()
    late_shared = set()   # (abbreviation, full name): a constant sharing the abbreviation was defined after the reference was parsed

    def mark(ops, inside):
      for o in ops:
        if inside:
          inter.add(id(o))
        if o[0] == 'with':
          mark(o[2], inside)
        elif o[0] in ('unlock', 'interactive'):
          mark(o[1], inside or o[0] == 'interactive')
    mark(case['ops'], False)
    for t in m.trace:
      k, op, exc = t['kind'], t['op'], t['exc']
      if k == 'pbind' and exc is None and '.' not in op[1].rpartition('/')[2]:
        if op[1] in macro_first_use:
          nontrivial = True            # a use precedes this (re)definition
        macro_def[op[1]] = op[2]
        binds[('macro', op[1])] = Bound(op[2], consts, sels)
      if k == 'pbind' and exc is None and '.' in op[1].rpartition('/')[2]:
        for nm in ([op[2][1]] if op[2][0] == 'macro' else [x[1] for x in op[2][1] if x[0] == 'macro'] if op[2][0] == 'l' else
                   [r[0] for r in json_macro_refs(op[2])] if op[2][0] == 'd' else []):
          macro_first_use.setdefault(nm, True)
        scope_, _, sp = op[1].rpartition('/')
        q, _, prm = sp.rpartition('.')
        binds[('param', scope_, full_sel(q, sels) or q, prm)] = Bound(op[2], consts, sels)
      if k == 'constant':
        name = op[1]
        import re
        valid = bool(re.fullmatch(r'([a-zA-Z_]\w*\.)*[a-zA-Z_]\w*', name))
        dup = any(c == name or c.endswith('.' + name) for c in consts)
        redef = dup and id(op) in inter        # interactive mode: definitions may be repeated / shadowed
        want_err = (not valid) or (dup and not redef)
        tags.append('constant:' + ('invalid' if not valid else 'redefined-interactively' if redef else 'dup' if dup else 'ok'))
        if want_err and exc is None:
          fails.append(('bad-constant-accepted', 'constant(%r) accepted; existing %r' % (name, sorted(consts))))
        if not want_err and exc is not None:
          fails.append(('valid-constant-rejected', 'constant(%r) raised %s; existing %r' % (name, exc, sorted(consts))))
        if exc is None:
          # a reference parsed EARLIER by an abbreviation that would now be ambiguous, or name another constant
          for b in binds.values():
            for ab, full in b.cres.items():
              if ab != full and full != name and (name == ab or name.endswith('.' + ab)):
                tags.append('constant:shares-suffix-of-earlier-reference')
                late_shared.add((ab, full))
          consts[name] = c01.canon_plain(op[2])
      if k == 'pbind' and op[2][0] == 'macro' and '.' in op[1].rpartition('/')[2]:
        # a %name whose name abbreviates constants: unique -> fine, several -> error
        nm = op[2][1]
        match = [c for c in consts if c == nm] or [c for c in consts if c.endswith('.' + nm)]
        if len(match) > 1 and exc is None:
          fails.append(('ambiguous-constant-accepted', '%%%s matches %r' % (nm, match)))
        if len(match) == 1 and len(nm) < len(match[0]) and any(c != match[0] and c.split('.')[-1] == nm.split('.')[-1] for c in consts):
          nontrivial = True
      if k == 'finalize' and not t['before']['locked']:
        # finalize rejects a macro that is referenced (at any depth of any bound value) but never bound, or referenced
        # without being evaluated
        bound_macros = {s for s, q, _ in t['before']['config'] if q == 'gin.macro'}

        def macro_refs(x):
          if isinstance(x, T):
            if x.tag == 'Ref' and len(x.args) == 3 and x.args[1] == 'gin.macro':
              yield ('/'.join(x.args[0]), x.args[2])
            for a in x.args:
              yield from macro_refs(a)
          elif isinstance(x, (list, tuple)):
            for a in x:
              yield from macro_refs(a)
        bad = [(nm, ev) for _, _, pd in t['before']['config'] for _, v in pd for nm, ev in macro_refs(v)
               if nm not in bound_macros or not ev]
        tags.append('finalize:' + ('bad-macro' if bad else 'ok'))
        if bad and exc is None:
          fails.append(('finalize-accepted-bad-macro', 'macro references %r (name, evaluated) are unbound or unevaluated; bound macros %r' %
                        (bad[:3], sorted(bound_macros))))
        if simple:
          # the same verdict from the op list alone: every use that stands in a current binding (dict keys included)
          unbound = sorted({nm for b in binds.values() for nm, _ in b.refs if ('macro', nm) not in binds})
          uneval = sorted({nm for b in binds.values() for nm, ev in b.refs if not ev})
          if (unbound or uneval) and exc is None:
            fails.append(('finalize-accepted-bad-macro', 'the current bindings %r use the macros %r, which no definition binds, and '
                          '%r without evaluating them; finalize() accepted' %
                          (['%s = %s' % ('/'.join(x for x in key[1:-1] if x) + ('.' if key[0] == 'param' else '') + (key[-1] if key[0] == 'param' else ''),
                                         ginm.val_text(b.v))
                            for key, b in binds.items() if any(nm in unbound or not ev for nm, ev in b.refs)][:3], unbound, uneval)))
      if k == 'call' and t['depth'] >= 0:
        ctx = next(call_iter, None)
        if ctx is not None and simple and not op[2] and not op[3] and ctx['sel'] in sels:
          # does this call use a constant reference whose abbreviation has been taken by a later constant too
          if any(key[0] == 'param' and key[2] == ctx['sel'] and any((ab, full) in late_shared for ab, full in self.cres_used(b, binds))
                 for key, b in binds.items()):
            nontrivial = True
            tags.append('call:uses-reference-parsed-before-a-constant-sharing-its-suffix')
        if ctx is not None and 'error' in ctx and simple and not op[2] and not op[3] and ctx['sel'] in sels:
          # the call RAISED.  From the op list alone: if every current binding of this configurable is unscoped, names one
          # of its parameters and has a value the op list decides (every %m has a last definition, every constant reference
          # named exactly one constant when it was parsed, every dict key can be hashed, no helper that runs has bindings of
          # its own), then nothing in the configuration can raise: the values must be delivered
          runs, decided, wants = [], True, []
          params = regs_by_sel[ctx['sel']]['sig']['args']
          for key, b in binds.items():
            if key[0] != 'param':
              continue
            if key[2] != ctx['sel']:
              continue
            if key[1] or key[3] not in params:
              decided = False
              break
            try:
              wants.append((key[3], ginm.val_text(b.v), expect(b, binds, sels, runs, consts=consts)))
            except (KeyError, Skip):
              decided = False
              break
          if any(key[0] == 'param' and key[2] != ctx['sel'] and key[2] in runs for key in binds):
            decided = False
          if decided and wants:
            fails.append(('bound-value-not-delivered', 'the call of %s raised %s; its bindings %r are all decided by the op list '
                          '(constants defined so far: %r; a %%name names a constant from the moment it is parsed) and require the '
                          'values %r to be delivered' % (ctx['sel'], ctx['error'], ['%s = %s' % (p_, tx) for p_, tx, _ in wants],
                                                         sorted(c for c in consts if c != 'gin.REQUIRED'), [w for _, _, w in wants])))
        if ctx is None or 'error' in ctx or ctx['log_end'] == ctx['log_start']:
          continue
        own = m.log[ctx['log_end'] - 1]
        env = dict((a, b) for a, b in own[2])
        if simple and not op[2] and not op[3] and ctx['sel'] in sels:
          # what the op list says this call must deliver: the last binding of each parameter, every %m in it (at any depth,
          # in key position too) replaced by the LAST definition of m; one run of g per use of a macro bound to @g()
          runs, decided = [], True
          for key, b in binds.items():
            if key[0] != 'param' or key[2] != ctx['sel']:
              continue
            prm = key[3]
            if key[1] or prm not in env or any(o[0] == 'param' and o[1] and o[2:] == key[2:] for o in binds):
              decided = False        # scoped bindings: left to the other predicates
              continue
            try:
              want = expect(b, binds, sels, runs, consts=consts)
            except KeyError as e:
              fails.append(('macro-use-wrong-value', 'parameter %r = %s uses the macro %s, which no definition binds; the call '
                            'succeeded and delivered %r' % (prm, ginm.val_text(b.v), e, env[prm])))
              decided = False
              continue
            except Skip:
              decided = False
              continue
            if not matches(want, env[prm]):
              fails.append(('macro-use-wrong-value', 'parameter %r = %s received %r; the last definitions %r require %r' %
                            (prm, ginm.val_text(b.v), env[prm],
                             {nm: ginm.val_text(binds[('macro', nm)].v) for nm, _ in b.refs if ('macro', nm) in binds}, want)))
          others = sorted(e[0] for e in m.log[ctx['log_start']:ctx['log_end'] - 1])
          if decided and others != sorted(runs):
            fails.append(('macro-reference-not-reevaluated', 'the uses of macros bound to evaluated references require the runs %r; '
                          'ran: %r' % (sorted(runs), others)))
        bound = c01.overlay_spec(ctx['config'], ctx['scope'], ctx['sel'])
        mvals = {}
        for s, q, pd in ctx['config']:
          if q == 'gin.macro':
            for p, v in pd:
              if p == 'value':
                mvals[s] = v
        # the store's macro value must be the LAST definition in program order
        for name, v in macro_def.items():
          if ginm.textable(v) and not ginm.has_syntax(v) and mvals.get(name, '<unset>') != c01.canon_plain(v):
            fails.append(('macro-not-last-definition', 'macro %r: last definition %r, store holds %r' % (name, v, mvals.get(name))))
        for p, v in bound.items():
          us = list(uses_of(v))
          if not us or p not in env:
            continue
          try:
            want = substitute(v, mvals)
          except (KeyError, RecursionError):
            continue
          if env[p] != want:
            fails.append(('macro-use-wrong-value', 'parameter %r = %r received %r; current macro values %r require %r' %
                          (p, v, env[p], mvals, want)))
        # constants: the very object
        for p, v in bound.items():
          if isinstance(v, T) and v.tag == 'Ref' and v.args[1] == 'gin.constant' and p in env:
            name = '/'.join(v.args[0])
            if name in consts and env[p] != consts[name]:
              fails.append(('constant-not-identical', '%r -> %r, stored %r' % (name, env[p], consts[name])))
        # a macro bound to @g() re-evaluates g at every use
        helper_runs = [e for e in m.log[ctx['log_start']:ctx['log_end'] - 1]]
        want_runs = 0
        ok = True
        for p, v in bound.items():
          # evaluated references to the helper that stand inside a container (under a macro key): one run each
          if not (isinstance(v, T) and v.tag == 'Ref'):
            want_runs += sum(1 for r in c04.refs_in(v) if r.args[1] not in ('gin.macro', 'gin.constant') and r.args[2])
          for name in uses_of(v):
            mv = mvals.get(name)
            while isinstance(mv, T) and mv.tag == 'Ref' and mv.args[1] == 'gin.macro':
              mv = mvals.get('/'.join(mv.args[0]))
            if mv is None:
              ok = False
            elif isinstance(mv, T) and mv.tag == 'Ref' and mv.args[1] == 'gin.constant':
              pass                   # a macro bound to a constant: a lookup, no helper runs
            elif isinstance(mv, T) and mv.tag == 'Ref' and mv.args[2]:
              want_runs += 1
            elif c04.refs_in(mv) and any(r.args[2] for r in c04.refs_in(mv)):
              ok = False
        if ok and not any(isinstance(v, T) and v.tag == 'Ref' and v.args[1] != 'gin.macro' for v in bound.values()) \
           and len(helper_runs) != want_runs:
          fails.append(('macro-reference-not-reevaluated', '%d uses of macros bound to evaluated references, helper ran %d times' %
                        (want_runs, len(helper_runs))))
    fails = m.readback_fails() + fails
    return {'obs': obs, 'fails': fails[:3], 'nontrivial': nontrivial, 'tags': tags}


ENGINES = [MacroEngine()]
