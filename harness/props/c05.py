"""C05 — macros and constants are late-bound named values."""
from harness import common as C
from harness import ginm
from harness.common import T
from harness.main import Engine
from harness.props import c01, c04, c12

PID = 'C05'
LEVEL = 'proof'
RULE = ('gin-machine/macros: 1-3 parse phases; macro definitions, uses (%m) and re-definitions in every order, before and '
        'after the use and across parse calls; scope-like macro names (s1/m); macros bound to literals, @g, @g(), other '
        'macros; Python-defined constants with shared dotted suffixes, abbreviated by every suffix, invalid / duplicate / '
        'ambiguous names; calls after each phase; finalize. Independent predicate: each use receives the value of the LAST '
        'definition preceding the call (computed from the op list), k uses of a macro bound to @g() run g k times, a '
        'constant use delivers the stored object. non-trivial = a use that precedes the (re)definition it ends up seeing, '
        'or a constant abbreviated by a proper suffix while another constant shares a shorter suffix.')
TRUSTED_BASE = c01.TRUSTED_BASE
ASSUMPTIONS = []

# 's1' is a macro whose name is a proper '/'-prefix of the scope-like names 's1/mm', 's1/s2/mm' (each is its own macro:
# one being bound says nothing about another)
MACROS = ['mm', 'nn', 's1/mm', 's1', 's1/s2/mm']
CONSTS = ['K', 'a.K', 'b.a.K', 'x.Y', 'Y', 'c.Z']


def uses_of(v):
  if isinstance(v, T):
    if v.tag == 'Ref' and v.args[1] == 'gin.macro' and v.args[2]:
      yield '/'.join(v.args[0])
    else:
      for a in v.args:
        yield from uses_of(a)
  elif isinstance(v, list):
    for a in v:
      yield from uses_of(a)


def substitute(v, macro_vals, depth=0):
  """the value a consumer must receive: every %m replaced by the current value of m (plain values only)"""
  if depth > 8:
    raise RecursionError
  if isinstance(v, T):
    if v.tag == 'Ref' and v.args[1] == 'gin.macro' and v.args[2]:
      name = '/'.join(v.args[0])
      if name not in macro_vals:
        raise KeyError(name)
      return substitute(macro_vals[name], macro_vals, depth + 1)
    if v.tag == 'Ref':
      raise KeyError('ref')
    return T(v.tag, *[substitute(a, macro_vals, depth) for a in v.args])
  if isinstance(v, list):
    return [substitute(a, macro_vals, depth) for a in v]
  return v


class MacroEngine(c01.CallEngine):
  name = 'gin-macros'

  def budget(self, tier):
    return 900 if tier == 'quick' else 25000

  def corpus(self):
    f = {'sel': 'm.f', 'sig': {'args': ['a', 'b'], 'defaults': [['n'], ['n']], 'varargs': False, 'kwonly': [],
                               'varkw': False}, 'allow': [], 'deny': []}
    g = dict(f, sel='n.g')
    return [{'regs': [f, g], 'ops': [
        ['pbind', 'f.a', ['macro', 'mm']], ['pbind', 'mm', ['i', 1]], ['call', 'm.f', [], []],
        ['pbind', 'mm', ['i', 2]], ['call', 'm.f', [], []],
        ['pbind', 'mm', ['ref', [], 'g', True]], ['pbind', 'f.b', ['l', [['macro', 'mm'], ['macro', 'mm']]]],
        ['call', 'm.f', [], []], ['pbind', 's1/mm', ['s', 'x']], ['pbind', 'f.a', ['macro', 's1/mm']], ['call', 'm.f', [], []],
        ['constant', 'a.K', ['obj', 'o1']], ['constant', 'b.K', ['i', 5]], ['pbind', 'f.a', ['macro', 'a.K']],
        ['pbind', 'f.b', ['macro', 'K']], ['constant', 'a.K', ['i', 1]], ['constant', '1bad', ['i', 1]],
        ['call', 'm.f', [], []], ['query', 'a.K'], ['query', 'K'], ['pbind', 'f.b', ['macro', 'undefined']],
        ['finalize'], ['pbind', 'f.b', ['ref', ['mm'], 'gin.macro', False]], ['finalize'], ['dumpcalls'], ['dumpconfig']]},
            {'regs': [f, g], 'ops': [
                ['pbind', 's1', ['i', 1]], ['pbind', 'f.a', ['macro', 's1/mm']], ['finalize'], ['locked'],
                ['pbind', 's1/s2/mm', ['i', 3]], ['pbind', 'f.b', ['macro', 's1/s2']], ['finalize'], ['locked'], ['dumpconfig']]},
            {'regs': [f, g], 'ops': [
                ['pbind', 's1/mm', ['i', 1]], ['pbind', 'f.a', ['l', [['macro', 's1/s2/mm'], ['macro', 's1/mm']]]], ['finalize'], ['locked'],
                ['pbind', 's1/s2/mm', ['i', 2]], ['call', 'm.f', [], []], ['finalize'], ['locked'], ['dumpcalls']]}]

  def gen(self, rng, tier):
    regs = []
    for sel in rng.sample(['m.f', 'n.g', 'k'], rng.randint(2, 3)):
      n = rng.randint(1, 3)
      regs.append({'sel': sel, 'sig': {'args': ginm.PARAMS[:n], 'defaults': [['n']] * n, 'varargs': False, 'kwonly': [],
                                      'varkw': False}, 'allow': [], 'deny': []})
    consumer, helper = regs[0], regs[1]
    ops = []
    defined_consts = []
    for phase in range(rng.randint(1, 3)):
      for _ in range(rng.randint(1, 5)):
        r = rng.random()
        if r < 0.35:      # definition
          m = rng.choice(MACROS)
          x = rng.random()
          if x < 0.6:
            v = ginm.gen_plain(rng, 1)
          elif x < 0.8:
            v = ['ref', [], helper['sel'], rng.random() < 0.7]
          else:
            v = ['macro', rng.choice([q for q in MACROS if q != m])]
          ops.append(['pbind', m, v])
        elif r < 0.7:     # use
          p = rng.choice(consumer['sig']['args'])
          m = rng.choice(MACROS + ['undefined'] if rng.random() < 0.9 else ['undefined'])
          v = ['macro', m]
          y = rng.random()
          if y < 0.3:
            v = ['l', [['macro', m], ['macro', rng.choice(MACROS)], ['i', 0]]]
          elif y < 0.4:
            # a macro in KEY position: evaluated at call time, checked at finalize.  Its value must be hashable
            # (hashability is CPython's, not modelled): an undefined macro, or one bound to an int
            mk = rng.choice(['undefined', 'hk'])
            if mk == 'hk':
              ops.append(['pbind', 'hk', ['i', rng.randint(0, 9)]])
            v = ['d', [[['macro', mk], ['i', 0]]]]
          ops.append(['pbind', consumer['sel'] + '.' + p, v])
        elif r < 0.85:    # constants
          nm = rng.choice(CONSTS + ['1bad', 'a..K', 'K\n', 'a.K\n'])
          ops.append(['constant', nm, ['obj', 'o%d' % len(defined_consts)] if rng.random() < 0.5 else ginm.gen_plain(rng, 0)])
          defined_consts.append(nm)
        else:
          k = rng.choice(CONSTS)
          parts = k.split('.')
          ab = '.'.join(parts[rng.randrange(len(parts)):])
          ops.append(['pbind', consumer['sel'] + '.' + rng.choice(consumer['sig']['args']), ['macro', ab]])
          if rng.random() < 0.5:
            ops.append(['query', ab])
      ops.append(['call', consumer['sel'], [], []])
      if rng.random() < 0.3:
        ops.append(['with', rng.choice(ginm.SCOPES), [['call', consumer['sel'], [], []]]])
    if rng.random() < 0.5:
      ops.append(['finalize'] if rng.random() < 0.6 else ['with', rng.choice(['s1', 's1/s2']), [['finalize']]])   # also from inside a scope
    ops += [['dumpcalls'], ['dumpconfig']]
    return {'regs': regs, 'ops': ops}

  def impl(self, case):
    m = ginm.Machine(mutate=False)
    obs = m.run(case)
    self._last = m
    regs_by_sel = {c['sel']: c for c in case['regs']}
    fails, tags = [], []
    nontrivial = False
    # walk the trace: last definition of each macro / constants, in program order
    macro_def, macro_first_use = {}, {}
    consts = {'gin.REQUIRED': T('REQUIRED')}
    call_iter = iter(m.calls)
    for t in m.trace:
      k, op, exc = t['kind'], t['op'], t['exc']
      if k == 'pbind' and exc is None and '.' not in op[1].rpartition('/')[2]:
        if op[1] in macro_first_use:
          nontrivial = True            # a use precedes this (re)definition
        macro_def[op[1]] = op[2]
      if k == 'pbind' and exc is None and '.' in op[1].rpartition('/')[2]:
        for nm in ([op[2][1]] if op[2][0] == 'macro' else [x[1] for x in op[2][1] if x[0] == 'macro'] if op[2][0] == 'l' else []):
          macro_first_use.setdefault(nm, True)
      if k == 'constant':
        name = op[1]
        import re
        valid = bool(re.fullmatch(r'([a-zA-Z_]\w*\.)*[a-zA-Z_]\w*', name))
        dup = any(c == name or c.endswith('.' + name) for c in consts)
        want_err = (not valid) or dup
        tags.append('constant:' + ('invalid' if not valid else 'dup' if dup else 'ok'))
        if want_err and exc is None:
          fails.append(('bad-constant-accepted', 'constant(%r) accepted; existing %r' % (name, sorted(consts))))
        if not want_err and exc is not None:
          fails.append(('valid-constant-rejected', 'constant(%r) raised %s; existing %r' % (name, exc, sorted(consts))))
        if exc is None:
          consts[name] = c01.canon_plain(op[2])
      if k == 'pbind' and op[2][0] == 'macro' and '.' in op[1].rpartition('/')[2]:
        # a %name whose name abbreviates constants: unique -> fine, several -> error
        nm = op[2][1]
        match = [c for c in consts if c == nm] or [c for c in consts if c.endswith('.' + nm)]
        if len(match) > 1 and exc is None:
          fails.append(('ambiguous-constant-accepted', '%%%s matches %r' % (nm, match)))
        if len(match) == 1 and len(nm) < len(match[0]) and any(c != match[0] and c.split('.')[-1] == nm.split('.')[-1] for c in consts):
          nontrivial = True
      if k == 'finalize' and not t['before']['locked']:
        # finalize rejects a macro that is referenced (at any depth of any bound value) but never bound, or referenced
        # without being evaluated
        bound_macros = {s for s, q, _ in t['before']['config'] if q == 'gin.macro'}

        def macro_refs(x):
          if isinstance(x, T):
            if x.tag == 'Ref' and len(x.args) == 3 and x.args[1] == 'gin.macro':
              yield ('/'.join(x.args[0]), x.args[2])
            for a in x.args:
              yield from macro_refs(a)
          elif isinstance(x, (list, tuple)):
            for a in x:
              yield from macro_refs(a)
        bad = [(nm, ev) for _, _, pd in t['before']['config'] for _, v in pd for nm, ev in macro_refs(v)
               if nm not in bound_macros or not ev]
        tags.append('finalize:' + ('bad-macro' if bad else 'ok'))
        if bad and exc is None:
          fails.append(('finalize-accepted-bad-macro', 'macro references %r (name, evaluated) are unbound or unevaluated; bound macros %r' %
                        (bad[:3], sorted(bound_macros))))
      if k == 'call' and t['depth'] >= 0:
        ctx = next(call_iter, None)
        if ctx is None or 'error' in ctx or ctx['log_end'] == ctx['log_start']:
          continue
        own = m.log[ctx['log_end'] - 1]
        env = dict((a, b) for a, b in own[2])
        bound = c01.overlay_spec(ctx['config'], ctx['scope'], ctx['sel'])
        mvals = {}
        for s, q, pd in ctx['config']:
          if q == 'gin.macro':
            for p, v in pd:
              if p == 'value':
                mvals[s] = v
        # the store's macro value must be the LAST definition in program order
        for name, v in macro_def.items():
          if ginm.textable(v) and not ginm.has_syntax(v) and mvals.get(name, '<unset>') != c01.canon_plain(v):
            fails.append(('macro-not-last-definition', 'macro %r: last definition %r, store holds %r' % (name, v, mvals.get(name))))
        for p, v in bound.items():
          us = list(uses_of(v))
          if not us or p not in env:
            continue
          try:
            want = substitute(v, mvals)
          except (KeyError, RecursionError):
            continue
          if env[p] != want:
            fails.append(('macro-use-wrong-value', 'parameter %r = %r received %r; current macro values %r require %r' %
                          (p, v, env[p], mvals, want)))
        # constants: the very object
        for p, v in bound.items():
          if isinstance(v, T) and v.tag == 'Ref' and v.args[1] == 'gin.constant' and p in env:
            name = '/'.join(v.args[0])
            if name in consts and env[p] != consts[name]:
              fails.append(('constant-not-identical', '%r -> %r, stored %r' % (name, env[p], consts[name])))
        # a macro bound to @g() re-evaluates g at every use
        helper_runs = [e for e in m.log[ctx['log_start']:ctx['log_end'] - 1]]
        want_runs = 0
        ok = True
        for p, v in bound.items():
          for name in uses_of(v):
            mv = mvals.get(name)
            while isinstance(mv, T) and mv.tag == 'Ref' and mv.args[1] == 'gin.macro':
              mv = mvals.get('/'.join(mv.args[0]))
            if mv is None:
              ok = False
            elif isinstance(mv, T) and mv.tag == 'Ref' and mv.args[2]:
              want_runs += 1
            elif c04.refs_in(mv) and any(r.args[2] for r in c04.refs_in(mv)):
              ok = False
        if ok and not any(isinstance(v, T) and v.tag == 'Ref' and v.args[1] != 'gin.macro' for v in bound.values()) \
           and len(helper_runs) != want_runs:
          fails.append(('macro-reference-not-reevaluated', '%d uses of macros bound to evaluated references, helper ran %d times' %
                        (want_runs, len(helper_runs))))
    fails = m.readback_fails() + fails
    return {'obs': obs, 'fails': fails[:3], 'nontrivial': nontrivial, 'tags': tags}


ENGINES = [MacroEngine()]
