"""C16 — a failed parse applies exactly the preceding statements; errors say where."""
import copy

from harness import common as C
from harness import textm
from harness.common import T
from harness.main import Engine

PID = 'C16'
LEVEL = 'proof'
RULE = ('parser/faults: a valid config (bindings, macros, blocks, imports, include tree of depth <= 3 over in-memory '
        'readers) with ONE fault injected at a random statement position (any depth of the include tree, any block '
        'member) out of 14 fault kinds (bad value, missing value, unbalanced bracket, bad selector, unknown parameter / '
        'configurable / reference, ambiguous selector, denylisted parameter, bad include, bad import, syntactic / '
        'semantic bad block member, tokenizer fault on the following line); observed: exception class, (file, line) '
        'chain, SyntaxError.lineno, store and provenance afterwards, scope / lock / parse-context depth; the '
        'independent oracle is a SECOND fresh gin that parses only the statements preceding the fault. '
        'non-trivial = fault at statement position >= 2 inside an included file or inside a block.')
TRUSTED_BASE = [
    'Coq 8.16.1 kernel; vm_compute in the correspondence run; no native_compute',
    'hand-written models coq/Model/Parser.v + coq/Model/Stmt.v of gin/config_parser.py and gin/config.py:833-869,2366-2404,2492-2505, utils.py:21-60; tied to /repo by harness/textm.py + harness/props/c16.py',
    'NOT modelled: CPython tokenizer (observed), ast.literal_eval per atom (oracle table), os.path / open (in-memory readers + a per-case temp dir)',
]
ASSUMPTIONS = ['references sit on the first line of their statement (the location attached to a failing reference is the line of its @ token)']

REGS = [
    {'sel': 'm.f', 'args': ['a', 'b', 'c'], 'varkw': False, 'allow': [], 'deny': []},
    {'sel': 'n.g', 'args': ['a', 'dn'], 'varkw': False, 'allow': [], 'deny': ['dn']},
    {'sel': 'x.h', 'args': ['a'], 'varkw': False, 'allow': [], 'deny': []},
    {'sel': 'y.h', 'args': ['a'], 'varkw': False, 'allow': [], 'deny': []},
    {'sel': 'k', 'args': ['a'], 'varkw': True, 'allow': [], 'deny': []},
]
TARGETS = [('f', ['a', 'b', 'c']), ('m.f', ['a', 'b', 'c']), ('g', ['a']), ('n.g', ['a']), ('x.h', ['a']),
           ('k', ['a', 'zz', 'q'])]
MODULES = ['pkg.mod', 'other']
VALUES = ['1', "'s'", '[1, 2]', '(1,)', "{'k': 2}", 'None', '-3', '@f', '@g()', '@s1/f()', '%mac', '[@f, 1]', '1.5']
SEMANTIC = {'unknown-param': 'ValueError', 'unknown-cfg': 'ValueError', 'unknown-ref': 'ValueError',
            'ambiguous': 'KeyError', 'denylisted': 'ValueError', 'bad-include': 'OSError',
            'bad-import': 'ModuleNotFoundError', 'bad-block-member-semantic': 'ValueError',
            'unknown-block': 'ValueError'}
SYNTACTIC = ['bad-value', 'missing-value', 'unbalanced', 'bad-selector', 'bad-block-member', 'tokerr-next-line']


def gen_item(rng, files_left):
  r = rng.random()
  scope = '/'.join(rng.choice(['s1', 's2']) for _ in range(rng.choice([0, 0, 1, 2])))
  sel, params = rng.choice(TARGETS)
  if r < 0.5:
    return ['bind', scope, sel, rng.choice(params), rng.choice(VALUES)]
  if r < 0.6:
    return ['macro', rng.choice(['mac', 's1/mac', 'other_mac']), rng.choice(VALUES[:7])]
  if r < 0.8:
    return ['block', scope, sel, [[p, rng.choice(VALUES)] for p in rng.sample(params, rng.randint(1, len(params)))]]
  if r < 0.88:
    return ['import', rng.choice(MODULES)]
  if files_left and r < 0.97:
    return ['include', files_left.pop()]
  return ['bind', scope, sel, rng.choice(params), rng.choice(VALUES)]


FAULT_LINES = {
    'bad-value': 'f.a = 1 +', 'missing-value': 'f.a =', 'unbalanced': 'f.a = [1, 2', 'bad-selector': 'f..a = 1',
    'unknown-param': 'f.nope = 1', 'unknown-cfg': 'nosuch.a = 1', 'unknown-ref': 'f.a = @nosuch()',
    'ambiguous': 'h.a = 1', 'denylisted': 'g.dn = 1', 'bad-include': "include 'missing.gin'",
    'bad-import': 'import no.such.module', 'tokerr-next-line': "'abc", 'unknown-block': 'nosuch:\n  a = 1',
}


def render_file(rng_seed, items, fault=None):
  """fault = (index, kind, member_index).  Returns text, line of each item (1-based), line of the fault."""
  import random
  rng = random.Random(rng_seed)
  lines, item_lines, fault_line = [], [], None

  def junk():
    for _ in range(rng.choice([0, 0, 1])):
      lines.append(rng.choice(['', '# comment', '  ']))
  for i, it in enumerate(items):
    junk()
    if fault and fault[0] == i and fault[1] not in ('bad-block-member', 'bad-block-member-semantic'):
      fault_line = len(lines) + 1
      lines.extend(FAULT_LINES[fault[1]].split('\n'))
    item_lines.append(len(lines) + 1)
    k = it[0]
    if k == 'bind':
      lines.append('%s%s.%s = %s' % (it[1] + '/' if it[1] else '', it[2], it[3], it[4]))
    elif k == 'macro':
      lines.append('%s = %s' % (it[1], it[2]))
    elif k == 'block':
      lines.append('%s%s:' % (it[1] + '/' if it[1] else '', it[2]))
      for j, (p, v) in enumerate(it[3]):
        if fault and fault[0] == i and fault[2] == j and fault[1] in ('bad-block-member', 'bad-block-member-semantic'):
          fault_line = len(lines) + 1
          lines.append('  a = 1 +' if fault[1] == 'bad-block-member' else '  nope = 1')
        if rng.random() < 0.2:
          lines.append('  # member comment')
        lines.append('  %s = %s' % (p, v))
      if fault and fault[0] == i and fault[2] == len(it[3]) and fault[1] in ('bad-block-member', 'bad-block-member-semantic'):
        fault_line = len(lines) + 1
        lines.append('  a = 1 +' if fault[1] == 'bad-block-member' else '  nope = 1')
    elif k == 'import':
      lines.append('import ' + it[1])
    elif k == 'include':
      lines.append("include '%s'" % it[1])
  if fault and fault[0] == len(items) and fault[1] not in ('bad-block-member', 'bad-block-member-semantic'):
    junk()
    fault_line = len(lines) + 1
    lines.extend(FAULT_LINES[fault[1]].split('\n'))
  return '\n'.join(lines) + '\n', item_lines, fault_line


def build(abstract):
  """abstract: {'files': {name: items}, 'entry': name, 'fault': (file, index, kind, member) or None, 'seed': n}
  -> (files texts, prefix files texts, info)"""
  fault = abstract.get('fault')
  texts, lines = {}, {}
  for name, items in abstract['files'].items():
    f = (fault[1], fault[2], fault[3]) if fault and fault[0] == name else None
    t, il, fl = render_file('%s/%s' % (abstract['seed'], name), items, f)
    texts[name] = t
    lines[name] = (il, fl)
  info = {'lines': lines}
  if not fault:
    return texts, None, info
  # include path from the entry to the faulty file: list of (file, item index of the include)
  def find(name, target):
    if name == target:
      return []
    for i, it in enumerate(abstract['files'][name]):
      if it[0] == 'include':
        sub = find(it[1], target)
        if sub is not None:
          # only if this include is reached before the fault in flattened order: always true on the path
          return [(name, i)] + sub
    return None
  path = find(abstract['entry'], fault[0])
  info['path'] = path
  # prefix universe
  pre = copy.deepcopy(abstract)
  pre['fault'] = None
  items = pre['files'][fault[0]]
  if fault[2] in ('bad-block-member', 'bad-block-member-semantic'):
    blk = items[fault[1]]
    pre['files'][fault[0]] = items[:fault[1]] + ([['block', blk[1], blk[2], blk[3][:fault[3]]]] if fault[3] > 0 else [])
  else:
    pre['files'][fault[0]] = items[:fault[1]]
  for (name, i) in path or []:
    pre['files'][name] = pre['files'][name][:i + 1]
  # the include chain lines
  chain = []
  if path is not None:
    chain.append([fault[0], lines[fault[0]][1]])
    for (name, i) in reversed(path):
      chain.append([name, lines[name][0][i]])
  info['chain'] = chain
  ptexts = {}
  for name, its in pre['files'].items():
    ptexts[name] = render_file('%s/%s' % (abstract['seed'], name), its, None)[0]
  info['prefix_items'] = pre['files']
  return texts, ptexts, info


def to_case(texts, entry, as_string):
  """entry file goes either as a bindings string or as a file of reader 1; other files on reader 1/2"""
  files = [{}, {}, {}]
  for n, t in texts.items():
    files[1 if hash(n) % 2 == 0 or True else 2][n] = t
  calls = [['text', texts[entry], None]] if as_string else [['file', entry, None]]
  return {'regs': REGS, 'consts': ['KK'], 'files': files, 'prefixes': [''], 'modules': MODULES, 'calls': calls}


class FaultEngine(Engine):
  name = 'parser-faults'
  imports = 'Model.SelectorMap Model.Parser Model.Stmt'
  run_fn = 'Stmt.run'

  def budget(self, tier):
    return 600 if tier == 'quick' else 20000

  def corpus(self):
    base = {'files': {'main.gin': [['bind', '', 'f', 'a', '1'], ['include', 'inc.gin'], ['bind', '', 'f', 'c', '3']],
                      'inc.gin': [['bind', '', 'f', 'b', '2'], ['block', 's1', 'g', [['a', '1']]], ['bind', '', 'f', 'b', '4']]},
            'entry': 'main.gin', 'seed': 1, 'as_string': False}
    out = []
    for kind in list(SEMANTIC) + SYNTACTIC:
      if kind.startswith('bad-block-member'):
        out.append(dict(base, fault=['inc.gin', 1, kind, 1]))
      else:
        out.append(dict(base, fault=['inc.gin', 2, kind, 0]))
        out.append(dict(base, fault=['main.gin', 3, kind, 0]))
    out.append(dict(base, fault=None))
    return out

  def gen(self, rng, tier):
    names = ['main.gin', 'a.gin', 'sub/b.gin', 'c.gin']
    left = names[1:rng.randint(1, 4)]
    order = list(left)
    files = {}
    pending = ['main.gin']
    avail = list(reversed(order))
    while pending:
      n = pending.pop(0)
      items = []
      for _ in range(rng.randint(1, 6)):
        it = gen_item(rng, avail)
        items.append(it)
        if it[0] == 'include':
          pending.append(it[1])
      files[n] = items
    ab = {'files': files, 'entry': 'main.gin', 'seed': rng.randint(0, 10 ** 6), 'as_string': rng.random() < 0.3,
          'fault': None}
    if rng.random() < 0.85:
      fname = rng.choice(list(files))
      kind = rng.choice(list(SEMANTIC) + SYNTACTIC)
      items = files[fname]
      if kind.startswith('bad-block-member'):
        blocks = [i for i, it in enumerate(items) if it[0] == 'block']
        if not blocks:
          kind = 'unknown-param'
          ab['fault'] = [fname, rng.randint(0, len(items)), kind, 0]
        else:
          i = rng.choice(blocks)
          if items[i][2] == 'k' and kind == 'bad-block-member-semantic':
            kind = 'bad-block-member'          # k takes **kwargs: no parameter name is unknown to it
          ab['fault'] = [fname, i, kind, rng.randint(0, len(items[i][3]))]
      else:
        ab['fault'] = [fname, rng.randint(0, len(items)), kind, 0]
    return ab

  def to_coq(self, ab):
    texts, _, _ = build(ab)
    return textm.case_coq(to_case(texts, ab['entry'], ab.get('as_string')))

  def shrink(self, ab):
    for name in list(ab['files']):
      its = ab['files'][name]
      for i in range(len(its)):
        if its[i][0] == 'include':
          continue
        if ab['fault'] and ab['fault'][0] == name and ab['fault'][1] == i and ab['fault'][2].startswith('bad-block'):
          continue
        b = copy.deepcopy(ab)
        del b['files'][name][i]
        if b['fault'] and b['fault'][0] == name and b['fault'][1] > i:
          b['fault'][1] -= 1
        yield b

  def impl(self, ab):
    texts, ptexts, info = build(ab)
    case = to_case(texts, ab['entry'], ab.get('as_string'))
    m = textm.TextMachine(case)
    fails, tags = [], []
    try:
      obs, stable = m.run()
    finally:
      m.close()
    fault = ab.get('fault')
    res = obs[0]
    # reachable fault? (the faulty file may not be on an include path)
    if fault and info.get('path') is None:
      fault = None
    tags.append('fault:' + (fault[2] if fault else 'none'))
    if not stable:
      fails.append(('parse-left-state-dirty', 'active scope / lock / parse-context depth changed across the parse call'))
    nontrivial = False
    if fault:
      kind = fault[2]
      nontrivial = (fault[1] >= 2 and fault[0] != ab['entry']) or kind.startswith('bad-block')
      if isinstance(res, T) and res.tag == 'Ok':
        fails.append(('fault-not-reported', 'fault %r was accepted' % (fault,)))
      elif kind in SEMANTIC:
        chain = [[('' if (ab.get('as_string') and f == ab['entry']) else f), l] for f, l in info['chain']]
        if not (isinstance(res, T) and res.tag == 'Err' and res.args[0] == SEMANTIC[kind]):
          fails.append(('error-class-changed', 'fault %s: expected %s, got %r' % (kind, SEMANTIC[kind], C.jsonable(res))))
        elif res.args[1] != chain:
          fails.append(('error-location-chain', 'fault %s at %r: message names %r, expected %r' %
                        (kind, fault, res.args[1], chain)))
      else:
        if not (isinstance(res, T) and (res.tag == 'SyntaxError' or (res.tag == 'Err' and res.args[0] == 'TokenError'))):
          fails.append(('error-class-changed', 'syntactic fault %s: got %r' % (kind, C.jsonable(res))))
      # exactly the prefix has been applied: compare with a fresh gin given only the prefix
      pcase = to_case(ptexts, ab['entry'], ab.get('as_string'))
      pm = textm.TextMachine(pcase)
      try:
        pobs, _ = pm.run()
      finally:
        pm.close()
      if isinstance(pobs[0], T) and pobs[0].tag != 'Ok':
        fails.append(('harness-prefix-config-invalid', repr(C.jsonable(pobs[0]))))
      else:
        def norm(x):   # the two cases live in different temp dirs; files are in memory so names are equal
          return C.jsonable(x)
        if norm(obs[-2]) != norm(pobs[-2]):
          fails.append(('prefix-not-applied', 'fault %s at %r: store after the failed parse %r; a fresh gin given the '
                        'preceding statements only has %r' % (kind, fault, norm(obs[-2]), norm(pobs[-2]))))
        elif norm(obs[-1]) != norm(pobs[-1]):
          fails.append(('provenance-differs', 'after fault %r: %r vs prefix-only %r' % (fault, norm(obs[-1]), norm(pobs[-1]))))
    else:
      if not (isinstance(res, T) and res.tag == 'Ok'):
        fails.append(('valid-config-rejected', repr(C.jsonable(res))))
      else:
        # provenance: last statement that set each parameter (flattened order)
        want = {}
        def walk(name, shown):
          il = info['lines'][name][0]
          for i, it in enumerate(ab['files'][name]):
            if it[0] == 'bind':
              want[(it[1], full.get(it[2], it[2]), it[3])] = (shown, il[i])
            elif it[0] == 'macro':
              want[(it[1], 'gin.macro', 'value')] = (shown, il[i])
            elif it[0] == 'block':
              text_lines = texts[name].split('\n')
              ln = il[i]
              for p, v in it[3]:
                while not text_lines[ln].strip().startswith(p + ' ='):
                  ln += 1
                want[(it[1], full.get(it[2], it[2]), p)] = (shown, ln + 1)
                ln += 1
            elif it[0] == 'include':
              walk(it[1], it[1])
        full = {'f': 'm.f', 'g': 'n.g'}
        walk(ab['entry'], '' if ab.get('as_string') else ab['entry'])
        got = {(s, q, p): (f, l) for s, q, pd in obs[-1] for p, f, l in pd}
        for (s, q, p), loc in want.items():
          q2 = full.get(q, q)
          if got.get((s, q2, p)) != loc:
            fails.append(('provenance-wrong', '%r: recorded %r, last set at %r' % ((s, q2, p), got.get((s, q2, p)), loc)))
            break
    return {'obs': obs, 'fails': fails[:3], 'nontrivial': nontrivial, 'tags': tags}


FULL = {'f': 'm.f', 'm.f': 'm.f', 'g': 'n.g', 'n.g': 'n.g', 'x.h': 'x.h', 'k': 'k'}


class ProvenanceEngine(Engine):
  """who set it last: sequences of parses (bindings strings and files, some failing half way) interleaved with
  gin.bind_parameter calls from Python; the provenance record and the '# Set in' comments of
  config_str(show_provenance=True) must name the statement that LAST set each binding, and nothing for a
  binding last set from Python."""
  name = 'provenance'
  imports = 'Model.SelectorMap Model.Parser Model.Stmt Model.StmtEngine'
  run_fn = 'run2'

  def budget(self, tier):
    return 150 if tier == 'quick' else 5000

  def corpus(self):
    return [{'calls': [['text', [['', 'f', 'a', 1], ['', 'f', 'b', 2]], None], ['bind', '', 'f', 'a', 5],
                       ['text', [['s1', 'g', 'a', 3], ['', 'nosuch', 'a', 1], ['', 'f', 'c', 4]], None], ['bind', 's1', 'g', 'a', 6]]}]

  def gen(self, rng, tier):
    calls = []
    for _ in range(rng.randint(2, 6)):
      r = rng.random()
      def one():
        sel, ps = rng.choice(TARGETS)
        return [rng.choice(['', '', 's1']), sel, rng.choice(ps[:2]), rng.randint(0, 99)]
      if r < 0.45:
        calls.append(['bind'] + one())
      else:
        items = [one() for _ in range(rng.randint(1, 4))]
        if rng.random() < 0.25:
          items.insert(rng.randint(0, len(items)), ['', 'nosuch', 'a', 1])     # the parse fails there
        calls.append(['text' if rng.random() < 0.6 else 'file', items, None])
    return {'calls': calls}

  def case(self, c):
    files = {}
    calls = []
    for i, call in enumerate(c['calls']):
      if call[0] == 'bind':
        calls.append(call)
        continue
      text = ''.join('%s%s.%s = %d\n' % (sc + '/' if sc else '', sel, p, v) for sc, sel, p, v in call[1])
      if call[0] == 'text':
        calls.append(['text', text, None])
      else:
        files['p%d.gin' % i] = text
        calls.append(['file', 'p%d.gin' % i, None])
    return {'regs': REGS, 'consts': [], 'files': [{}, files], 'prefixes': [''], 'modules': MODULES, 'calls': calls, 'engine2': True}

  def to_coq(self, c):
    return textm.case_coq(self.case(c))

  def shrink(self, c):
    for i in range(len(c['calls'])):
      yield {'calls': c['calls'][:i] + c['calls'][i + 1:]}

  def impl(self, c):
    case = self.case(c)
    m = textm.TextMachine(case)
    fails = []
    try:
      obs, _ = m.run()
      text = m.gin.config_str(show_provenance=True)
    finally:
      m.close()
    # the property's own bookkeeping
    want = {}
    for i, call in enumerate(c['calls']):
      if call[0] == 'bind':
        if call[2] in FULL:
          want[(call[1], FULL[call[2]], call[3])] = None
        continue
      for ln, (sc, sel, p, v) in enumerate(call[1], 1):
        if sel not in FULL:
          break                 # the parse stops here: nothing after it is applied
        want[(sc, FULL[sel], p)] = ('' if call[0] == 'text' else 'p%d.gin' % i, ln)
    got = {}
    for sc, q, pd in obs[len(case['calls']) + 1]:
      for p, fname, line in pd:
        got[(sc, q, p)] = None if fname == '<none>' else (fname, line)
    if got != want:
      diff = {str(k): (want.get(k, 'absent'), got.get(k, 'absent')) for k in set(want) | set(got) if want.get(k, 'absent') != got.get(k, 'absent')}
      fails.append(('provenance-names-wrong-statement', 'binding -> (last setter, recorded): %r' % diff))
    # the comments of config_str(show_provenance=True): '# Set in <where>:<line>:' directly above the binding it describes
    lines = text.split('\n')
    shown = {}
    for i, l in enumerate(lines):
      if ' = ' in l and not l.startswith('#'):
        key = l.split(' = ')[0]
        prev = lines[i - 1] if i else ''
        shown[key] = prev if prev.startswith('# Set in ') else None
    for (sc, q, p), w in want.items():
      short = [k for k in shown if k.endswith('.' + p) and (k.startswith(sc + '/') if sc else '/' not in k) and
               q.endswith(k[len(sc) + 1 if sc else 0:].rsplit('.', 1)[0])]
      if len(short) != 1:
        continue
      comment = shown[short[0]]
      exp = None if w is None else '# Set in %s:%d:' % (w[0] or 'bindings string', w[1])
      if comment != exp:
        fails.append(('provenance-comment-wrong', '%s: comment %r, last set by %r' % (short[0], comment, w)))
    nontrivial = any(cl[0] == 'bind' for cl in c['calls'][1:]) and any(cl[0] != 'bind' for cl in c['calls'])
    return {'obs': obs, 'fails': fails[:3], 'nontrivial': nontrivial, 'tags': [cl[0] for cl in c['calls']]}


ENGINES = [FaultEngine(), ProvenanceEngine()]
