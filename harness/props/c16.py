"""C16 — a failed parse applies exactly the preceding statements; errors say where."""
import copy
import importlib.util
import sys

from harness import common as C
from harness import textm
from harness.common import T
from harness.main import Engine

PID = 'C16'
LEVEL = 'proof'
RULE = ('parser/faults: a valid config (bindings, macros, blocks, imports, include tree of depth <= 3 over in-memory '
        'readers) with ONE fault injected at a random statement position (any depth of the include tree, any block '
        'member) out of 14 fault kinds (bad value, missing value, unbalanced bracket, bad selector, unknown parameter / '
        'configurable / reference, ambiguous selector, denylisted parameter, bad include, bad import, syntactic / '
        'semantic bad block member, tokenizer fault on the following line); observed: exception class, (file, line) '
        'chain, SyntaxError.lineno, store, provenance and the recorded imports (gin.config._IMPORTS, as a sorted set of '
        'module names) afterwards -- also after the failed parse --, scope / lock / parse-context depth; the '
        'independent oracle is a SECOND fresh gin that parses only the statements preceding the fault. '
        'non-trivial = fault at statement position >= 2 inside an included file or inside a block. '
        'import-raises (implementation only): the same include trees with the fault "import of a module that EXISTS and '
        'raises while it is executed" (ValueError, AttributeError, RuntimeError, KeyError, TypeError, ZeroDivisionError, a '
        'user-defined class; 7 spellings of the statement) or "import bound to the reserved symbol gin under dynamic '
        'registration" (5 spellings), with / without skip_unknown: instance of the original class, original message first, '
        'location chain, prefix applied. provenance-late-registration (implementation only): parses (strings, files, '
        'includes) / gin.bind_parameter / clear_config interleaved with LATE registrations (functions, classes; by a call '
        'between two steps or by an import statement in the middle of a parse; methods registered in the class body and '
        'renamed when their class is registered): after every step the bindings and "# Set in" comments of '
        'config_str(show_provenance=True) against the harness\'s own bookkeeping. '
        'import-raises also: modules that raise StopIteration, or whose SOURCE has a SyntaxError / IndentationError (the error '
        'then names a place in the module, not in the config); and, after the failure, the recorded imports and '
        'config_str() against the fresh gin given the prefix. unbuildable-value (implementation only): fault "a well-formed '
        'value that cannot be built" (unhashable dictionary key, 8 shapes): TypeError, location chain, prefix applied. '
        'dynamic-registration-faults (implementation only): files under dynamic registration (3 import spellings per '
        'module, bindings and references through them; as a string, a file, an included file) with one fault out of 7 '
        'kinds at a random position: class and location chain of the error, then config_str(), the recorded imports, the '
        'store and the outcome of LATER parses that name each function without importing it, against a fresh gin given '
        'the preceding statements only. line-endings (implementation only): texts written with LF / CRLF / CR / a mixture, '
        'handed over as a string, a list of strings, a file object (binary, newline=\'\', text mode), a path, through a '
        'reader, with include trees, holding layout characters that are no line breaks (form feed, VT, FS, GS, RS, NEL, '
        'U+2028, U+2029 as page-break lines, in comments, strings, multi-line values), one fault out of 12 kinds: class '
        'and (file, line) chain / SyntaxError.lineno against the harness\'s own line count, store and "# Set in" comments '
        'against its bookkeeping, config_str(show_provenance=True) against a fresh gin given the preceding lines with LF.')
TRUSTED_BASE = [
    'Coq 8.16.1 kernel; vm_compute in the correspondence run; no native_compute',
    'hand-written models coq/Model/Parser.v + coq/Model/Stmt.v of gin/config_parser.py and gin/config.py:833-869,2366-2404,2492-2505, utils.py:21-60; tied to /repo by harness/textm.py + harness/props/c16.py',
    'NOT modelled: CPython tokenizer (observed), ast.literal_eval per atom (oracle table), os.path / open (in-memory readers + a per-case temp dir)',
]
ASSUMPTIONS = ['references sit on the first line of their statement (the location attached to a failing reference is the line of its @ token)']

REGS = [
    {'sel': 'm.f', 'args': ['a', 'b', 'c'], 'varkw': False, 'allow': [], 'deny': []},
    {'sel': 'n.g', 'args': ['a', 'dn'], 'varkw': False, 'allow': [], 'deny': ['dn']},
    {'sel': 'x.h', 'args': ['a'], 'varkw': False, 'allow': [], 'deny': []},
    {'sel': 'y.h', 'args': ['a'], 'varkw': False, 'allow': [], 'deny': []},
    {'sel': 'k', 'args': ['a'], 'varkw': True, 'allow': [], 'deny': []},
]
TARGETS = [('f', ['a', 'b', 'c']), ('m.f', ['a', 'b', 'c']), ('g', ['a']), ('n.g', ['a']), ('x.h', ['a']),
           ('k', ['a', 'zz', 'q'])]
MODULES = ['pkg.mod', 'other']
VALUES = ['1', "'s'", '[1, 2]', '(1,)', "{'k': 2}", 'None', '-3', '@f', '@g()', '@s1/f()', '%mac', '[@f, 1]', '1.5']
SEMANTIC = {'unknown-param': 'ValueError', 'unknown-cfg': 'ValueError', 'unknown-ref': 'ValueError',
            'ambiguous': 'KeyError', 'denylisted': 'ValueError', 'bad-include': 'OSError',
            'bad-import': 'ModuleNotFoundError', 'bad-block-member-semantic': 'ValueError',
            'unknown-block': 'ValueError'}
SYNTACTIC = ['bad-value', 'missing-value', 'unbalanced', 'bad-selector', 'bad-block-member', 'tokerr-next-line']


def gen_item(rng, files_left):
  r = rng.random()
  scope = '/'.join(rng.choice(['s1', 's2']) for _ in range(rng.choice([0, 0, 1, 2])))
  sel, params = rng.choice(TARGETS)
  if r < 0.5:
    return ['bind', scope, sel, rng.choice(params), rng.choice(VALUES)]
  if r < 0.6:
    return ['macro', rng.choice(['mac', 's1/mac', 'other_mac']), rng.choice(VALUES[:7])]
  if r < 0.8:
    return ['block', scope, sel, [[p, rng.choice(VALUES)] for p in rng.sample(params, rng.randint(1, len(params)))]]
  if r < 0.88:
    return ['import', rng.choice(MODULES)]
  if files_left and r < 0.97:
    return ['include', files_left.pop()]
  return ['bind', scope, sel, rng.choice(params), rng.choice(VALUES)]


FAULT_LINES = {
    'bad-value': 'f.a = 1 +', 'missing-value': 'f.a =', 'unbalanced': 'f.a = [1, 2', 'bad-selector': 'f..a = 1',
    'unknown-param': 'f.nope = 1', 'unknown-cfg': 'nosuch.a = 1', 'unknown-ref': 'f.a = @nosuch()',
    'ambiguous': 'h.a = 1', 'denylisted': 'g.dn = 1', 'bad-include': "include 'missing.gin'",
    'bad-import': 'import no.such.module', 'tokerr-next-line': "'abc", 'unknown-block': 'nosuch:\n  a = 1',
}


# ---- the family "an import statement whose module RAISES while it is executed" (implementation only: engine import-raises)
class C16BackendError(RuntimeError):
  """a user-defined exception class, as a third-party module would raise it"""


BOOM_EXC = {'ValueError': ValueError, 'AttributeError': AttributeError, 'RuntimeError': RuntimeError, 'KeyError': KeyError,
            'TypeError': TypeError, 'ZeroDivisionError': ZeroDivisionError, 'C16BackendError': C16BackendError,
            # a module whose execution runs an iterator dry; a module whose SOURCE does not compile (the error then carries
            # a file and a line of its own: those of the module, which say nothing about where in the config it happened)
            'StopIteration': StopIteration, 'SyntaxError': SyntaxError, 'IndentationError': IndentationError}
BOOM_SOURCE = {'SyntaxError': 'def oops(:\n  pass\n', 'IndentationError': 'def ok():\n    x = 1\n  y = 2\n'}
# statement form -> (statement text, name of the module whose execution raises); %s = the exception's name
BOOM_FORMS = {
    'plain': ('import c16boom_%s', 'c16boom_%s'),
    'alias': ('import c16boom_%s as bm', 'c16boom_%s'),
    'from-name': ('from c16boom_%s import thing', 'c16boom_%s'),
    'submodule': ('import c16boompkg.m%s', 'c16boompkg.m%s'),
    'submodule-alias': ('import c16boompkg.m%s as sm', 'c16boompkg.m%s'),
    'from-package': ('from c16boompkg import m%s', 'c16boompkg.m%s'),
    'from-submodule-name': ('from c16boompkg.m%s import thing as t', 'c16boompkg.m%s'),
}
# under dynamic registration the symbol `gin` is reserved: binding an import to it is gin's own ValueError
RESERVED_FORMS = {'plain': 'import gin', 'dotted': 'import gin.config', 'alias': 'import pkg.mod as gin',
                  'from-alias': 'from pkg import mod as gin', 'from-gin': 'from c16boompkg import gin'}
DYN_HEADER = 'from __gin__ import dynamic_registration'
IMPORT_FAULTS = {}        # kind -> {'exc': class name, 'module': raising module or None, 'dyn': needs dynamic registration}
for _x in BOOM_EXC:
  for _f, (_st, _mod) in BOOM_FORMS.items():
    IMPORT_FAULTS['import-raises:%s:%s' % (_x, _f)] = {'exc': _x, 'module': _mod % _x, 'dyn': False}
    FAULT_LINES['import-raises:%s:%s' % (_x, _f)] = _st % _x
for _f, _st in RESERVED_FORMS.items():
  IMPORT_FAULTS['import-reserved:%s' % _f] = {'exc': 'ValueError', 'module': None, 'dyn': True}
  FAULT_LINES['import-reserved:%s' % _f] = _st


def boom_message(modname):
  return 'c16 backend failure while executing %s' % modname


def make_boom(cls, modname):
  """the exception object that executing module `modname` raises"""
  if cls.__name__ in BOOM_SOURCE:
    try:
      compile(BOOM_SOURCE[cls.__name__], '/site/%s.py' % modname.replace('.', '/'), 'exec')
    except SyntaxError as e:
      assert type(e) is cls, (type(e), cls)
      return e
    raise AssertionError('source of %s compiles' % modname)
  return cls(boom_message(modname))


class BoomFinder:
  """meta-path finder: c16boom_<Exc> and c16boompkg.m<Exc> exist and raise <Exc> while being executed; c16boompkg and
  c16boompkg.gin are importable"""

  def __init__(self):
    self.raising = {}
    for x, cls in BOOM_EXC.items():
      self.raising['c16boom_' + x] = cls
      self.raising['c16boompkg.m' + x] = cls
    self.fine = {'c16boompkg': True, 'c16boompkg.gin': False}
    self.original = None           # the exception object the last raising module raised

  def find_spec(self, name, path=None, target=None):
    if name in self.raising:
      return importlib.util.spec_from_loader(name, self)
    if name in self.fine:
      return importlib.util.spec_from_loader(name, self, is_package=self.fine[name])
    return None

  def create_module(self, spec):
    return None

  def exec_module(self, module):
    cls = self.raising.get(module.__name__)
    if cls is not None:
      self.original = make_boom(cls, module.__name__)
      raise self.original

  def install(self):
    self.remove()
    sys.meta_path.insert(0, self)

  def remove(self):
    for f in [f for f in sys.meta_path if isinstance(f, BoomFinder)]:
      sys.meta_path.remove(f)
    for n in [n for n in sys.modules if n == 'c16boompkg' or n.startswith('c16boompkg.') or n.startswith('c16boom_')]:
      sys.modules.pop(n, None)


class SnapMachine(textm.TextMachine):
  """the text machine; remembers what config_str() prints and which imports are recorded when its calls are over"""

  def run(self):
    out = super().run()
    try:
      text = self.gin.config_str()
    except Exception as e:  # pylint: disable=broad-except
      text = 'config_str() raised %s: %s' % (type(e).__name__, str(e)[:200])
    self.snap = {'imports': sorted(st.format() for st in self.cfg._IMPORTS), 'config_str': text}  # pylint: disable=protected-access
    return out


def snap_fails(m, pm, fault):
  """the statements before the fault have taken effect: what gin RECORDS of them (the imports, which head config_str())
  is what a fresh gin given those statements only records"""
  if m.snap['imports'] != pm.snap['imports']:
    return [('prefix-imports-not-recorded', 'after fault %r the recorded imports are %r; a fresh gin given the preceding '
             'statements only has recorded %r' % (fault, m.snap['imports'], pm.snap['imports']))]
  if m.snap['config_str'] != pm.snap['config_str']:
    return [('config-str-differs-from-prefix', 'after fault %r config_str() is %r; a fresh gin given the preceding '
             'statements only prints %r' % (fault, m.snap['config_str'], pm.snap['config_str']))]
  return []


LOC_RE = r'\n  In (?:file "(.*?)",|bindings string) line (\d+)'


class BoomMachine(SnapMachine):
  """the text machine with the raising modules importable; remembers the exception object of the last failing parse"""

  def __init__(self, case):
    super().__init__(case)
    self.boom = BoomFinder()
    self.boom.install()
    self.last_exc = None
    for fname in ('parse_config', 'parse_config_file'):
      def wrapped(*a, _orig=getattr(self.gin, fname), **kw):
        try:
          return _orig(*a, **kw)
        except Exception as e:  # pylint: disable=broad-except
          self.last_exc = e
          raise
      setattr(self.gin, fname, wrapped)

  def run_call(self, c):
    self.last_exc = None
    o, same = super().run_call(c)
    e = self.last_exc
    if isinstance(e, SyntaxError) and isinstance(self.boom.original, SyntaxError):
      # the SyntaxError of a MODULE is, for the config, a semantic error like any other a failing import raises:
      # observed as (class, location chain of the message), not as (a syntax error of the config at .lineno)
      import re
      o = T('Err', type(e).__name__, [[mt.group(1) or '', int(mt.group(2))] for mt in re.finditer(LOC_RE, str(e))])
    return o, same

  def close(self):
    self.boom.remove()
    super().close()


def render_file(rng_seed, items, fault=None, header=None):
  """fault = (index, kind, member_index).  Returns text, line of each item (1-based), line of the fault."""
  import random
  rng = random.Random(rng_seed)
  lines, item_lines, fault_line = [], [], None
  if header:
    lines.append(header)

  def junk():
    for _ in range(rng.choice([0, 0, 1])):
      lines.append(rng.choice(['', '# comment', '  ']))
  for i, it in enumerate(items):
    junk()
    if fault and fault[0] == i and fault[1] not in ('bad-block-member', 'bad-block-member-semantic'):
      fault_line = len(lines) + 1
      lines.extend(FAULT_LINES[fault[1]].split('\n'))
    item_lines.append(len(lines) + 1)
    k = it[0]
    if k == 'bind':
      lines.append('%s%s.%s = %s' % (it[1] + '/' if it[1] else '', it[2], it[3], it[4]))
    elif k == 'macro':
      lines.append('%s = %s' % (it[1], it[2]))
    elif k == 'block':
      lines.append('%s%s:' % (it[1] + '/' if it[1] else '', it[2]))
      for j, (p, v) in enumerate(it[3]):
        if fault and fault[0] == i and fault[2] == j and fault[1] in ('bad-block-member', 'bad-block-member-semantic'):
          fault_line = len(lines) + 1
          lines.append('  a = 1 +' if fault[1] == 'bad-block-member' else '  nope = 1')
        if rng.random() < 0.2:
          lines.append('  # member comment')
        lines.append('  %s = %s' % (p, v))
      if fault and fault[0] == i and fault[2] == len(it[3]) and fault[1] in ('bad-block-member', 'bad-block-member-semantic'):
        fault_line = len(lines) + 1
        lines.append('  a = 1 +' if fault[1] == 'bad-block-member' else '  nope = 1')
    elif k == 'import':
      lines.append('import ' + it[1])
    elif k == 'include':
      lines.append("include '%s'" % it[1])
  if fault and fault[0] == len(items) and fault[1] not in ('bad-block-member', 'bad-block-member-semantic'):
    junk()
    fault_line = len(lines) + 1
    lines.extend(FAULT_LINES[fault[1]].split('\n'))
  return '\n'.join(lines) + '\n', item_lines, fault_line


def build(abstract):
  """abstract: {'files': {name: items}, 'entry': name, 'fault': (file, index, kind, member) or None, 'seed': n}
  -> (files texts, prefix files texts, info)"""
  fault = abstract.get('fault')
  texts, lines = {}, {}
  for name, items in abstract['files'].items():
    f = (fault[1], fault[2], fault[3]) if fault and fault[0] == name else None
    t, il, fl = render_file('%s/%s' % (abstract['seed'], name), items, f,
                            DYN_HEADER if name in (abstract.get('dyn') or []) else None)
    texts[name] = t
    lines[name] = (il, fl)
  info = {'lines': lines}
  if not fault:
    return texts, None, info
  # include path from the entry to the faulty file: list of (file, item index of the include)
  def find(name, target):
    if name == target:
      return []
    for i, it in enumerate(abstract['files'][name]):
      if it[0] == 'include':
        sub = find(it[1], target)
        if sub is not None:
          # only if this include is reached before the fault in flattened order: always true on the path
          return [(name, i)] + sub
    return None
  path = find(abstract['entry'], fault[0])
  info['path'] = path
  # prefix universe
  pre = copy.deepcopy(abstract)
  pre['fault'] = None
  items = pre['files'][fault[0]]
  if fault[2] in ('bad-block-member', 'bad-block-member-semantic'):
    blk = items[fault[1]]
    pre['files'][fault[0]] = items[:fault[1]] + ([['block', blk[1], blk[2], blk[3][:fault[3]]]] if fault[3] > 0 else [])
  else:
    pre['files'][fault[0]] = items[:fault[1]]
  for (name, i) in path or []:
    pre['files'][name] = pre['files'][name][:i + 1]
  # the include chain lines
  chain = []
  if path is not None:
    chain.append([fault[0], lines[fault[0]][1]])
    for (name, i) in reversed(path):
      chain.append([name, lines[name][0][i]])
  info['chain'] = chain
  ptexts = {}
  for name, its in pre['files'].items():
    ptexts[name] = render_file('%s/%s' % (abstract['seed'], name), its, None,
                               DYN_HEADER if name in (abstract.get('dyn') or []) else None)[0]
  info['prefix_items'] = pre['files']
  return texts, ptexts, info


def to_case(texts, entry, as_string, sk=None):
  """entry file goes either as a bindings string or as a file of reader 1; other files on reader 1/2"""
  files = [{}, {}, {}]
  for n, t in texts.items():
    files[1 if hash(n) % 2 == 0 or True else 2][n] = t
  calls = [['text', texts[entry], sk]] if as_string else [['file', entry, sk]]
  return {'regs': REGS, 'consts': ['KK'], 'files': files, 'prefixes': [''], 'modules': MODULES, 'calls': calls}


def recorded_imports(m):
  """what gin has RECORDED of the imports that took effect (config._IMPORTS, which heads config_str()), in the form the
  model observes it (coq/Model/StmtEngine.v imports_out over t_imports): the set of module names, sorted"""
  return sorted({st.module for st in m.cfg._IMPORTS})  # pylint: disable=protected-access


class FaultEngine(Engine):
  name = 'parser-faults'
  imports = 'Model.SelectorMap Model.Parser Model.Stmt Model.StmtEngine'
  run_fn = 'run_imports'        # Stmt.run + the recorded imports when the calls are over (also after a failed parse)

  def budget(self, tier):
    return 600 if tier == 'quick' else 20000

  def corpus(self):
    base = {'files': {'main.gin': [['bind', '', 'f', 'a', '1'], ['include', 'inc.gin'], ['bind', '', 'f', 'c', '3']],
                      'inc.gin': [['bind', '', 'f', 'b', '2'], ['block', 's1', 'g', [['a', '1']]], ['bind', '', 'f', 'b', '4']]},
            'entry': 'main.gin', 'seed': 1, 'as_string': False}
    out = []
    for kind in list(SEMANTIC) + SYNTACTIC:
      if kind.startswith('bad-block-member'):
        out.append(dict(base, fault=['inc.gin', 1, kind, 1]))
      else:
        out.append(dict(base, fault=['inc.gin', 2, kind, 0]))
        out.append(dict(base, fault=['main.gin', 3, kind, 0]))
    out.append(dict(base, fault=None))
    # F11 seen through provenance (known finding F11b): the same binding made twice, the second time in a block with a faulty member
    out.append({'as_string': False, 'entry': 'main.gin', 'fault': ['main.gin', 1, 'bad-block-member', 1], 'seed': 287748,
                'files': {'main.gin': [['block', 's2/s1', 'x.h', [['a', '1.5']]], ['block', 's2/s1', 'x.h', [['a', '1.5']]]]}})
    # imports that have taken effect before the fault (in the failing file itself, and in the file including it):
    # they stay recorded after the failed parse
    imp = {'files': {'main.gin': [['import', 'other'], ['bind', '', 'f', 'a', '1'], ['include', 'inc.gin'], ['bind', '', 'f', 'c', '3']],
                     'inc.gin': [['import', 'pkg.mod'], ['bind', '', 'f', 'b', '2'], ['import', 'other']]},
           'entry': 'main.gin', 'seed': 3, 'as_string': False}
    for kind in ('unknown-cfg', 'bad-value', 'bad-import', 'tokerr-next-line'):
      out.append(dict(imp, fault=['inc.gin', 2, kind, 0]))
      out.append(dict(imp, fault=['main.gin', 4, kind, 0], as_string=True))
      out.append(dict(imp, fault=['main.gin', 1, kind, 0]))
    return out

  def gen(self, rng, tier):
    names = ['main.gin', 'a.gin', 'sub/b.gin', 'c.gin']
    left = names[1:rng.randint(1, 4)]
    order = list(left)
    files = {}
    pending = ['main.gin']
    avail = list(reversed(order))
    while pending:
      n = pending.pop(0)
      items = []
      for _ in range(rng.randint(1, 6)):
        it = gen_item(rng, avail)
        items.append(it)
        if it[0] == 'include':
          pending.append(it[1])
      files[n] = items
    ab = {'files': files, 'entry': 'main.gin', 'seed': rng.randint(0, 10 ** 6), 'as_string': rng.random() < 0.3,
          'fault': None}
    if rng.random() < 0.85:
      fname = rng.choice(list(files))
      kind = rng.choice(list(SEMANTIC) + SYNTACTIC)
      items = files[fname]
      if kind.startswith('bad-block-member'):
        blocks = [i for i, it in enumerate(items) if it[0] == 'block']
        if not blocks:
          kind = 'unknown-param'
          ab['fault'] = [fname, rng.randint(0, len(items)), kind, 0]
        else:
          i = rng.choice(blocks)
          if items[i][2] == 'k' and kind == 'bad-block-member-semantic':
            kind = 'bad-block-member'          # k takes **kwargs: no parameter name is unknown to it
          ab['fault'] = [fname, i, kind, rng.randint(0, len(items[i][3]))]
      else:
        ab['fault'] = [fname, rng.randint(0, len(items)), kind, 0]
    return ab

  def to_coq(self, ab):
    texts, _, _ = build(ab)
    return textm.case_coq(to_case(texts, ab['entry'], ab.get('as_string')))

  def shrink(self, ab):
    for name in list(ab['files']):
      its = ab['files'][name]
      for i in range(len(its)):
        if its[i][0] == 'include':
          continue
        if ab['fault'] and ab['fault'][0] == name and ab['fault'][1] == i and ab['fault'][2].startswith('bad-block'):
          continue
        b = copy.deepcopy(ab)
        del b['files'][name][i]
        if b['fault'] and b['fault'][0] == name and b['fault'][1] > i:
          b['fault'][1] -= 1
        yield b

  machine = textm.TextMachine

  def expected_class(self, kind):
    """name of the exception class a semantic fault of this kind raises (None: a syntactic fault)"""
    return SEMANTIC.get(kind)

  def extra_fails(self, ab, m, fault, info):
    return []

  def prefix_fails(self, m, pm, fault):
    """further comparisons of the machine after the failed parse with the fresh one given the prefix (both closed)"""
    return []

  def impl(self, ab):
    texts, ptexts, info = build(ab)
    case = to_case(texts, ab['entry'], ab.get('as_string'), ab.get('sk'))
    m = self.machine(case)
    fails, tags = [], []
    try:
      obs, stable = m.run()
      recorded = recorded_imports(m)
    finally:
      m.close()
    fault = ab.get('fault')
    res = obs[0]
    # reachable fault? (the faulty file may not be on an include path)
    if fault and info.get('path') is None:
      fault = None
    tags.append('fault:' + (fault[2] if fault else 'none'))
    if not stable:
      fails.append(('parse-left-state-dirty', 'active scope / lock / parse-context depth changed across the parse call'))
    nontrivial = False
    if fault:
      kind = fault[2]
      nontrivial = (fault[1] >= 2 and fault[0] != ab['entry']) or kind.startswith('bad-block')
      if isinstance(res, T) and res.tag == 'Ok':
        fails.append(('fault-not-reported', 'fault %r was accepted' % (fault,)))
      elif self.expected_class(kind) is not None:
        chain = [[('' if (ab.get('as_string') and f == ab['entry']) else f), l] for f, l in info['chain']]
        if not (isinstance(res, T) and res.tag == 'Err' and res.args[0] == self.expected_class(kind)):
          fails.append(('error-class-changed', 'fault %s: expected %s, got %r' % (kind, self.expected_class(kind), C.jsonable(res))))
        elif res.args[1] != chain:
          fails.append(('error-location-chain', 'fault %s at %r: message names %r, expected %r' %
                        (kind, fault, res.args[1], chain)))
      else:
        if not (isinstance(res, T) and (res.tag == 'SyntaxError' or (res.tag == 'Err' and res.args[0] == 'TokenError'))):
          fails.append(('error-class-changed', 'syntactic fault %s: got %r' % (kind, C.jsonable(res))))
      # exactly the prefix has been applied: compare with a fresh gin given only the prefix
      fails.extend(self.extra_fails(ab, m, fault, info))
      pcase = to_case(ptexts, ab['entry'], ab.get('as_string'), ab.get('sk'))
      pm = self.machine(pcase)
      try:
        pobs, _ = pm.run()
        precorded = recorded_imports(pm)
      finally:
        pm.close()
      if isinstance(pobs[0], T) and pobs[0].tag != 'Ok':
        fails.append(('harness-prefix-config-invalid', repr(C.jsonable(pobs[0]))))
      else:
        def norm(x):   # the two cases live in different temp dirs; files are in memory so names are equal
          return C.jsonable(x)
        if norm(obs[-2]) != norm(pobs[-2]):
          fails.append(('prefix-not-applied', 'fault %s at %r: store after the failed parse %r; a fresh gin given the '
                        'preceding statements only has %r' % (kind, fault, norm(obs[-2]), norm(pobs[-2]))))
        elif norm(obs[-1]) != norm(pobs[-1]):
          fails.append(('provenance-differs', 'after fault %r: %r vs prefix-only %r' % (fault, norm(obs[-1]), norm(pobs[-1]))))
        elif recorded != precorded:
          fails.append(('prefix-imports-not-recorded', 'after fault %r the recorded imports are %r; a fresh gin given the '
                        'preceding statements only has recorded %r' % (fault, recorded, precorded)))
        else:
          fails.extend(self.prefix_fails(m, pm, fault))
    else:
      if not (isinstance(res, T) and res.tag == 'Ok'):
        fails.append(('valid-config-rejected', repr(C.jsonable(res))))
      else:
        # provenance: last statement that set each parameter (flattened order)
        want = {}
        def walk(name, shown):
          il = info['lines'][name][0]
          for i, it in enumerate(ab['files'][name]):
            if it[0] == 'bind':
              want[(it[1], full.get(it[2], it[2]), it[3])] = (shown, il[i])
            elif it[0] == 'macro':
              want[(it[1], 'gin.macro', 'value')] = (shown, il[i])
            elif it[0] == 'block':
              text_lines = texts[name].split('\n')
              ln = il[i]
              for p, v in it[3]:
                while not text_lines[ln].strip().startswith(p + ' ='):
                  ln += 1
                want[(it[1], full.get(it[2], it[2]), p)] = (shown, ln + 1)
                ln += 1
            elif it[0] == 'include':
              walk(it[1], it[1])
        full = {'f': 'm.f', 'g': 'n.g'}
        walk(ab['entry'], '' if ab.get('as_string') else ab['entry'])
        got = {(s, q, p): (f, l) for s, q, pd in obs[-1] for p, f, l in pd}
        for (s, q, p), loc in want.items():
          q2 = full.get(q, q)
          if got.get((s, q2, p)) != loc:
            fails.append(('provenance-wrong', '%r: recorded %r, last set at %r' % ((s, q2, p), got.get((s, q2, p)), loc)))
            break
    # the observation compared with the model: the calls' outcomes, store, provenance and the recorded imports
    return {'obs': obs + [recorded], 'fails': fails[:3], 'nontrivial': nontrivial, 'tags': tags}


class ImportFaultEngine(FaultEngine):
  """bad import in its less usual form: the module of an import statement EXISTS and raises while it is executed
  (ValueError, AttributeError, RuntimeError, KeyError, TypeError, ZeroDivisionError, a user-defined class; every
  spelling of the statement), or the statement binds the reserved symbol `gin` under dynamic registration (gin's own
  ValueError); at every depth of the include tree, as a file or a bindings string, with and without skip_unknown (which
  excuses an ImportError only).  The error must keep its class (an instance of the ORIGINAL class, original message
  first) and name the file and line of the import statement, then every include statement above it; exactly the
  preceding statements have taken effect.  Implementation only: the modules of Model/Stmt.v either exist or do not."""
  name = 'import-raises'
  model = False
  machine = BoomMachine

  def budget(self, tier):
    return 160 if tier == 'quick' else 6000

  def expected_class(self, kind):
    return IMPORT_FAULTS[kind]['exc'] if kind in IMPORT_FAULTS else SEMANTIC.get(kind)

  def corpus(self):
    files = {'main.gin': [['bind', '', 'f', 'a', '1'], ['include', 'inc.gin'], ['bind', '', 'f', 'c', '3']],
             'inc.gin': [['bind', '', 'f', 'b', '2'], ['include', 'sub/deep.gin'], ['bind', '', 'f', 'b', '4']],
             'sub/deep.gin': [['macro', 'mac', '1'], ['import', 'other'], ['macro', 's1/mac', "'s'"]]}
    base = {'files': files, 'entry': 'main.gin', 'seed': 2, 'as_string': False, 'sk': None, 'dyn': []}
    out = []
    forms = list(BOOM_FORMS)
    for n, x in enumerate(BOOM_EXC):
      form = forms[n % len(forms)]
      out.append(dict(base, fault=['sub/deep.gin', 2, 'import-raises:%s:%s' % (x, form), 0]))
      out.append(dict(base, fault=['inc.gin', 1 + n % 2, 'import-raises:%s:%s' % (x, forms[(n + 3) % len(forms)]), 0],
                      sk=(True if n % 2 else None)))
    out.append(dict(base, fault=['main.gin', 2, 'import-raises:ValueError:plain', 0]))
    out.append(dict(base, fault=['main.gin', 1, 'import-raises:C16BackendError:from-package', 0], as_string=True))
    for n, form in enumerate(RESERVED_FORMS):
      out.append(dict(base, fault=['sub/deep.gin', 1 + n % 3, 'import-reserved:' + form, 0], dyn=['sub/deep.gin']))
    out.append(dict(base, fault=['sub/deep.gin', 3, 'import-reserved:plain', 0], dyn=['sub/deep.gin'], sk=True))
    return out

  def gen(self, rng, tier):
    ab = super().gen(rng, tier)
    files = ab['files']
    inner = [n for n in files if n != ab['entry']]
    fname = rng.choice(inner) if inner and rng.random() < 0.7 else rng.choice(list(files))
    kind = rng.choice(list(IMPORT_FAULTS)) if rng.random() < 0.8 else 'import-reserved:' + rng.choice(list(RESERVED_FORMS))
    ab['dyn'] = []
    if IMPORT_FAULTS[kind]['dyn']:
      # under dynamic registration selectors resolve through the file's imports only: the file keeps its macros,
      # imports and includes (what it includes is parsed with a table of its own)
      files[fname] = [it for it in files[fname] if it[0] in ('macro', 'import', 'include')]
      ab['dyn'] = [fname]
    n = len(files[fname])
    ab['fault'] = [fname, rng.randint(min(2, n), n) if rng.random() < 0.5 else rng.randint(0, n), kind, 0]
    ab['sk'] = rng.choice([None, None, True, False])
    return ab

  def extra_fails(self, ab, m, fault, info):
    kind = fault[2]
    if kind not in IMPORT_FAULTS:
      return []
    e = m.last_exc
    spec = IMPORT_FAULTS[kind]
    cls = BOOM_EXC.get(spec['exc'], ValueError)
    fails = []
    if e is None:
      return fails                   # 'fault-not-reported' has been recorded by the caller
    if not isinstance(e, cls):
      fails.append(('error-class-changed', 'fault %s: the module raises %s, the parse raised %r, which is no instance of it' %
                    (kind, cls.__name__, type(e).__mro__)))
    if spec['module'] and m.boom.original is not None:
      first = str(m.boom.original)
      if not str(e).startswith(first):
        fails.append(('error-message-lost', 'fault %s: the original message %r is not the beginning of %r' % (kind, first, str(e))))
    return fails

  def prefix_fails(self, m, pm, fault):
    return snap_fails(m, pm, fault)


FULL = {'f': 'm.f', 'm.f': 'm.f', 'g': 'n.g', 'n.g': 'n.g', 'x.h': 'x.h', 'k': 'k'}


class ProvenanceEngine(Engine):
  """who set it last: sequences of parses (bindings strings and files, some failing half way) interleaved with
  gin.bind_parameter calls from Python; the provenance record and the '# Set in' comments of
  config_str(show_provenance=True) must name the statement that LAST set each binding, and nothing for a
  binding last set from Python."""
  name = 'provenance'
  imports = 'Model.SelectorMap Model.Parser Model.Stmt Model.StmtEngine'
  run_fn = 'run2'

  def budget(self, tier):
    return 150 if tier == 'quick' else 5000

  def corpus(self):
    return [{'calls': [['text', [['', 'f', 'a', 1], ['', 'f', 'b', 2]], None], ['bind', '', 'f', 'a', 5],
                       ['text', [['s1', 'g', 'a', 3], ['', 'nosuch', 'a', 1], ['', 'f', 'c', 4]], None], ['bind', 's1', 'g', 'a', 6]]}]

  def gen(self, rng, tier):
    calls = []
    for _ in range(rng.randint(2, 6)):
      r = rng.random()
      def one():
        sel, ps = rng.choice(TARGETS)
        return [rng.choice(['', '', 's1']), sel, rng.choice(ps[:2]), rng.randint(0, 99)]
      if r < 0.45:
        calls.append(['bind'] + one())
      else:
        items = [one() for _ in range(rng.randint(1, 4))]
        if rng.random() < 0.25:
          items.insert(rng.randint(0, len(items)), ['', 'nosuch', 'a', 1])     # the parse fails there
        calls.append(['text' if rng.random() < 0.6 else 'file', items, None])
    return {'calls': calls}

  def case(self, c):
    files = {}
    calls = []
    for i, call in enumerate(c['calls']):
      if call[0] == 'bind':
        calls.append(call)
        continue
      text = ''.join('%s%s.%s = %d\n' % (sc + '/' if sc else '', sel, p, v) for sc, sel, p, v in call[1])
      if call[0] == 'text':
        calls.append(['text', text, None])
      else:
        files['p%d.gin' % i] = text
        calls.append(['file', 'p%d.gin' % i, None])
    return {'regs': REGS, 'consts': [], 'files': [{}, files], 'prefixes': [''], 'modules': MODULES, 'calls': calls, 'engine2': True}

  def to_coq(self, c):
    return textm.case_coq(self.case(c))

  def shrink(self, c):
    for i in range(len(c['calls'])):
      yield {'calls': c['calls'][:i] + c['calls'][i + 1:]}

  def impl(self, c):
    case = self.case(c)
    m = textm.TextMachine(case)
    fails = []
    try:
      obs, _ = m.run()
      text = m.gin.config_str(show_provenance=True)
    finally:
      m.close()
    # the property's own bookkeeping
    want = {}
    for i, call in enumerate(c['calls']):
      if call[0] == 'bind':
        if call[2] in FULL:
          want[(call[1], FULL[call[2]], call[3])] = None
        continue
      for ln, (sc, sel, p, v) in enumerate(call[1], 1):
        if sel not in FULL:
          break                 # the parse stops here: nothing after it is applied
        want[(sc, FULL[sel], p)] = ('' if call[0] == 'text' else 'p%d.gin' % i, ln)
    got = {}
    for sc, q, pd in obs[len(case['calls']) + 1]:
      for p, fname, line in pd:
        got[(sc, q, p)] = None if fname == '<none>' else (fname, line)
    if got != want:
      diff = {str(k): (want.get(k, 'absent'), got.get(k, 'absent')) for k in set(want) | set(got) if want.get(k, 'absent') != got.get(k, 'absent')}
      fails.append(('provenance-names-wrong-statement', 'binding -> (last setter, recorded): %r' % diff))
    # the comments of config_str(show_provenance=True): '# Set in <where>:<line>:' directly above the binding it describes
    lines = text.split('\n')
    shown = {}
    for i, l in enumerate(lines):
      if ' = ' in l and not l.startswith('#'):
        key = l.split(' = ')[0]
        prev = lines[i - 1] if i else ''
        shown[key] = prev if prev.startswith('# Set in ') else None
    for (sc, q, p), w in want.items():
      short = [k for k in shown if k.endswith('.' + p) and (k.startswith(sc + '/') if sc else '/' not in k) and
               q.endswith(k[len(sc) + 1 if sc else 0:].rsplit('.', 1)[0])]
      if len(short) != 1:
        continue
      comment = shown[short[0]]
      exp = None if w is None else '# Set in %s:%d:' % (w[0] or 'bindings string', w[1])
      if comment != exp:
        fails.append(('provenance-comment-wrong', '%s: comment %r, last set by %r' % (short[0], comment, w)))
    nontrivial = any(cl[0] == 'bind' for cl in c['calls'][1:]) and any(cl[0] != 'bind' for cl in c['calls'])
    return {'obs': obs, 'fails': fails[:3], 'nontrivial': nontrivial, 'tags': [cl[0] for cl in c['calls']]}


# ---- provenance when configurables are registered LATE (between / in the middle of parses), methods renamed by their class
LATE_SRC = """
def early(a=0, b=0):
  return (a, b)

def late(a=0, b=0):
  return (a, b)

def late2(a=0, b=0):
  return (a, b)

class K:
  def __init__(self, a=0, b=0):
    self.ab = (a, b)
  @gin.register
  def meth(self, x=1, y=2):
    return (x, y)
  @staticmethod
  @gin.register
  def smeth(x=1, y=2):
    return (x, y)

class L:
  def __init__(self, a=0, b=0):
    self.ab = (a, b)
  @gin.register
  def lm(self, x=1, y=2):
    return (x, y)

class J:
  def __init__(self, a=0, b=0):
    self.ab = (a, b)
  @gin.register
  def jm(self, x=1, y=2):
    return (x, y)
"""
LATE_MOD = 'c16mod'
# entity -> (kind, owner class or None, own name, parameters)
LATE_ENTS = {
    'early': ('fn', None, 'early', ['a', 'b']), 'late': ('fn', None, 'late', ['a', 'b']), 'late2': ('fn', None, 'late2', ['a', 'b']),
    'K': ('cls', None, 'K', ['a', 'b']), 'L': ('cls', None, 'L', ['a', 'b']), 'J': ('cls', None, 'J', ['a', 'b']),
    'K.meth': ('meth', 'K', 'meth', ['x', 'y']), 'K.smeth': ('meth', 'K', 'smeth', ['x', 'y']),
    'L.lm': ('meth', 'L', 'lm', ['x', 'y']), 'J.jm': ('meth', 'J', 'jm', ['x', 'y']),
}
LATE_TARGETS = ['late', 'late2', 'K', 'L']          # what a 'reg' step can register (early, J: registered at the start)
LATE_APIS = ['register', 'external', 'configurable']
LATE_PKGS = [None, None, 'c16pkg', 'c16pkg.sub']
LATE_SCOPES = ['', '', 's1', 's1/s2']


def late_renamed(reg, owner):
  """registering a class with gin.register / gin.external_configurable renames the methods registered in its body to
  <Class>.<method>; gin.configurable (which decorates the class in place) leaves them under their own names"""
  return owner in reg and reg[owner][1] != 'configurable'


def late_full(reg, ent):
  """the full selector of an entity, given which targets are registered (target -> (module, api)); None: not registered"""
  kind, owner, name, _ = LATE_ENTS[ent]
  if kind == 'meth':
    return (reg[owner][0] + '.' + owner + '.' + name) if late_renamed(reg, owner) else (LATE_MOD + '.' + name)
  return (reg[ent][0] + '.' + name) if ent in reg else None


def late_written(reg, ent, choice):
  """(selector as a config writes it, whether it names a registered configurable now)"""
  kind, owner, name, _ = LATE_ENTS[ent]
  if kind == 'meth':
    if choice == 'bare':
      return name, not late_renamed(reg, owner)      # a renamed method must be written with its class name
    if choice == 'qual':
      return owner + '.' + name, late_renamed(reg, owner)
    return late_full(reg, ent), True
  if choice == 'full':
    return (reg[ent][0] if ent in reg else LATE_MOD) + '.' + name, ent in reg
  return name, ent in reg


class RegFinder:
  """import c16reg_<n> executes a registration (a module that registers its configurables when it is imported)"""

  def __init__(self):
    self.actions = {}

  def find_spec(self, name, path=None, target=None):
    if name in self.actions:
      return importlib.util.spec_from_loader(name, self)
    return None

  def create_module(self, spec):
    return None

  def exec_module(self, module):
    self.actions[module.__name__]()

  def remove(self):
    for f in [f for f in sys.meta_path if isinstance(f, RegFinder)]:
      sys.meta_path.remove(f)
    for n in [n for n in sys.modules if n.startswith('c16reg_')]:
      sys.modules.pop(n, None)


class LateRegistrationEngine(Engine):
  """who set it last, while the set of registered configurables GROWS: functions and classes registered between two
  parses / binds or by an import statement in the middle of a parse, and methods registered in the class body (before
  their class, under a provisional selector) that are renamed to <Class>.<method> when the class is registered.  After
  EVERY step config_str(show_provenance=True) must print exactly the bindings the harness's own bookkeeping holds,
  under the current name of their configurable, each with the '# Set in <file>:<line>:' comment of the statement that
  last set it (none when it was last set from Python); a binding to something not registered at that moment fails
  there, with the location chain, the statements before it applied.  Implementation only: Model/Stmt.v registers
  everything up front."""
  name = 'provenance-late-registration'
  model = False

  def budget(self, tier):
    return 200 if tier == 'quick' else 6000

  def corpus(self):
    return [
        # a method bound under its provisional name by a file; then its class is registered; then it is set again
        {'steps': [['parse', 'file', [['b', '', 'early', 'bare', 'a', 1, 1], ['b', '', 'K.meth', 'bare', 'x', 7, 0]]],
                   ['reg', 'K', 'register', None],
                   ['parse', 'text', [['b', '', 'K.meth', 'qual', 'y', 9, 0]]],
                   ['parse', 'text', [['b', '', 'K.meth', 'qual', 'x', 8, 2]]]]},
        # scoped, full provisional name, static method; the class is registered by an import in the middle of a later file
        {'steps': [['parse', 'text', [['b', 's1', 'K.smeth', 'full', 'x', 3, 0], ['b', 's1/s2', 'K.meth', 'full', 'y', 4, 1],
                                      ['b', '', 'late', 'bare', 'a', 5, 0], ['b', '', 'K.meth', 'bare', 'x', 6, 0]]],
                   ['bind', 's1', 'K.meth', 'bare', 'x', 11],
                   ['parse', 'file', [['b', '', 'L.lm', 'bare', 'x', 12, 0], ['r', 'K', 'external', 'c16pkg.sub', 1],
                                      ['b', '', 'K', 'bare', 'a', 13, 0], ['r', 'late', 'configurable', None, 0],
                                      ['b', 's1', 'K.smeth', 'qual', 'y', 14, 0], ['b', '', 'late', 'full', 'a', 15, 0]]],
                   ['reg', 'L', 'configurable', 'c16pkg']]},
        # set inside an included file, renamed later; set from Python, renamed; cleared
        {'steps': [['parse', 'file', [['b', '', 'J.jm', 'qual', 'x', 1, 0],
                                      ['i', [['b', '', 'L.lm', 'full', 'y', 2, 2], ['b', 's1', 'L.lm', 'bare', 'x', 3, 0]], 1],
                                      ['b', '', 'L.lm', 'bare', 'x', 4, 0]]],
                   ['bind', '', 'K.meth', 'full', 'y', 21],
                   ['reg', 'L', 'external', None], ['reg', 'K', 'register', 'c16pkg'],
                   ['parse', 'text', [['b', '', 'K.meth', 'bare', 'x', 5, 0], ['b', '', 'L.lm', 'qual', 'y', 6, 0],
                                      ['b', '', 'L', 'full', 'b', 7, 0]]],
                   ['clear'], ['parse', 'text', [['b', '', 'L.lm', 'full', 'x', 8, 1]]]]},
    ]

  def gen(self, rng, tier):
    reg = {'early': (LATE_MOD, 'configurable'), 'J': (LATE_MOD, 'register')}

    def binding():
      for _ in range(8):
        ent = rng.choice(list(LATE_ENTS))
        choice = rng.choice(['bare', 'bare', 'qual', 'full'])
        if late_written(reg, ent, choice)[1] or rng.random() < 0.08:
          break
      return [rng.choice(LATE_SCOPES), ent, choice, rng.choice(LATE_ENTS[ent][3]), rng.randint(0, 99)]

    def registration():
      left = [t for t in LATE_TARGETS if t not in reg]
      if not left:
        return None
      t = rng.choice(left)
      mod, api = rng.choice(LATE_PKGS), rng.choice(LATE_APIS)
      reg[t] = (mod or LATE_MOD, api)
      return [t, api, mod]

    def items(depth):
      out = []
      for _ in range(rng.randint(1, 5)):
        r = rng.random()
        pad = rng.choice([0, 0, 1, 2])
        if r < 0.17:
          rg = registration()
          if rg:
            out.append(['r'] + rg + [pad])
            continue
        if r < 0.27 and depth == 0:
          out.append(['i', items(1), pad])
          continue
        out.append(['b'] + binding() + [pad])
      return out

    steps = []
    for _ in range(rng.randint(3, 8)):
      r = rng.random()
      if r < 0.22:
        rg = registration()
        if rg:
          steps.append(['reg'] + rg)
          continue
      if r < 0.37:
        steps.append(['bind'] + binding())
      elif r < 0.41:
        steps.append(['clear'])
      else:
        steps.append(['parse', rng.choice(['text', 'file']), items(0)])
    return {'steps': steps}

  def shrink(self, c):
    steps = c['steps']
    for i in range(len(steps)):
      yield {'steps': steps[:i] + steps[i + 1:]}
    for i, st in enumerate(steps):
      if st[0] == 'parse':
        for j in range(len(st[2])):
          if len(st[2]) > 1:
            yield {'steps': steps[:i] + [[st[0], st[1], st[2][:j] + st[2][j + 1:]]] + steps[i + 1:]}
          it = st[2][j]
          if it[0] == 'i':
            for k in range(len(it[1])):
              if len(it[1]) > 1:
                yield {'steps': steps[:i] + [[st[0], st[1], st[2][:j] + [['i', it[1][:k] + it[1][k + 1:], it[2]]] + st[2][j + 1:]]] +
                                steps[i + 1:]}

  def impl(self, c):
    gin = C.fresh_gin()
    fails, tags = [], []
    finder = RegFinder()
    finder.remove()
    sys.meta_path.insert(0, finder)
    ns = {'gin': gin, '__name__': LATE_MOD}
    exec(LATE_SRC, ns)  # pylint: disable=exec-used
    files = {}
    gin.config.register_file_reader(lambda path: textm.NamedStringIO(files[path], path), lambda path: path in files)
    done = set()          # the implementation side: what has really been registered

    def do_register(target, api, mod):
      if target in done:
        return
      done.add(target)
      obj = ns[target]
      if api == 'register':
        gin.register(obj, module=mod) if mod else gin.register(obj)
      elif api == 'external':
        gin.external_configurable(obj, module=mod) if mod else gin.external_configurable(obj)
      else:
        gin.configurable(module=mod)(obj) if mod else gin.configurable(obj)

    # the harness's own bookkeeping
    reg = {}              # target -> (module it was registered with, api)
    want = {}             # (scope, entity, parameter) -> [value, None | (file shown, line)]
    state = {'nontrivial': False}

    def note_register(target, api, mod):
      if target in reg:
        return
      reg[target] = (mod or LATE_MOD, api)
      if api != 'configurable' and any(LATE_ENTS[e][1] == target and w[1] is not None for (_, e, _), w in want.items()):
        state['nontrivial'] = True     # a binding set by a config statement lives through the rename of its method

    do_register('early', 'configurable', None)
    note_register('early', 'configurable', None)
    do_register('J', 'register', None)
    note_register('J', 'register', None)

    def render(items, fname, uid):
      """writes the statements of one file / string; returns [(item, line)]"""
      lines, placed = [], []
      for j, it in enumerate(items):
        lines.extend(['', '# c'][:it[-1]] if it[-1] <= 2 else [''] * it[-1])
        placed.append((it, len(lines) + 1))
        if it[0] == 'b':
          lines.append('%s%s.%s = %d' % (it[1] + '/' if it[1] else '', '\0%d' % len(placed), it[4], it[5]))
        elif it[0] == 'r':
          modname = 'c16reg_%s_%d' % (uid, j)
          finder.actions[modname] = (lambda it=it: do_register(it[1], it[2], it[3]))
          lines.append('import ' + modname)
        else:
          sub = 'inc_%s_%d.gin' % (uid, j)
          lines.append("include '%s'" % sub)
      return lines, placed

    def simulate(items, shown, uid):
      """Applies the statements to the bookkeeping in order, writing each selector as the CURRENT registrations require.
      Returns (text, None | location chain of the expected failure)."""
      lines, placed = render(items, shown, uid)
      failed = None
      for n, (it, ln) in enumerate(placed):
        if failed is not None:
          # never reached: any spelling will do
          if it[0] == 'b':
            lines[ln - 1] = lines[ln - 1].replace('\0%d' % (n + 1), late_written(reg, it[2], it[3])[0])
          elif it[0] == 'i':
            files['inc_%s_%d.gin' % (uid, n)] = simulate_dead(it[1])
          continue
        if it[0] == 'b':
          sel, ok = late_written(reg, it[2], it[3])
          lines[ln - 1] = lines[ln - 1].replace('\0%d' % (n + 1), sel)
          if ok:
            want[(it[1], it[2], it[4])] = [it[5], (shown, ln)]
          else:
            failed = [[shown, ln]]
        elif it[0] == 'r':
          note_register(it[1], it[2], it[3])
        else:
          sub = 'inc_%s_%d.gin' % (uid, n)
          text, subfail = simulate(it[1], sub, '%s_%d' % (uid, n))
          files[sub] = text
          if subfail is not None:
            failed = subfail + [[shown, ln]]
      return '\n'.join(lines) + '\n', failed

    def simulate_dead(items):
      return ''.join('%s%s.%s = %d\n' % (it[1] + '/' if it[1] else '', late_written(reg, it[2], it[3])[0], it[4], it[5])
                     for it in items if it[0] == 'b')

    def check(step_no, what):
      try:
        text = gin.config_str(show_provenance=True)
      except Exception as e:  # pylint: disable=broad-except
        fails.append(('config-str-raised', 'after step %d (%s): %s: %s' % (step_no, what, type(e).__name__, str(e)[:200])))
        return
      lines = text.split('\n')
      shown = {}
      for i, l in enumerate(lines):
        if ' = ' in l and not l.startswith('#'):
          key, val = l.split(' = ', 1)
          prev = lines[i - 1] if i else ''
          scope, _, rest = key.rpartition('/')
          sel, _, param = rest.rpartition('.')
          shown[(scope, sel, param)] = (val, prev if prev.startswith('# Set in ') else None)
      names = {e: late_full(reg, e) for e in LATE_ENTS}
      used = set()
      for (scope, ent, param), (val, loc) in want.items():
        hits = [k for k in shown if k[0] == scope and k[2] == param and
                (names[ent] == k[1] or names[ent].endswith('.' + k[1])) and
                sum(1 for f in names.values() if f and (f == k[1] or f.endswith('.' + k[1]))) == 1]
        exp = None if loc is None else '# Set in %s:%d:' % (loc[0] or 'bindings string', loc[1])
        if len(hits) != 1:
          fails.append(('binding-not-printed', 'after step %d (%s): %s%s.%s = %r is bound (last set at %r) but config_str prints '
                        '%r' % (step_no, what, scope + '/' if scope else '', names[ent], param, val, loc, sorted(shown))))
          return
        used.add(hits[0])
        gval, gcom = shown[hits[0]]
        if gval != '%d' % val:
          fails.append(('binding-value-wrong', 'after step %d (%s): %s printed with value %r, last set to %r at %r' %
                        (step_no, what, hits[0], gval, val, loc)))
          return
        if gcom != exp:
          fails.append(('provenance-comment-wrong', 'after step %d (%s): %s%s.%s = %d is printed under the comment %r; it was last '
                        'set by %s, so the comment must be %r' %
                        (step_no, what, scope + '/' if scope else '', hits[0][1], param, val, gcom,
                         'gin.bind_parameter' if loc is None else 'the statement at %r line %d' % (loc[0] or 'bindings string', loc[1]),
                         exp)))
          return
      extra = sorted(set(shown) - used)
      if extra:
        fails.append(('unset-binding-printed', 'after step %d (%s): config_str prints %r, which no applied statement set' %
                      (step_no, what, extra)))

    try:
      check(0, 'start')
      for n, st in enumerate(c['steps'], 1):
        if fails:
          break
        tags.append(st[0])
        if st[0] == 'reg':
          do_register(st[1], st[2], st[3])
          note_register(st[1], st[2], st[3])
          what = 'registering %s' % st[1]
        elif st[0] == 'clear':
          gin.clear_config()
          want.clear()
          what = 'clear_config'
        elif st[0] == 'bind':
          sel, ok = late_written(reg, st[2], st[3])
          key = '%s%s.%s' % (st[1] + '/' if st[1] else '', sel, st[4])
          what = 'bind_parameter(%r)' % key
          try:
            gin.bind_parameter(key, st[5])
            raised = None
          except Exception as e:  # pylint: disable=broad-except
            raised = e
          if ok:
            want[(st[1], st[2], st[4])] = [st[5], None]
          if ok != (raised is None):
            fails.append(('bind-outcome', 'step %d: %s with %r registered: %s' %
                          (n, what, reg, 'accepted' if raised is None else 'raised %s: %s' % (type(raised).__name__, str(raised)[:150]))))
            break
        else:
          shown = '' if st[1] == 'text' else 'q%d.gin' % n
          text, failed = simulate(st[2], shown, str(n))
          what = 'parsing %r' % text
          try:
            if st[1] == 'text':
              gin.parse_config(text)
            else:
              files[shown] = text
              gin.parse_config_file(shown)
            raised = None
          except Exception as e:  # pylint: disable=broad-except
            raised = e
          if (failed is None) != (raised is None):
            fails.append(('parse-outcome', 'step %d: %s with %r registered: %s, the harness expects %s' %
                          (n, what, reg, 'accepted' if raised is None else 'raised %s: %s' % (type(raised).__name__, str(raised)[:200]),
                           'success' if failed is None else 'an unknown configurable at %r' % failed)))
            break
          if raised is not None:
            tags.append('failing-parse')
            o = textm.err_obs(raised)
            if not (o.tag == 'Err' and o.args[0] == 'ValueError'):
              fails.append(('error-class-changed', 'step %d: %s: an unregistered configurable must be a ValueError, got %r' %
                            (n, what, C.jsonable(o))))
            elif o.args[1] != failed:
              fails.append(('error-location-chain', 'step %d: %s: message names %r, the offending statement is at %r' %
                            (n, what, o.args[1], failed)))
          if set(reg) != done:
            fails.append(('harness-registration-bookkeeping', 'step %d: registered %r, bookkeeping %r' % (n, sorted(done), sorted(reg))))
            break
        check(n, what)
    finally:
      finder.remove()
    return {'obs': T('Done'), 'fails': fails[:3], 'nontrivial': state['nontrivial'], 'tags': tags}


# ---- the fault "a well-formed value that cannot be BUILT" (implementation only: engine unbuildable-value)
UNBUILDABLE = {
    'list-key': 'f.a = {[1, 2]: 3}', 'dict-key': 'f.a = {{}: 1}', 'tuple-key': "f.a = {'k': 1, (1, [2]): 3}",
    'nested': "f.a = [1, {'k': {[1]: 2}}]", 'in-tuple': 's1/f.a = ({[]: 0},)', 'macro': 'mac = {[1]: 2}',
    'reference-inside': 'f.a = {[@g()]: 1}', 'scoped-macro': "s1/mac = {'a': 1, {'b': 2}: 3}",
}
for _k, _line in UNBUILDABLE.items():
  FAULT_LINES['unbuildable:' + _k] = _line


class ValueFaultEngine(FaultEngine):
  """bad value in its semantic form: every token of the value is fine for Gin's grammar, but the value cannot be
  constructed (a dictionary whose key is a list / a dictionary / a tuple holding a list).  That is Python's TypeError; like
  every semantic error it must keep its class and name the file and line of the offending statement (the value is on the
  statement's first line here) and every include statement above it; exactly the preceding statements have taken effect.
  Implementation only: the values of Model/Parser.v are trees, any tree is a key."""
  name = 'unbuildable-value'
  model = False

  def budget(self, tier):
    return 60 if tier == 'quick' else 3000

  def expected_class(self, kind):
    return 'TypeError' if kind.startswith('unbuildable:') else SEMANTIC.get(kind)

  def corpus(self):
    files = {'main.gin': [['bind', '', 'f', 'a', '1'], ['include', 'inc.gin'], ['bind', '', 'f', 'c', '3']],
             'inc.gin': [['import', 'other'], ['bind', '', 'f', 'b', '2'], ['include', 'sub/deep.gin'], ['bind', '', 'f', 'b', '4']],
             'sub/deep.gin': [['macro', 'mac', '1'], ['import', 'pkg.mod'], ['macro', 's1/mac', "'s'"]]}
    base = {'files': files, 'entry': 'main.gin', 'seed': 3, 'as_string': False}
    out = []
    for n, k in enumerate(UNBUILDABLE):
      out.append(dict(base, fault=[['sub/deep.gin', 'inc.gin', 'main.gin'][n % 3], 1 + n % 3, 'unbuildable:' + k, 0],
                      as_string=(n % 4 == 3)))
    return out

  def gen(self, rng, tier):
    ab = super().gen(rng, tier)
    files = ab['files']
    inner = [n for n in files if n != ab['entry']]
    fname = rng.choice(inner) if inner and rng.random() < 0.7 else rng.choice(list(files))
    n = len(files[fname])
    ab['fault'] = [fname, rng.randint(min(2, n), n) if rng.random() < 0.5 else rng.randint(0, n),
                   'unbuildable:' + rng.choice(list(UNBUILDABLE)), 0]
    return ab


# ---- files under dynamic registration (implementation only: engine dynamic-registration-faults)
DYN_FUNCS = {'h1': 'c16dyn.alpha', 'h2': 'c16dyn.alpha', 'h3': 'c16dyn.beta', 'h4': 'c16dyn.beta'}
# module -> [(import statement, how the module is written after it)]
DYN_FORMS = {
    'c16dyn.alpha': [('import c16dyn.alpha', 'c16dyn.alpha'), ('import c16dyn.alpha as al', 'al'), ('from c16dyn import alpha', 'alpha')],
    'c16dyn.beta': [('import c16dyn.beta', 'c16dyn.beta'), ('from c16dyn import beta as bt', 'bt'), ('import c16dyn.beta as be', 'be')],
}
# fault kind -> (exception class or None for a syntactic fault, statement; {t}/{u}: a function / another one as the file
# writes them, {m}: the module of {t} as the file writes it)
DYN_FAULTS = {
    'unknown-param': ('ValueError', '{t}.nope = 1'),
    'unknown-param-reference-value': ('ValueError', '{t}.nope = @{u}'),
    'unknown-attribute': ('AttributeError', '{m}.nosuch.p = 1'),
    'unknown-reference': ('AttributeError', '{t}.p = @{m}.nosuch()'),
    'unknown-name': ('NameError', 'zz.nosuch.p = 1'),
    'bad-import': ('ModuleNotFoundError', 'import c16dyn.nosuch'),
    'missing-value': (None, '{t}.p ='),
}


def dyn_render(c):
  """-> (lines of the file under dynamic registration, 1-based line of the fault or None, functions named before the fault)"""
  import random
  rng = random.Random(c.get('pads', 0))
  lines, written, named = [DYN_HEADER], {}, set()
  fault = c.get('fault')
  fault_line = None

  def sel(fn):
    return written[DYN_FUNCS[fn]] + '.' + fn

  def put_fault():
    kind, t, u = fault[1], fault[2], fault[3]
    for fn in (t, u):
      if DYN_FUNCS[fn] not in written:          # the faulty statement needs its modules: imported just before it
        mod = DYN_FUNCS[fn]
        lines.append(DYN_FORMS[mod][0][0])
        written[mod] = DYN_FORMS[mod][0][1]
    lines.append(DYN_FAULTS[kind][1].format(t=sel(t), u=sel(u), m=written[DYN_FUNCS[t]]))
    return len(lines)

  for i, it in enumerate(c['items']):
    if fault and fault[0] == i and fault_line is None:
      fault_line = put_fault()
      before = set(named)
    for _ in range(rng.choice([0, 0, 1])):
      lines.append(rng.choice(['', '# comment']))
    if it[0] == 'import':
      st, w = DYN_FORMS[it[1]][it[2]]
      lines.append(st)
      written[it[1]] = w
    elif DYN_FUNCS[it[2]] in written and (it[0] == 'bind' or DYN_FUNCS[it[4]] in written):
      lines.append('%s%s.%s = %s' % (it[1] + '/' if it[1] else '', sel(it[2]), it[3],
                                     it[4] if it[0] == 'bind' else '@' + sel(it[4]) + it[5]))
      named.update([it[2]] if it[0] == 'bind' else [it[2], it[4]])
  if fault and fault_line is None:
    before = set(named)
    fault_line = put_fault()
  return lines, fault_line, (before if fault else named)


class DynRegistrationEngine(Engine):
  """A file under dynamic registration ('from __gin__ import dynamic_registration', then imports, then bindings and
  references written through those imports) with ONE fault; as a bindings string, a file, or a file included by a
  bindings string.  The error has the class and the location chain the property states.  Afterwards, against a FRESH gin
  given only the statements preceding the fault: the same config_str() (whose header is the recorded imports), the
  same store, and LATER parses behave the same -- for every function of the universe, a later bindings string that names
  it without importing it ('h2.q = 7') is accepted by both or rejected by both: a statement that failed must not have
  made a configurable known.  Implementation only: Model/Stmt.v registers everything up front."""
  name = 'dynamic-registration-faults'
  model = False

  def budget(self, tier):
    return 80 if tier == 'quick' else 4000

  def corpus(self):
    a0, b1 = ['import', 'c16dyn.alpha', 0], ['import', 'c16dyn.beta', 1]
    return [
        # the imports and a binding precede an unknown parameter of a function the file has not named yet
        {'items': [a0, ['bind', '', 'h1', 'p', 3]], 'fault': [2, 'unknown-param', 'h2', 'h1'], 'mode': 'text', 'pads': 1},
        # the same, on a function already configured
        {'items': [a0, ['bind', '', 'h1', 'p', 3]], 'fault': [2, 'unknown-param', 'h1', 'h1'], 'mode': 'file', 'pads': 2},
        # the value names a function for the first time, then the key is refused
        {'items': [a0, b1, ['bind', 's1', 'h3', 'q', 4]], 'fault': [3, 'unknown-param-reference-value', 'h3', 'h2'],
         'mode': 'included', 'pads': 3},
        {'items': [b1, ['ref', '', 'h3', 'p', 'h4', '()'], a0], 'fault': [2, 'unknown-attribute', 'h4', 'h4'], 'mode': 'included', 'pads': 4},
        {'items': [a0, ['bind', '', 'h2', 'q', 1], ['bind', '', 'h1', 'q', 2]], 'fault': [1, 'missing-value', 'h1', 'h1'], 'mode': 'text', 'pads': 5},
        {'items': [a0, ['bind', '', 'h2', 'q', 1]], 'fault': [2, 'bad-import', 'h2', 'h2'], 'mode': 'file', 'pads': 6},
        {'items': [a0, b1, ['ref', '', 'h1', 'p', 'h3', '']], 'fault': None, 'mode': 'text', 'pads': 7},
    ]

  def gen(self, rng, tier):
    items, imported = [], []
    for _ in range(rng.randint(1, 6)):
      r = rng.random()
      if not imported or r < 0.25:
        mod = rng.choice(list(DYN_FORMS))
        items.append(['import', mod, rng.randrange(len(DYN_FORMS[mod]))])
        if mod not in imported:
          imported.append(mod)
        continue
      fns = [f for f, m in DYN_FUNCS.items() if m in imported]
      scope = rng.choice(['', '', 's1', 's1/s2'])
      if r < 0.8:
        items.append(['bind', scope, rng.choice(fns), rng.choice(['p', 'q']), rng.randint(0, 9)])
      else:
        items.append(['ref', scope, rng.choice(fns), rng.choice(['p', 'q']), rng.choice(fns), rng.choice(['', '()'])])
    fault = None
    if rng.random() < 0.9:
      fault = [rng.randint(0, len(items)), rng.choice(list(DYN_FAULTS)), rng.choice(list(DYN_FUNCS)), rng.choice(list(DYN_FUNCS))]
    return {'items': items, 'fault': fault, 'mode': rng.choice(['text', 'file', 'included']), 'pads': rng.randint(0, 10 ** 6)}

  def shrink(self, c):
    for i in range(len(c['items'])):
      b = copy.deepcopy(c)
      del b['items'][i]
      if b['fault'] and b['fault'][0] > i:
        b['fault'][0] -= 1
      yield b
    if c['mode'] != 'text':
      yield dict(copy.deepcopy(c), mode='text')

  def run_one(self, lines, mode):
    """a fresh gin, the universe, one parse of `lines` -> (exception or None, state afterwards, outcome of later parses)"""
    import types
    gin = C.fresh_gin()
    mods = {}
    for name in ['c16dyn'] + sorted(set(DYN_FUNCS.values())):
      mod = types.ModuleType(name)
      mod.__path__ = []
      mods[name] = mod
      if '.' in name:
        setattr(mods['c16dyn'], name.split('.')[1], mod)
    for fn, modname in DYN_FUNCS.items():
      env = {'__name__': modname}
      exec('def %s(p=1, q=2):\n  return (p, q)\n' % fn, env)  # pylint: disable=exec-used
      setattr(mods[modname], fn, env[fn])
    files = {'dyn.gin': '\n'.join(lines) + '\n'}
    gin.config.register_file_reader(lambda path: textm.NamedStringIO(files[path], path), lambda path: path in files)
    sys.modules.update(mods)
    try:
      raised = None
      try:
        if mode == 'text':
          gin.parse_config(files['dyn.gin'])
        elif mode == 'file':
          gin.parse_config_file('dyn.gin')
        else:
          gin.parse_config("\n# the file below enables dynamic registration\ninclude 'dyn.gin'\n")
      except Exception as e:  # pylint: disable=broad-except
        raised = e
      try:
        text = gin.config_str()
      except Exception as e:  # pylint: disable=broad-except
        text = 'config_str() raised %s: %s' % (type(e).__name__, str(e)[:200])
      cfg = gin.config
      state = {'config_str': text,
               'imports': sorted(st.format() for st in cfg._IMPORTS),  # pylint: disable=protected-access
               'store': sorted([k[0], k[1], sorted((p, repr(v)) for p, v in d.items())] for k, d in cfg._CONFIG.items()),  # pylint: disable=protected-access
               'scope': list(gin.current_scope()), 'locked': gin.config_is_locked(), 'contexts': len(cfg._PARSE_CONTEXTS)}  # pylint: disable=protected-access
      later = {}
      for fn in DYN_FUNCS:
        try:
          gin.parse_config('%s.q = 7' % fn)
          later[fn] = 'accepted'
        except Exception as e:  # pylint: disable=broad-except
          later[fn] = 'rejected (%s)' % type(e).__name__
      return raised, state, later
    finally:
      for name in mods:
        sys.modules.pop(name, None)

  def impl(self, c):
    lines, fault_line, named = dyn_render(c)
    fault = c.get('fault')
    mode = c['mode']
    fails, tags = [], ['mode:' + mode, 'fault:' + (fault[1] if fault else 'none')]
    raised, state, later = self.run_one(lines, mode)
    obs = T('Dyn', textm.err_obs(raised) if raised is not None else T('Ok'), state['store'], state['imports'],
            sorted(later.items()))
    if state['scope'] or state['locked'] or state['contexts'] != 1:
      fails.append(('parse-left-state-dirty', 'scope %r, locked %r, %d parse contexts after the call' %
                    (state['scope'], state['locked'], state['contexts'])))
    if not fault:
      if raised is not None:
        fails.append(('valid-config-rejected', '%s: %s' % (type(raised).__name__, str(raised)[:300])))
      return {'obs': obs, 'fails': fails, 'nontrivial': False, 'tags': tags}
    kind = fault[1]
    cls = DYN_FAULTS[kind][0]
    shown = '' if mode == 'text' else 'dyn.gin'
    chain = [[shown, fault_line]] + ([['', 3]] if mode == 'included' else [])
    o = textm.err_obs(raised) if raised is not None else None
    if raised is None:
      fails.append(('fault-not-reported', 'fault %r was accepted: %r' % (fault, lines)))
    elif cls is None:
      if not (o.tag == 'SyntaxError' and o.args[0] == fault_line):
        fails.append(('error-class-changed', 'syntactic fault %s on line %d: got %r' % (kind, fault_line, C.jsonable(o))))
    elif not (o.tag == 'Err' and o.args[0] == cls):
      fails.append(('error-class-changed', 'fault %s: expected %s, got %r' % (kind, cls, C.jsonable(o))))
    elif o.args[1] != chain:
      fails.append(('error-location-chain', 'fault %s in %r: message names %r, expected %r' % (kind, lines, o.args[1], chain)))
    # the independent oracle: a fresh gin given the statements preceding the fault, in the same layout
    praised, pstate, plater = self.run_one(lines[:fault_line - 1], mode)
    what = 'fault %s on line %d of %r (%s)' % (kind, fault_line, lines, mode)
    if praised is not None:
      fails.append(('harness-prefix-config-invalid', '%s: %s' % (type(praised).__name__, str(praised)[:300])))
    elif state['store'] != pstate['store']:
      fails.append(('prefix-not-applied', '%s: store afterwards %r; a fresh gin given the preceding statements only has %r' %
                    (what, state['store'], pstate['store'])))
    elif state['imports'] != pstate['imports']:
      fails.append(('prefix-imports-not-recorded', '%s: recorded imports afterwards %r; a fresh gin given the preceding '
                    'statements only has recorded %r' % (what, state['imports'], pstate['imports'])))
    elif state['config_str'] != pstate['config_str']:
      fails.append(('config-str-differs-from-prefix', '%s: config_str() afterwards %r; a fresh gin given the preceding '
                    'statements only prints %r' % (what, state['config_str'], pstate['config_str'])))
    if praised is None and later != plater:
      left = sorted(fn for fn in later if later[fn] == 'accepted' and plater[fn] != 'accepted')
      if left:
        fails.append(('failed-statement-left-registration', "%s: a later parse of '%s.q = 7' is accepted, in a fresh gin given "
                      'the preceding statements only it is %s: the statement that failed has registered %s' %
                      (what, left[0], plater[left[0]], left)))
      else:
        fails.append(('later-parse-differs-from-prefix', '%s: later parses %r; in a fresh gin given the preceding statements '
                      'only %r' % (what, later, plater)))
    nontrivial = fault[0] >= 2 or mode == 'included' or fault[2] not in named
    return {'obs': obs, 'fails': fails[:4], 'nontrivial': nontrivial, 'tags': tags}


# ---- line-ending conventions and layout characters (implementation only: engine line-endings)
# characters that SOME notions of "line" (str.splitlines) count as line breaks; for Python, for universal newlines and
# for the tokenizer they are not: a form feed is white space, the others are ordinary characters of a comment / a string
LE_SEPS = ['\x0c', '\x0b', '\x1c', '\x1d', '\x1e', '\x85', '\u2028', '\u2029']
LE_EOLS = {'lf': '\n', 'crlf': '\r\n', 'cr': '\r'}
# how the entry text is handed to gin; in the first five the text reaches the parser as written (carriage returns included)
LE_ENTRY_ROUTES = ['string', 'list', 'binary', 'raw', 'reader', 'text', 'path']
LE_INC_ROUTES = ['reader', 'disk']        # an included file: through an in-memory reader (as written) / opened by gin
LE_RAW_ROUTES = ('string', 'list', 'binary', 'raw', 'reader')
LE_FUNCS = {'le.f1': 'le.f1', 'f1': 'le.f1', 'le.f2': 'le.f2', 'f2': 'le.f2'}
LE_DECOS = ['plain', 'str', 'trail', 'multi', 'multi3', 'triple', 'ff-lead', 'ff-inside']
# fault kind -> (exception class, None: SyntaxError with .lineno, 'token': tokenize.TokenError with the line in .args;
#                lines of the statement ({c}: a layout character), offset of the line the error must name,
#                bindings the statement applies before it fails [(line offset, scope, selector, parameter, value)])
LE_FAULTS = {
    'unknown-param': ('ValueError', ['le.f1.nope = 1'], 0, []),
    'unknown-cfg': ('ValueError', ['nosuch.x = 1  # f{c}'], 0, []),
    'unknown-ref': ('ValueError', ['le.f1.x = @nosuch()'], 0, []),
    'denylisted': ('ValueError', ['s1/f2.dn = 1'], 0, []),
    'bad-include': ('OSError', ["include 'missing.gin'"], 0, []),
    'bad-import': ('ModuleNotFoundError', ['import no.such.module'], 0, []),
    'unknown-param-multiline': ('ValueError', ['le.f1.nope = [1,  # v{c}v', '    2]'], 0, []),
    'bad-member': ('ValueError', ['s9/le.f1:', '  # m{c}m', '  y = 5', '  nope = 1'], 3, [(2, 's9', 'le.f1', 'y', 5)]),
    'missing-value': (None, ['le.f1.x ='], 0, []),
    'bad-selector': (None, ['le.f1..x = 1'], 0, []),
    'bad-value': (None, ['le.f1.x = 1 +'], 0, []),
    'unterminated-string': ('token', ["'abc"], 0, []),
}


class LeStop(Exception):
  def __init__(self, chain):
    super().__init__()
    self.chain = chain


def le_bind_lines(it):
  """one binding statement in one of its layouts -> (its lines, the value it binds)"""
  _, scope, fn, p, n, deco, ch = it
  key = '%s%s.%s' % (scope + '/' if scope else '', fn, p)
  if deco == 'str':
    return ["%s = 'a%sb%d'" % (key, ch, n)], 'a%sb%d' % (ch, n)
  if deco == 'trail':
    return ['%s = %d  # t%st' % (key, n, ch)], n
  if deco == 'multi':
    return ['%s = [%d,  # q%sq' % (key, n, ch), '    %d]' % (n + 1)], [n, n + 1]
  if deco == 'multi3':
    return ['%s = (' % key, "    'v%s', %d," % (ch, n), ')'], ('v' + ch, n)
  if deco == 'triple':
    # a string that spans two lines: whatever the line ending of the text, the value holds '\n' (as in Python source)
    return ['%s = """l1%s' % (key, ch), 'l2 %d"""' % n], 'l1%s\nl2 %d' % (ch, n)
  if deco == 'ff-lead':
    return ['\x0c%s = %d' % (key, n)], n
  if deco == 'ff-inside':
    return ['%s =\x0c %d' % (key, n)], n
  return ['%s = %d' % (key, n)], n


def le_render(c, i, inc_path):
  """file i of the case -> (its lines, [(item, 1-based line it begins on, detail)], 1-based first line of the fault or None).
  The harness's own notion of a line: one element of the list; the text is these elements, each followed by a line ending."""
  f = c['files'][i]
  fault = c.get('fault')
  lines, placed, fault_at = [], [], None

  def put_fault():
    return len(lines) + 1, lines.extend(l.replace('{c}', fault[3]) for l in LE_FAULTS[fault[2]][1])

  for pos, it in enumerate(f['items']):
    if fault and fault[0] == i and fault[1] == pos:
      fault_at = put_fault()[0]
    start = len(lines) + 1
    if it[0] == 'b':
      ls, val = le_bind_lines(it)
      lines.extend(ls)
      placed.append((it, start, val))
    elif it[0] == 'c':
      lines.append('# c%sc' % it[1])
    elif it[0] == 'ff':
      lines.append('\x0c')
    elif it[0] == 'blank':
      lines.append(it[1])
    elif it[0] == 'blk':
      lines.append('%s%s:' % (it[1] + '/' if it[1] else '', it[2]))
      members = []
      for p, n, ch in it[3]:
        if ch is not None:
          lines.append('  # m%sm' % ch)
        members.append((p, n, len(lines) + 1))
        lines.append('  %s = %d' % (p, n))
      placed.append((it, start, members))
    elif it[0] == 'inc':
      lines.append("include '%s'" % inc_path(it[1]))
      placed.append((it, start, None))
  if fault and fault[0] == i and fault[1] >= len(f['items']):
    fault_at = put_fault()[0]
  return lines, placed, fault_at


def le_text(lines, eol, final, seed):
  """the lines under a line-ending convention ('mixed': a convention per line)"""
  import random
  rng = random.Random('le/%s' % seed)
  out, prev = [], ''
  for n, l in enumerate(lines):
    if eol == 'mixed':
      # '\r' directly followed by '\n' would read as ONE line break
      e = rng.choice(['\r', '\r\n'] if (l == '' and prev == '\r') else ['\n', '\r\n', '\r'])
    else:
      e = LE_EOLS[eol]
    if n == len(lines) - 1 and not final:
      e = ''
    out.append(l + e)
    prev = e
  return ''.join(out)


class LineEndingEngine(Engine):
  """Where a statement is does not depend on how the text's lines END.  Config texts (a bindings string, a list of
  strings, a file object opened in binary mode / with newline='' / in text mode, a path gin opens itself, a file behind a
  registered reader; include trees of depth <= 3 whose files come through a reader as written or are opened by gin)
  written with LF, CRLF, CR or a mixture of the three, with and without a final line ending, holding LAYOUT characters
  that are no line breaks (form feed as a page-break line, at the start of / inside a statement; form feed, VT, FS, GS, RS,
  NEL, U+2028, U+2029 inside comments, trailing comments, strings, multi-line values, triple-quoted strings spanning
  lines, block-member comments), with ONE fault out of 12 kinds at a random statement position of a random file.  A line is
  what Python reads as one (universal newlines: LF, CRLF, CR); the harness keeps the texts as lists of lines and counts
  by itself.  Checked: the class of the error and the (file, line) chain of its message (SyntaxError.lineno / the line of
  the TokenError for syntactic faults); the store afterwards against the harness's own bookkeeping of the statements
  preceding the fault (values included: the layout characters stay in the strings, a line break inside a triple-quoted
  string is '\\n'); the '# Set in <file>:<line>:' comment of every binding printed by config_str(show_provenance=True);
  scope / lock / parse contexts; and config_str(show_provenance=True) as a whole against a fresh gin given only the lines
  preceding the fault, written with LF.  Implementation only: the texts of Model/Parser.v are token lists per line."""
  name = 'line-endings'
  model = False

  def budget(self, tier):
    return 110 if tier == 'quick' else 5000

  def corpus(self):
    def b(fn, p, n, deco='plain', ch='', scope=''):
      return ['b', scope, fn, p, n, deco, ch]
    out = []
    # a page break (a form feed on a line of its own) between the statements, then the fault
    page = [b('f1', 'x', 1), ['ff'], b('f1', 'y', 2), b('le.f2', 'x', 3)]
    for eol, route in (('crlf', 'string'), ('cr', 'binary'), ('crlf', 'raw'), ('lf', 'string'), ('cr', 'reader')):
      out.append({'files': [{'items': page, 'eol': eol, 'route': route, 'final': True}],
                  'fault': [0, 3, 'unknown-param', ''], 'seed': 1})
    # no fault: provenance of statements after layout characters inside a comment, a string, a multi-line value
    quiet = [['c', '\u2028'], b('f1', 'x', 1, 'str', '\x0c'), b('f1', 'y', 2, 'multi', '\x85', 's1'),
             ['blk', 's2', 'le.f2', [['x', 4, '\x1c'], ['y', 5, None]]], b('f2', 'y', 6, 'triple', '\x0b'), b('f1', 'z', 7)]
    for eol, route in (('crlf', 'list'), ('cr', 'string'), ('mixed', 'binary')):
      out.append({'files': [{'items': quiet, 'eol': eol, 'route': route, 'final': eol != 'cr'}], 'fault': None, 'seed': 2})
    # an include tree: the failing include statement follows a page break, the fault in the included file follows a
    # comment holding U+2029; the included file comes through a reader as written / is opened by gin
    for eol, route, inc_route, kind in (('crlf', 'string', 'reader', 'unknown-cfg'), ('cr', 'raw', 'disk', 'bad-member'),
                                        ('mixed', 'reader', 'reader', 'missing-value')):
      out.append({'files': [{'items': [b('f1', 'x', 0), ['ff'], ['inc', 1], b('f1', 'z', 9)], 'eol': eol, 'route': route, 'final': True},
                            {'items': [['c', '\u2029'], b('f2', 'x', 1, 'trail', '\x1e'), b('f2', 'y', 2)], 'eol': eol,
                             'route': inc_route, 'final': True}],
                  'fault': [1, 2, kind, '\x1d'], 'seed': 3})
    return out

  def gen(self, rng, tier):
    nfiles = rng.choice([1, 1, 2, 2, 3])
    eol0 = rng.choice(['crlf', 'cr', 'mixed', 'crlf', 'cr', 'lf'])

    def ch():
      return rng.choice(LE_SEPS) if rng.random() < 0.8 else ''

    def item():
      r = rng.random()
      scope = rng.choice(['', '', 's1', 's1/s2'])
      if r < 0.5:
        return ['b', scope, rng.choice(list(LE_FUNCS)), rng.choice('xyz'), rng.randint(0, 99), rng.choice(LE_DECOS), ch()]
      if r < 0.65:
        return ['c', ch()]
      if r < 0.77:
        return ['ff']
      if r < 0.82:
        return ['blank', rng.choice(['', '  '])]
      return ['blk', scope, rng.choice(list(LE_FUNCS)),
              [[p, rng.randint(0, 99), rng.choice([None, ch()])] for p in rng.sample('xyz', rng.randint(1, 3))]]

    files = []
    for i in range(nfiles):
      files.append({'items': [item() for _ in range(rng.randint(1, 5))],
                    'eol': eol0 if rng.random() < 0.7 else rng.choice(['lf', 'crlf', 'cr', 'mixed']),
                    'route': rng.choice(LE_ENTRY_ROUTES[:5] + LE_ENTRY_ROUTES) if i == 0 else rng.choice(['reader', 'reader', 'disk']),
                    'final': rng.random() < 0.85})
    for j in range(1, nfiles):
      parent = files[rng.randrange(j)]['items']
      parent.insert(rng.randint(0, len(parent)), ['inc', j])
    fault = None
    if rng.random() < 0.88:
      i = rng.randrange(nfiles)
      n = len(files[i]['items'])
      fault = [i, rng.randint(min(2, n), n) if rng.random() < 0.6 else rng.randint(0, n), rng.choice(list(LE_FAULTS)), ch()]
    return {'files': files, 'fault': fault, 'seed': rng.randint(0, 10 ** 6)}

  def shrink(self, c):
    for i, f in enumerate(c['files']):
      for pos, it in enumerate(f['items']):
        if it[0] == 'inc':
          continue
        b = copy.deepcopy(c)
        del b['files'][i]['items'][pos]
        if b['fault'] and b['fault'][0] == i and b['fault'][1] > pos:
          b['fault'][1] -= 1
        yield b
      for pos, it in enumerate(f['items']):
        if it[0] == 'b' and (it[5] != 'plain' or it[6]):
          b = copy.deepcopy(c)
          b['files'][i]['items'][pos][5:7] = ['plain', '']
          yield b
      if f['eol'] == 'mixed':
        for e in ('crlf', 'cr'):
          b = copy.deepcopy(c)
          b['files'][i]['eol'] = e
          yield b
      if not f['final']:
        b = copy.deepcopy(c)
        b['files'][i]['final'] = True
        yield b

  # -- one run of gin
  def run_one(self, tmp, specs):
    """specs: [{'name', 'route', 'text'}], the first is the entry.  -> (exception or None, state afterwards)"""
    import os
    gin = C.fresh_gin()
    env = {'gin': gin}
    exec("@gin.configurable(module='le')\ndef f1(x=0, y=0, z=0):\n  return (x, y, z)\n"  # pylint: disable=exec-used
         "@gin.configurable(module='le', denylist=['dn'])\ndef f2(x=0, y=0, z=0, dn=0):\n  return (x, y, z, dn)\n", env)
    mem = {}
    for s in specs:
      if s['route'] in ('reader', 'string', 'list'):
        mem[s['name']] = s['text']
      else:
        with open(os.path.join(tmp, s['name']), 'wb') as fh:
          fh.write(s['text'].encode('utf8'))
    gin.config.register_file_reader(lambda path: textm.NamedStringIO(mem[path], path), lambda path: path in mem)
    entry = specs[0]
    path = os.path.join(tmp, entry['name'])
    raised = None
    try:
      if entry['route'] == 'string':
        gin.parse_config(entry['text'])
      elif entry['route'] == 'list':
        gin.parse_config(entry['text'].split('\n'))          # gin joins the elements with '\n': the same text
      elif entry['route'] == 'reader':
        gin.parse_config_file(entry['name'])
      elif entry['route'] == 'path':
        gin.parse_config_file(path)
      else:
        kw = {'binary': dict(mode='rb'), 'raw': dict(mode='r', newline='', encoding='utf8'),
              'text': dict(mode='r', encoding='utf8')}[entry['route']]
        with open(path, **kw) as fh:
          gin.parse_config(fh)
    except Exception as e:  # pylint: disable=broad-except
      raised = e
    cfg = gin.config
    try:
      text = gin.config_str(show_provenance=True)
    except Exception as e:  # pylint: disable=broad-except
      text = 'config_str(show_provenance=True) raised %s: %s' % (type(e).__name__, str(e)[:200])
    state = {'text': text.replace(tmp + os.sep, ''),
             'store': {k: dict(d) for k, d in cfg._CONFIG.items()},  # pylint: disable=protected-access
             'scope': list(gin.current_scope()), 'locked': gin.config_is_locked(), 'contexts': len(cfg._PARSE_CONTEXTS)}  # pylint: disable=protected-access
    return raised, state

  def impl(self, c):
    import os
    import re
    import shutil
    import tempfile
    import tokenize
    files, fault = c['files'], c.get('fault')
    names = ['f%d.gin' % i for i in range(len(files))]
    tmp = tempfile.mkdtemp(prefix='c16le')
    fails = []
    try:
      def inc_path(j):
        return os.path.join(tmp, names[j]) if files[j]['route'] == 'disk' else names[j]
      rendered = [le_render(c, i, inc_path) for i in range(len(files))]
      shown = ['' if (i == 0 and f['route'] in ('string', 'list')) else names[i] for i, f in enumerate(files)]

      # the harness's own bookkeeping: the statements in the order they are reached, up to the fault
      want, prov, reached = {}, {}, []

      def setv(i, scope, sel, p, val, line):
        want.setdefault((scope, LE_FUNCS[sel]), {})[p] = val
        prov[(scope, LE_FUNCS[sel], p)] = (shown[i], line)

      def walk(i):
        _, placed, fault_at = rendered[i]
        reached.append(i)
        k = 0
        for pos in range(len(files[i]['items']) + 1):
          if fault and fault[0] == i and pos == min(fault[1], len(files[i]['items'])):
            for off, scope, sel, p, val in LE_FAULTS[fault[2]][3]:
              setv(i, scope, sel, p, val, fault_at + off)
            raise LeStop([[shown[i], fault_at + LE_FAULTS[fault[2]][2]]])
          if pos == len(files[i]['items']):
            break
          it = files[i]['items'][pos]
          if it[0] not in ('b', 'blk', 'inc'):
            continue
          _, start, detail = placed[k]
          k += 1
          if it[0] == 'b':
            setv(i, it[1], it[2], it[3], detail, start)
          elif it[0] == 'blk':
            for p, n, line in detail:
              setv(i, it[1], it[2], p, n, line)
          else:
            try:
              walk(it[1])
            except LeStop as s:
              s.chain.append([shown[i], start])
              raise

      chain = None
      try:
        walk(0)
      except LeStop as s:
        chain = s.chain

      specs = [{'name': names[i], 'route': f['route'],
                'text': le_text(rendered[i][0], f['eol'], f['final'], '%s/%d' % (c.get('seed', 0), i))} for i, f in enumerate(files)]
      raised, state = self.run_one(tmp, specs)
      what = 'texts %r' % [(s['route'], s['text']) for s in specs]

      # 1. the error: class and where
      if state['scope'] or state['locked'] or state['contexts'] != 1:
        fails.append(('parse-left-state-dirty', 'scope %r, locked %r, %d parse contexts after the call' %
                      (state['scope'], state['locked'], state['contexts'])))
      msg = str(raised).replace(tmp + os.sep, '') if raised is not None else ''
      if chain is None:
        if raised is not None:
          fails.append(('valid-config-rejected', '%s: %s: %s' % (what, type(raised).__name__, msg[:300])))
      elif raised is None:
        fails.append(('fault-not-reported', 'fault %r was accepted: %s' % (fault, what)))
      else:
        cls = LE_FAULTS[fault[2]][0]
        line = chain[0][1]
        if cls is None:
          if not isinstance(raised, SyntaxError):
            fails.append(('error-class-changed', 'syntactic fault %s on line %d: %s raised %s: %s' %
                          (fault[2], line, what, type(raised).__name__, msg[:300])))
          elif raised.lineno != line:
            fails.append(('error-location-chain', 'syntactic fault %s: SyntaxError.lineno is %r, the statement is on line %d of %r: %s' %
                          (fault[2], raised.lineno, line, chain[0][0] or 'bindings string', what)))
        elif cls == 'token':
          if not isinstance(raised, (tokenize.TokenError, SyntaxError)):
            fails.append(('error-class-changed', 'tokenizer fault on line %d: %s raised %s: %s' %
                          (line, what, type(raised).__name__, msg[:300])))
          else:
            got = raised.lineno if isinstance(raised, SyntaxError) else raised.args[1][0]
            if got != line:
              fails.append(('error-location-chain', 'tokenizer fault: the error names line %r, the text at fault is on line %d '
                            'of %r: %s' % (got, line, chain[0][0] or 'bindings string', what)))
        elif type(raised).__name__ != cls:
          fails.append(('error-class-changed', 'fault %s: expected %s, %s raised %s: %s' %
                        (fault[2], cls, what, type(raised).__name__, msg[:300])))
        else:
          got = [[mt.group(1) or '', int(mt.group(2))] for mt in re.finditer(LOC_RE, msg)]
          if got != chain:
            fails.append(('error-location-chain', 'fault %s: the message names %r; the offending statement begins at %r '
                          '(then the include statements above it): %s' % (fault[2], got, chain, what)))

      # 2. exactly the preceding statements have taken effect (the harness's bookkeeping, values included)
      got_store = {k: {p: repr(v) for p, v in d.items()} for k, d in state['store'].items() if d}
      want_store = {k: {p: repr(v) for p, v in d.items()} for k, d in want.items()}
      if got_store != want_store:
        diff = {str(k): (want_store.get(k), got_store.get(k)) for k in set(want_store) | set(got_store)
                if want_store.get(k) != got_store.get(k)}
        fails.append(('prefix-not-applied', 'fault %r: configurable -> (bound by the statements preceding the fault, bound '
                      'now): %r: %s' % (fault, diff, what)))
      else:
        # 3. each binding is attributed to the file and line of the statement that last set it
        lines = state['text'].split('\n')
        comments = {}
        for n, l in enumerate(lines):
          if ' = ' in l and not l.startswith('#'):
            prev = lines[n - 1] if n else ''
            comments[l.split(' = ', 1)[0]] = prev if prev.startswith('# Set in ') else None
        for (scope, sel, p), (fname, line) in sorted(prov.items()):
          keys = [k for k in comments if k in ('%s%s.%s' % (scope + '/' if scope else '', s, p) for s in (sel, sel.split('.')[1]))]
          exp = '# Set in %s:%d:' % (fname or 'bindings string', line)
          if len(keys) != 1:
            fails.append(('binding-not-printed', '%s%s.%s (set at %r line %d) is not printed once by config_str: %r: %s' %
                          (scope + '/' if scope else '', sel, p, fname, line, sorted(comments), what)))
            break
          if comments[keys[0]] != exp:
            fails.append(('provenance-comment-wrong', '%s is printed under the comment %r; the statement that last set it '
                          'begins on line %d of %r, so the comment must be %r: %s' %
                          (keys[0], comments[keys[0]], line, fname or 'bindings string', exp, what)))
            break
        # 4. the independent oracle: a fresh gin given only the lines preceding the fault, written with LF
        if not fails:
          cut = {i: len(rendered[i][0]) for i in range(len(files))}
          if chain is not None:
            # the file at fault keeps the lines before the fault (before the failing member: the block's earlier members
            # stay), every file above it the lines up to and including its include statement
            i = fault[0]
            cut[i] = chain[0][1] - 1
            for lvl in range(1, len(chain)):
              parent = [j for j in reached if any(it[0] == 'inc' and it[1] == i for it in files[j]['items'])][0]
              cut[parent] = chain[lvl][1]
              i = parent
          pspecs = []
          for i, f in enumerate(files):
            plines = le_render(c, i, lambda j: names[j])[0][:cut[i]]
            pspecs.append({'name': names[i], 'route': 'string' if shown[i] == '' else 'reader',
                           'text': ''.join(l + '\n' for l in plines)})
          praised, pstate = self.run_one(tmp, pspecs)
          if praised is not None:
            fails.append(('harness-prefix-config-invalid', '%s: %s: %r' % (type(praised).__name__, str(praised)[:300],
                                                                        [s['text'] for s in pspecs])))
          elif pstate['text'] != state['text']:
            fails.append(('config-str-differs-from-prefix', 'fault %r: config_str(show_provenance=True) afterwards %r; a fresh '
                          'gin given only the lines preceding the fault, written with LF, prints %r: %s' %
                          (fault, state['text'], pstate['text'], what)))
    finally:
      shutil.rmtree(tmp, ignore_errors=True)
    raw_with_layout = any(files[i]['route'] in LE_RAW_ROUTES and files[i]['eol'] != 'lf' and
                          any(ch in l for l in rendered[i][0] for ch in LE_SEPS) for i in reached)
    tags = ['route:' + files[0]['route'], 'fault:' + (fault[2] if fault else 'none')] + sorted({'eol:' + f['eol'] for f in files})
    obs = T('LineEndings', textm.err_obs(raised) if raised is not None else T('Ok'),
            sorted([list(k), sorted(d.items())] for k, d in got_store.items()))
    return {'obs': obs, 'fails': fails[:3], 'nontrivial': bool(fault) and raw_with_layout, 'tags': tags}


ENGINES = [FaultEngine(), ProvenanceEngine(), ImportFaultEngine(), LateRegistrationEngine(), ValueFaultEngine(),
           DynRegistrationEngine(), LineEndingEngine()]
